from pathlib import Path
import pytask
HERE = Path(__file__).parent

def task_b(x: Path = HERE / "x.txt", produces: Path = HERE / "p.txt"):
    with open(HERE / "log", "a") as f: f.write("b\n")
    produces.write_text("P" + x.read_text())

@pytask.mark.persist
def task_t(p: Path = HERE / "p.txt", produces: Path = HERE / "q.txt"):
    with open(HERE / "log", "a") as f: f.write("t\n")
    produces.write_text("Q" + p.read_text())
