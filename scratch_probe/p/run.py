import sys, pytask, os
kw = eval(sys.argv[1])
s = pytask.build(paths=[os.getcwd()], **kw)
print(kw, s.exit_code, [(r.task.name.split("::")[-1], r.outcome.name) for r in s.execution_reports])
