#!/bin/bash
# merge a builder branch into main with the per-file policies of BUILDING.md
# usage: tools/merge_one.sh ws/<name>
set -u
b=$1
cd "$(dirname "$0")/.."
git merge --no-ff --no-commit "$b" >/tmp/merge_$$.log 2>&1
rc=$?
conf=$(git diff --name-only --diff-filter=U)
for f in $conf; do
  case "$f" in
    lean/PytaskModel.lean|lean/Driver/Main.lean|harness/extract.py)
      git show :1:"$f" > /tmp/m_base_$$ 2>/dev/null || : > /tmp/m_base_$$
      git show :2:"$f" > /tmp/m_ours_$$; git show :3:"$f" > /tmp/m_theirs_$$
      git merge-file --union -p /tmp/m_ours_$$ /tmp/m_base_$$ /tmp/m_theirs_$$ > "$f"; git add "$f";;
    harness/common.py|lean/PytaskModel/Generated.lean|harness/anchor_fingerprints.json|lean/PytaskProofs.lean|lean/lakefile.toml|seeded/*|DESIGN.md|MANIFEST.json|tools/*)
      git checkout --ours -- "$f"; git add "$f";;
    evidence/*)
      git checkout --theirs -- "$f"; git add "$f";;
    *) echo "UNRESOLVED $f";;
  esac
done
rm -f /tmp/m_*_$$ /tmp/merge_$$.log
left=$(git diff --name-only --diff-filter=U)
if [ -n "$left" ]; then echo "conflicts left: $left"; exit 1; fi
git commit -q -m "merge $b" && echo "merged $b"
