#!/venv/bin/python
"""Regenerate /verif/MANIFEST.json from the table below (the only place where claims are edited) and validate it.

    /venv/bin/python tools/manifest.py
"""
import json
import sys
from pathlib import Path

VERIF = Path(__file__).resolve().parent.parent
ALL = [f"C{i:02d}" for i in range(1, 21)]

TB = ("Trusted: Lean 4.33 kernel; axioms ⊆ {propext, Classical.choice, Quot.sound} (audited per theorem on every run); harness/extract*.py "
      "(translator of source facts into Generated.lean); Driver/*.lean parsing; the Python generators/canonicalisers; the correspondence "
      "is differential (exhaustive small scope + seeded random), so the model equals the code only on the inputs run. ")

# property -> (theorems/assurance text, level note (what is modelled / assumed), technique)
CLAIMS = {
    "C01": ("Lean 4 theorems C01_sorter_safe, C01_sorter_once, C01_sorter_edges, C01_recreate_keeps (any driver of TopologicalSorter: any batch "
            "sizes, completion orders, re-creation) and C01_order, C01_once (build loop, every legal schedule) over the sorter/engine models; "
            "¬C01_edges_complete_full proved from the F1 witness. Tie: real TopologicalSorter op traces and real pytask.build runs of generated "
            "projects under several PYTHONHASHSEEDs replayed in the model; translator facts (hook order, dag pipeline, priority table).",
            TB + "networkx trusted and cross-checked. Known finding F1 (after= a product-less task is not ordered) is listed in known_findings.json.",
            "Lean 4 proof (invariant by induction over scheduler ops / picks) + translator facts + differential correspondence"),
    "C19": ("Lean 4 theorems (C19_batch, C19_pick_max, C19_first, C19_last, C19_progress, C19_deps, C19_reject for every "
            "state, every n and every set-iteration order; history level: C19_waiting, C19_first_not_overtaken, C19_last_waits — over every run of batches and completions a ready task stays ready and nothing of lower priority is handed out while it waits; C19_no_deadlock, C19_ranked_run, C19_run_never_stalls, C19_fromDag_ranked, C19_build_never_stalls — after any run from from_dag's start state (acyclic by rank) with tasks left and none in flight get_ready hands out a task, so priorities never stall the build) over the sorter model; model tied to the code by translator-extracted facts (priority table, slice direction) "
            "and by replaying real TopologicalSorter op traces in the model under several hash seeds.",
            TB + "networkx trusted.",
            "Lean 4 proof + translator facts + differential correspondence"),
}

NOT_YET = "check under construction (see DESIGN.md §9 build order); not claimed yet"
NOT_APPLICABLE = {}


def main():
    sys.path.insert(0, str(VERIF / "tools"))
    try:
        import manifest_claims  # optional overlay written by the integrator: CLAIMS.update(...)
        CLAIMS.update(manifest_claims.CLAIMS)
        NOT_APPLICABLE.update(getattr(manifest_claims, "NOT_APPLICABLE", {}))
    except ModuleNotFoundError:
        pass
    checks = []
    import re
    sys.path.insert(0, str(VERIF / "harness"))
    import common
    for pid in ALL:
        if pid not in CLAIMS:
            continue
        text, note, tech = CLAIMS[pid]
        # the theorem list, the tie modules and the known findings are read from the tree, not maintained by hand
        src = common.strip_comments((VERIF / "lean/PytaskProofs/Properties" / f"{pid}.lean").read_text())
        thms = re.findall(r"^\s*theorem\s+(\S+)", src, flags=re.M)
        ties = [(n, sec) for n, props, sec, _ in common.tie_modules() if pid in props]
        known = sorted({k.get("id") for k in common.load_known(pid) if k.get("status") == "known"})
        fixed = sorted({f"{k.get('id')} ({k.get('commit')})" for k in common.load_known(pid) if k.get("status") == "fixed"})
        tie_txt = text[text.index("Tie:"):] if "Tie:" in text else ""
        text = (f"Lean 4 theorems proved in lean/PytaskProofs/Properties/{pid}.lean over the executable models in lean/PytaskModel "
                f"({len(thms)} theorems: {', '.join(thms[:40])}{', …' if len(thms) > 40 else ''}); statements that are false of the code are "
                f"stated as `_full` definitions, refuted from the finding's witness, and proved as `_partial`. "
                + (f"Tie modules (behaviour computed from extracted control structure proved equal to the model): "
                   f"{', '.join(f'{n} [{sec}]' for n, sec in ties)}. " if ties else "") + tie_txt)
        note = re.sub(r"\s*Known findings?[^.]*\.(?=\s|$)", "", note, flags=re.I)
        note = re.sub(r"\s*;?\s*known findings?[^.;]*[.;]", ".", note)
        note += (" Known findings (printed as KNOWN-FINDING, exit 0): " + ", ".join(known) + "." if known else " No known finding open.")
        if fixed:
            note += " Repaired in /repo by fix: commits: " + ", ".join(fixed) + "."
        checks.append({
            "property_id": pid,
            "quick_cmd": f"./check {pid} --tier quick",
            "thorough_cmd": f"./check {pid} --tier thorough",
            "evidence_file": f"evidence/{pid}.json",
            "replay_cmd_template": f"./check {pid} --replay {{path}}",
            "engine": "lean-model+correspondence",
            "level_claimed": {"category": "proof", "text": text, "design_ref": f"DESIGN.md §5 {pid}"},
            "level_note": note,
            "technique": tech,
        })
    man = {
        "version": 1,
        "setup_cmd": "cd lean && /venv/bin/python ../harness/extract.py && (lake build || true) && lake build driver PytaskProofs.AuditTool",
        "hooks": {
            "guard": "PYTASK_VERIF",
            "enable": "none needed: no instrumentation is compiled into /repo; observers are loaded through pytask's public plugin entry-point "
                      "mechanism from /verif/harness/plugin (PYTHONPATH) and only act when PYTASK_VERIF=1",
            "baseline_off_cmd": "cd /repo && /venv/bin/python -m pytest -ra -q -p no:cacheprovider --timeout=900 --continue-on-collection-errors",
            "source_commits": [],
            "add_only": True,
        },
        "engines": [{
            "name": "lean-model+correspondence", "path": "lean/ harness/", "serves_properties": [c["property_id"] for c in checks],
            "kind_free_text": "Lean 4 model + theorems; translator-generated facts; differential correspondence against the real code via a line-protocol driver",
        }],
        "checks": checks,
        "not_applicable": [{"property_id": p, "reason": NOT_APPLICABLE.get(p, NOT_YET)} for p in ALL if p not in CLAIMS],
        "notes": "See DESIGN.md. known_findings.json lists genuine defects (known / fixed).",
    }
    (VERIF / "MANIFEST.json").write_text(json.dumps(man, indent=1, ensure_ascii=False) + "\n")
    try:
        import jsonschema
        jsonschema.validate(man, json.load(open("/root/.vp/MANIFEST.schema.json")))
        print("MANIFEST.json valid;", len(checks), "claimed:", " ".join(c["property_id"] for c in checks))
    except ModuleNotFoundError:
        print("MANIFEST.json written (jsonschema not available here)")


if __name__ == "__main__":
    main()
