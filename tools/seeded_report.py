#!/venv/bin/python
"""Print the markdown table of seeded changes vs checks from seeded/MATRIX.json and seeded/*/meta.json."""
import json, re
from pathlib import Path
S = Path(__file__).resolve().parent.parent / "seeded"
mat = json.loads((S / "MATRIX.json").read_text())
SUM = json.loads((S / "SUMMARIES.json").read_text()) if (S / "SUMMARIES.json").exists() else {}
print("| id | breaks | change (needs …) | result |")
print("|---|---|---|---|")
for sid in sorted(mat):
    m = mat[sid]
    runs = m["runs"]
    res = []
    for r in runs:
        kind = "—"
        viol = [l for l in r["lines"] if l.startswith("VIOLATION")]
        what = [l.strip()[6:] for l in r["lines"] if l.strip().startswith("what:")]
        if r["rc"] == 1 and viol:
            kind = "**caught** by " + r["prop"] + (" (no-failing-input-found)" if viol[0].endswith("no-failing-input-found") else "") + (": " + what[0][:110].replace("|", "/") if what else "")
        elif r["rc"] == 0:
            kind = "missed by " + r["prop"]
        else:
            kind = f"rc={r['rc']} ({r['prop']})"
        res.append(kind)
    print(f"| {sid} | {m['property']} | {SUM.get(sid, '')} | {'; '.join(res)} |")
