#!/usr/bin/env python3
"""Run the pinned baseline suite in a given repo dir and report stable_pass tests that no longer pass."""
import json, subprocess, sys, tempfile, os, xml.etree.ElementTree as ET
repo = sys.argv[1] if len(sys.argv) > 1 else "/repo"
base = json.load(open("/root/.vp/BASELINE.json"))
with tempfile.TemporaryDirectory() as d:
    xml = os.path.join(d, "j.xml")
    env = dict(os.environ); env.pop("PYTASK_VERIF", None)
    vf = os.path.join(repo, "src/_pytask/_version.py")
    if not os.path.exists(vf) and os.path.exists("/repo/src/_pytask/_version.py"):
        import shutil; shutil.copy("/repo/src/_pytask/_version.py", vf)   # generated file, untracked: worktrees lack it
    env["PYTHONPATH"] = os.path.join(repo, "src")   # test the given tree, not the editable install of /repo
    loc = subprocess.run(["/venv/bin/python", "-c", "import _pytask;print(_pytask.__file__)"], cwd=repo, env=env, capture_output=True, text=True).stdout.strip()
    print("testing", loc)
    p = subprocess.run(["/venv/bin/python", "-m", "pytest", "-q", "-p", "no:cacheprovider", "--timeout=900",
                        "--continue-on-collection-errors", f"--junitxml={xml}", "-x" if "-x" in sys.argv else "-q"],
                       cwd=repo, env=env, capture_output=True, text=True)
    passed = set()
    for tc in ET.parse(xml).getroot().iter("testcase"):
        ok = not any(c.tag in ("failure", "error", "skipped") for c in tc)
        if ok:
            passed.add(f"{tc.get('classname')}::{tc.get('name')}")
missing = [t for t in base["stable_pass"] if t not in passed]
print(f"stable_pass={len(base['stable_pass'])} passed_now={len(passed)} regressions={len(missing)}")
for m in missing[:40]:
    print("  REGRESSION", m)
sys.exit(1 if missing else 0)
