#!/venv/bin/python
"""Run registered checks against the seeded breaking changes kept under /verif/seeded/<id>/.

    tools/seeded.py list
    tools/seeded.py verify <id>            # patch applies to a scratch worktree, demo fails with / passes without, baseline suite green
    tools/seeded.py run <id> [Cxx ...]     # apply patch to a scratch worktree of /repo, run the checks with VERIF_REPO=<worktree>, undo
    tools/seeded.py matrix [ids...]        # run every seeded change against the check(s) of the property it breaks; writes seeded/MATRIX.json

A scratch worktree (outside /repo and /verif, removed afterwards) is used instead of patching /repo in place so that several runs
can go on in parallel and /repo is never left dirty; `--in-place` applies to /repo itself and restores it with `git checkout -- .`.
"""
from __future__ import annotations

import json
import os
import shutil
import subprocess
import sys
import tempfile
import time
from pathlib import Path

VERIF = Path(__file__).resolve().parent.parent
SEEDED = VERIF / "seeded"
PY = "/venv/bin/python"


def sh(cmd, **kw):
    return subprocess.run(cmd, shell=isinstance(cmd, str), capture_output=True, text=True, **kw)


def metas():
    out = {}
    for d in sorted(SEEDED.glob("*/meta.json")):
        out[d.parent.name] = json.loads(d.read_text())
    return out


class Worktree:
    def __init__(self, patch: Path | None):
        self.patch = patch
        self.dir = None

    def __enter__(self):
        self.dir = Path(tempfile.mkdtemp(prefix="seedwt-"))
        self.dir.rmdir()
        r = sh(["git", "-C", "/repo", "worktree", "add", "-q", "--detach", str(self.dir), "HEAD"])
        if r.returncode:
            raise SystemExit(f"worktree add failed: {r.stderr}")
        vf = Path("/repo/src/_pytask/_version.py")
        if vf.exists():
            shutil.copy(vf, self.dir / "src/_pytask/_version.py")
        # uncommitted edits of /repo's working tree are part of "the current tree"
        d = sh(["git", "-C", "/repo", "diff", "HEAD"]).stdout
        if d.strip():
            subprocess.run(["git", "-C", str(self.dir), "apply"], input=d, text=True, check=True)
        if self.patch is not None:
            r = sh(["git", "-C", str(self.dir), "apply", str(self.patch)])
            if r.returncode:
                raise SystemExit(f"patch does not apply: {r.stderr}")
        return self.dir

    def __exit__(self, *a):
        sh(["git", "-C", "/repo", "worktree", "remove", "--force", str(self.dir)])
        shutil.rmtree(self.dir, ignore_errors=True)
        sh(["git", "-C", "/repo", "worktree", "prune"])


def run_check(prop: str, repo: Path | None, tier="quick", seed=0, timeout=1500):
    env = dict(os.environ, VERIF_SEED=str(seed))
    if repo is not None:
        env["VERIF_REPO"] = str(repo)
    t0 = time.time()
    try:
        r = subprocess.run(["./check", prop, "--tier", tier], cwd=VERIF, env=env, capture_output=True, text=True, timeout=timeout)
        rc, out = r.returncode, r.stdout + r.stderr
    except subprocess.TimeoutExpired as e:
        rc, out = 2, (e.stdout or "") + "\nTIMEOUT"
    lines = [l for l in out.splitlines() if l.startswith(("VIOLATION", "KNOWN-FINDING", "PROOF-BROKEN", "CORRESPONDENCE-BROKEN", "INFRA", "  what:"))]
    return {"prop": prop, "rc": rc, "wall": round(time.time() - t0, 1), "lines": lines[:16], "tail": out.splitlines()[-1:] }


def demo_cmd(d: Path, repo: Path, hashseed=None):
    demo = next((p for p in (d / "demo.py", d / "test_demo.py") if p.exists()), None)
    if demo is None:
        return None
    env = dict(os.environ, PYTHONPATH=f"{repo}/src")
    if hashseed is not None:
        env["PYTHONHASHSEED"] = str(hashseed)
    if demo.name.startswith("test_"):
        cmd = [PY, "-m", "pytest", "-q", "-p", "no:cacheprovider", "-x", str(demo)]
    else:
        cmd = [PY, str(demo)]
    with tempfile.TemporaryDirectory() as cwd:
        r = subprocess.run(cmd, env=env, capture_output=True, text=True, cwd=cwd, timeout=600)
    return r.returncode, (r.stdout + r.stderr)[-600:]


def verify(sid: str, suite=True):
    d = SEEDED / sid
    res = {}
    with Worktree(d / "patch.diff") as wt:
        hs = None
        res["demo_patched"] = demo_cmd(d, wt)
        # a change that only shows under some set orders: pin the hash seed (recorded in the result)
        for hs2 in (0, 1, 2):
            if res["demo_patched"] and res["demo_patched"][0] != 0:
                break
            hs = hs2
            res["demo_patched"] = demo_cmd(d, wt, hs)
        res["demo_hashseed"] = hs
        if suite:
            r = sh([sys.executable, str(VERIF / "tools/baseline.py"), str(wt)])
            res["suite"] = r.stdout.strip().splitlines()[-3:]
    with Worktree(None) as clean:
        res["demo_clean"] = demo_cmd(d, clean, hs)
    ok = res["demo_clean"] and res["demo_clean"][0] == 0 and res["demo_patched"] and res["demo_patched"][0] != 0
    res["ok"] = bool(ok) and (not suite or any("regressions=0" in l for l in res.get("suite", [])))
    return res


def main():
    a = sys.argv[1:]
    if not a or a[0] == "list":
        for k, m in metas().items():
            print(k, m.get("property"), "-", m.get("summary", "")[:100])
        return 0
    if a[0] == "import":   # import <id> <property> <dir with patch.diff, demo, NOTES.md>
        sid, prop, src = a[1], a[2], Path(a[3])
        d = SEEDED / sid
        d.mkdir(parents=True, exist_ok=True)
        for f in src.iterdir():
            if f.is_file() and f.suffix in (".diff", ".py", ".md"):
                shutil.copy(f, d / f.name)
        res = verify(sid)
        meta = {"property": prop, "checks": [prop], "summary": "", "needs": "", "origin": "independent sub-agent given only the property text and a scratch worktree of /repo",
                "verified": res, "ran": "tools/seeded.py verify: demo on clean worktree (must pass), demo on patched worktree (must fail), tools/baseline.py on patched worktree (641 stable tests must pass)"}
        notes = (d / "NOTES.md").read_text() if (d / "NOTES.md").exists() else ""
        meta["notes_head"] = notes[:1500]
        (d / "meta.json").write_text(json.dumps(meta, indent=1))
        print(sid, "verified" if res["ok"] else "NOT VERIFIED", json.dumps(res)[:600])
        return 0 if res["ok"] else 1
    if a[0] == "verify":
        print(json.dumps(verify(a[1], suite="--no-suite" not in a), indent=1))
        return 0
    if a[0] == "run":
        sid = a[1]
        m = metas()[sid]
        props = [x for x in a[2:] if not x.startswith("--")] or m.get("checks") or [m["property"]]
        tier = "thorough" if "--thorough" in a else "quick"
        with Worktree(SEEDED / sid / "patch.diff") as wt:
            for p in props:
                print(json.dumps(run_check(p, wt, tier=tier)))
        return 0
    if a[0] == "matrix":
        ids = a[1:] or list(metas())
        mpath = SEEDED / "MATRIX.json"
        mat = json.loads(mpath.read_text()) if mpath.exists() else {}
        for sid in ids:
            m = metas()[sid]
            props = m.get("checks") or [m["property"]]
            try:
                with Worktree(SEEDED / sid / "patch.diff") as wt:
                    row = [run_check(p, wt) for p in props]
                    # reported only through a broken proof / tie: look for a concrete failing input under other seeds as well
                    def concrete(rs):
                        return any(l.startswith("VIOLATION") and "no-failing-input-found" not in l for r in rs for l in r["lines"])
                    for seed in (1, 2, 3):
                        if concrete(row) or not any(r["rc"] == 1 for r in row):
                            break
                        extra = [run_check(p, wt, seed=seed) for p in props]
                        for r in extra:
                            r["seed"] = seed
                        row += extra
            except SystemExit as e:
                print(sid, "SKIPPED:", e, flush=True)
                continue
            caught = any(r["rc"] == 1 and any(l.startswith("VIOLATION") for l in r["lines"]) for r in row)
            mat[sid] = {"property": m["property"], "caught": caught, "runs": row}
            print(sid, "CAUGHT" if caught else "missed", [(r["prop"], r["rc"], r["wall"]) for r in row], flush=True)
            mpath.write_text(json.dumps(mat, indent=1, sort_keys=True))
        return 0
    print(__doc__)
    return 2


if __name__ == "__main__":
    sys.exit(main())
