#!/bin/sh
# tools/import_wave.sh <dirprefix> <n1> <n2> Cxx...   e.g. tools/import_wave.sh /tmp/mut3_ 5 6 C01 C02
cd /verif || exit 2
pre=$1; a=$2; b=$3; shift 3
for c in "$@"; do
  d=$pre$c/out
  [ -f $d/m1/patch.diff ] && [ -f $d/m2/patch.diff ] || { echo "$c: not ready"; continue; }
  /venv/bin/python tools/seeded.py import $c-m$a $c $d/m1 2>&1 | tail -1 | cut -c1-60
  /venv/bin/python tools/seeded.py import $c-m$b $c $d/m2 2>&1 | tail -1 | cut -c1-60
  git -C /repo worktree remove --force $pre$c
done
