"""Claims overlay for tools/manifest.py: property -> (assurance text, level note, technique)."""

TB = ("Trusted: Lean 4.33 kernel; axioms ⊆ {propext, Classical.choice, Quot.sound} (audited per theorem on every run); harness/extract*.py "
      "(translator of source facts into Generated.lean); Driver/*.lean parsing; the Python generators/canonicalisers; the correspondence "
      "is differential (exhaustive small scope + seeded random), so the model equals the code only on the inputs run. ")
TECH = "Lean 4 proof over an executable model + translator facts + differential correspondence"

CLAIMS = {
    "C04": ("Lean 4 theorems C04_contain, C04_contain_dependants, C04_others, C04_norecord, C04_rerun, C04_limit, C04_exit over the engine model "
            "(M6) for every project, configuration, world and every schedule the build loop accepts (induction over the pick list). Tie: real "
            "pytask.build runs of generated projects with injected failures (raise early/late, omitted product, missing input, max_failures, force) "
            "under several PYTHONHASHSEEDs, replayed step by step in the model; hook orders and the exit-code ladder come from the translator.",
            TB + "C04_rerun reads 'needed to run' as 'has an unrecorded neighbour'. networkx, pluggy, SQLite trusted.", TECH),
    "C10": ("Lean 4 theorems C10_nolog, C10_noworld, C10_nofiles, C10_noninterf (a dry run invokes no body and returns the world unchanged, hence "
            "the following build behaves as if it had not taken place), C10_superset_partial and C10_failures over the engine model for every "
            "schedule, world and configuration; the full superset clause is refuted from the F20 witness (C10_superset_full_false). Tie: twin "
            "experiments on real pytask.build (dry run + build vs build alone from a byte/mtime-restored state, recursive file snapshots), "
            "replayed in the model.",
            TB + "Known finding F20 (force + persist: dry run says PERSISTENCE, forced build executes). File modes/mtimes and directories are "
                 "observed by the harness only.", TECH),
    "C12": ("Lean 4 theorems over the fingerprint model (hash_value, the six node signatures, memoised file state, CPython int hash, POSIX "
            "normpath, collect-time path normalisation): C12_hash_resp, C12_hash_seq_iff, C12_hash_inj_partial/_scalar, C12_sig_iff_* per node "
            "kind, C12_state_content_partial/_history, C12_state_indep, C12_state_sep, C12_memo_preserved_*, C12_normpath_*, C12_collect_*; the "
            "full-strength statements that are false of the code are refuted with witnesses (F3, F4, F17). sha256/md5 enter as hypotheses "
            "(digest length 64, injective on the covering set). Tie: all pairs of a ≈420-value pool in 4 interpreter sessions, 10^4 ints, "
            "all short path strings, node pools, real files through write/utime histories, tiny end-to-end builds.",
            TB + "Known findings F3 (sequence join without separator), F4 (memo keyed by (path, mtime)), F17 (absolute dotted node paths not "
                 "normalised), F18 (NaN hashed by id). hash() of floats, pathlib, os.stat trusted.", TECH),
    "C18": ("Lean 4 theorems over the provisional-node model (M7): C18_glob, C18_resolve, C18_producer_first, C18_order (incl. DAG re-creation), "
            "C18_gen_once (consumes the extracted firstresult chain, so reverting 8626c87 breaks it), C18_generated, C18_rerun_partial; "
            "C18_rerun_full refuted from the F11 witness. Tie: generated projects with producers of N files, consumers and generators over "
            "patterns, histories that grow/shrink/edit the matched set, bodies logging what they received; replayed in the model.",
            TB + "Known finding F11 (a shrinking match set is not detected). Path.glob, pluggy, networkx trusted.", TECH),
}
