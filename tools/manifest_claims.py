"""Claims overlay for tools/manifest.py: property -> (assurance text, level note, technique)."""

TB = ("Trusted: Lean 4.33 kernel; axioms ⊆ {propext, Classical.choice, Quot.sound} (audited per theorem on every run); harness/extract*.py "
      "(translator of source facts into Generated.lean); Driver/*.lean parsing; the Python generators/canonicalisers; the correspondence "
      "is differential (exhaustive small scope + seeded random), so the model equals the code only on the inputs run. ")
TECH = "Lean 4 proof over an executable model + translator facts + differential correspondence"

CLAIMS = {
    "C04": ("Lean 4 theorems C04_contain, C04_contain_dependants, C04_others, C04_norecord, C04_rerun, C04_limit, C04_exit over the engine model "
            "(M6) for every project, configuration, world and every schedule the build loop accepts (induction over the pick list). Tie: real "
            "pytask.build runs of generated projects with injected failures (raise early/late, omitted product, missing input, max_failures, force) "
            "under several PYTHONHASHSEEDs, replayed step by step in the model; hook orders and the exit-code ladder come from the translator.",
            TB + "C04_rerun reads 'needed to run' as 'has an unrecorded neighbour'. networkx, pluggy, SQLite trusted.", TECH),
    "C10": ("Lean 4 theorems C10_nolog, C10_noworld, C10_nofiles, C10_noninterf (a dry run invokes no body and returns the world unchanged, hence "
            "the following build behaves as if it had not taken place), C10_superset_partial and C10_failures over the engine model for every "
            "schedule, world and configuration; the full superset clause is refuted from the F20 witness (C10_superset_full_false). Tie: twin "
            "experiments on real pytask.build (dry run + build vs build alone from a byte/mtime-restored state, recursive file snapshots), "
            "replayed in the model.",
            TB + "Known finding F20 (force + persist: dry run says PERSISTENCE, forced build executes). File modes/mtimes and directories are "
                 "observed by the harness only.", TECH),
    "C12": ("Lean 4 theorems over the fingerprint model (hash_value, the six node signatures, memoised file state, CPython int hash, POSIX "
            "normpath, collect-time path normalisation): C12_hash_resp, C12_hash_seq_iff, C12_hash_inj_partial/_scalar, C12_sig_iff_* per node "
            "kind, C12_state_content_partial/_history, C12_state_indep, C12_state_sep, C12_memo_preserved_*, C12_normpath_*, C12_collect_*; the "
            "full-strength statements that are false of the code are refuted with witnesses (F3, F4, F17). sha256/md5 enter as hypotheses "
            "(digest length 64, injective on the covering set). Tie: all pairs of a ≈420-value pool in 4 interpreter sessions, 10^4 ints, "
            "all short path strings, node pools, real files through write/utime histories, tiny end-to-end builds.",
            TB + "Known findings F3 (sequence join without separator), F4 (memo keyed by (path, mtime)), F17 (absolute dotted node paths not "
                 "normalised), F18 (NaN hashed by id). hash() of floats, pathlib, os.stat trusted.", TECH),
    "C18": ("Lean 4 theorems over the provisional-node model (M7): C18_glob, C18_resolve, C18_producer_first, C18_order (incl. DAG re-creation), "
            "C18_gen_once (consumes the extracted firstresult chain, so reverting 8626c87 breaks it), C18_generated, C18_rerun_partial; "
            "C18_rerun_full refuted from the F11 witness. Tie: generated projects with producers of N files, consumers and generators over "
            "patterns, histories that grow/shrink/edit the matched set, bodies logging what they received; replayed in the model.",
            TB + "Known finding F11 (a shrinking match set is not detected). Path.glob, pluggy, networkx trusted.", TECH),
}

CLAIMS.update({
    "C02": ("Lean 4 theorems over the engine model (state = content id): C02_equiv/_equiv_build (SKIP_UNCHANGED only if every neighbour matched its row at "
            "setup), the inductive database invariant C02_inv_init/_inv_edit/_inv_protocol/_inv_build/_history_coherent, C02_inv (in every world "
            "reachable by edits and builds, matching rows imply the products are what the body computes from the current inputs), C02_partial / "
            "C02_success / C02_exit0 (products of SUCCESS/unchanged tasks equal the from-scratch contents), C02_vs_fresh_build; the statement without a "
            "static project is refuted from the F11b witness. Tie: histories of builds (plain/forced/dry/-k/-m/max_failures) and edits on real "
            "projects, compared with F evaluated from scratch and replayed in the model.",
            TB + "Known finding F11b (a dependency dropped from a task without a module-text change). mtime/memo effects (F4) are decided in C12, "
                 "directory patterns (F11) in C18; persist-marked tasks are outside the claim; add/remove/rewire edits are covered by the campaign only.", TECH),
    "C03": ("Lean 4 theorems C03_step, C03_history (a task whose neighbours have the recorded contents is not executed, whatever unrelated edits, "
            "touches or upstream re-runs happened), C03_rows_cover_neighbours, C03_repeat / C03_repeat_exit0 (after an all-good build every later "
            "non-forced build executes nothing and changes nothing) over the engine model for all configurations and schedules. Tie: histories with "
            "touch-only edits, identical rewrites, edit-then-revert, selections, fresh processes; ground truth kept by the harness; replayed in the model.",
            TB + "Forced builds, generators and in-memory products are outside the claim (by the property).", TECH),
    "C05": ("Lean 4 theorems over a step-level refinement of the engine (one step per product write and per committed row set): C05_applySteps_all "
            "(the step model refines Engine.build), C05_rows_safe (at every kill point, matching rows imply fresh products), C05_rc_init/_rc_build, "
            "C05_no_redo, C05_unchanged_rows, C05_converge_step/_partial/C05_converge (kill anywhere, then a good recovery build ⇒ from-scratch "
            "fixpoint, later builds quiet), C05_memo_garbage_ok. Tie: real os._exit kills at every hook boundary / commit / mid-body through an "
            "out-of-tree observer plugin, torn hash-cache files, recovery builds replayed in the model.",
            TB + "SQLite commit atomicity/durability and os._exit ≈ SIGKILL assumed; power-loss reordering not modelled; persist marks excluded.", TECH),
    "C07": ("Lean 4 theorems over the pytree / task-argument model: C07_unflatten_flatten, C07_leaves_map, C07_paths_at, C07_mapWithPath, "
            "C07_prefix_iff_flatten, C07_prefix_flatten, C07_prefix_reject, C07_return_stores, C07_return_nowrong, C07_kwargs_correct, C07_dep_full, "
            "C07_products_full, C07_dependencies_full (every parameter receives the declared tree with leaves loaded; return leaves land at their "
            "positions; a non-fitting return stores nothing). Tie: optree on all small trees, generated task signatures mixing all declaration "
            "forms built end-to-end, bodies logging what they received; translator facts from behavioural probes.",
            TB + "optree, pickling, Python call semantics trusted; F70/F71/F72 were repaired by fix: commits and their witnesses are corpus cases.", TECH),
    "C08": ("Lean 4 theorems C08_one_report/_at_most_one/_exactly_one, C08_success, C08_not_run, C08_fail_iff, C08_no_crash over the engine and "
            "C08_top_is_build, C08_returns, C08_returns_full, C08_exit_config/_collect/_dag/_execute/_import, C08_exit_zero_iff, C08_escapes_scope over "
            "BuildTop (the try/except ladder of build() taken from the translator). Tie: fault injection in every phase through pytask.build "
            "(syntax/import errors, sys.exit at import, bad markers, bad config, bad expressions, cycles, duplicate products, body/load/save/state/"
            "hash faults, SystemExit) replayed in the model.",
            TB + "KeyboardInterrupt escapes by design; configuration exception classes are not observable from outside.", TECH),
    "C09": ("Lean 4 theorems: graph theory of the model (mem_ancRaw_iff, hasCycle_true_iff, hasCycle_false_iff_hasRank), createDag_error_iff, "
            "C09_reject_code, C09_reject_partial, C09_exit4_iff, C09_accept, C09_accept_sorter, C09_no_late_cycle; the full rejection statement is "
            "refuted from the F1 after-cycle witness. Tie: real create_dag on all small bipartite graphs × after relations (thorough: all 245k), "
            "random graphs, and pytask.build on generated projects (spellings, PythonNodes, repaired second build).",
            TB + "networkx trusted; known finding F1 (an after-declaration towards a product-less task creates no edge, so a cycle closed only "
                 "through it is not rejected).", TECH),
    "C11": ("Lean 4 theorems over the clean model (PurePosixPath.match/fnmatch in full detail, node tree, known paths incl. git join logic, modes): "
            "C11_listed_inside, C11_listed_file, C11_listed_dir, C11_files_only, C11_protected_not_covered, C11_below_excluded, C11_clean_dry, "
            "C11_clean_force, C11_clean_interactive, C11_uncovered_survives, C11_known_covers_full, C11_never_offered_full, C11_pytask_dir_safe "
            "(by induction on the file tree). Tie: real `pytask clean` via CliRunner on generated trees × git states × excludes × flags, exhaustive "
            "node-level trees, pattern matching on all small patterns.",
            TB + "git's answers are inputs of the model; symlinks and non-POSIX paths out of scope; F9 and F16 were repaired by fix: commits.", TECH),
    "C13": ("Lean 4 theorems over the collection model: C13_walk_once, C13_walk_repeat, C13_short_names_inj/_total, C13_ids_sound, C13_ids_total_full, "
            "C13_decorator_exact, C13_dup_id_fails, C13_id_clash_fails, C13_dup_signature_fails, C13_hooks_disjoint_*, C13_prefix_exact/_once, "
            "C13_cross_hook_full, C13_report_path, C13_module_inj_partial, C13_import_own_partial, C13_exit/_leftovers_fail/_file_fail_exit; module-name "
            "injectivity at full strength is refuted (F12). Tie: generated layouts × declaration programs collected by the real code, bodies tagged.",
            TB + "CPython import machinery trusted; known finding F12 (two files mapped to one module name); F8a/F8b repaired by fix: commits.", TECH),
    "C16": ("Lean 4 theorems over the expression model: C16_parse_sound, C16_parse_complete (against a left-recursive reference CFG), "
            "C16_grammar_unambiguous, C16_parse_total, C16_compile_ok_iff, C16_precedence, C16_eval_bool, C16_empty_false, C16_lex_roundtrip, "
            "C16_blanks_irrelevant, C16_lex_keyword_whole, C16_alphabet, C16_lex_reject, C16_kw_semantics, C16_mark_semantics, C16_select_*. Tie: "
            "every string of ≤ 6 (thorough 7) symbols under all truth assignments, random unicode strings, generated tasks, real Expression / "
            "matchers / select_by_* vs the model and an independent oracle; lexer facts from the translator.",
            TB + "`\\w` and str.lower tables are parameters supplied per string by the harness.", TECH),
    "C20": ("Lean 4 theorems over the data-catalog model (validator class and re function from the translator, sessions with node persistence): "
            "C20_name_valid_verdict/_partial, C20_entry_stable, C20_entry_iso, C20_entry_iso_verdict, C20_store_roundtrip, C20_catalog_roundtrip, "
            "C20_catalog_roundtrip_verdict (the full statements hold iff the validator uses fullmatch — which it does since fix 7a8cb52). Tie: all "
            "names of ≤ 3 symbols plus random unicode/long/separator/case names in several sessions, save/load traces, end-to-end builds.",
            TB + "sha256 injectivity is a hypothesis; pickle fidelity trusted; case-sensitive file system.", TECH),
})
