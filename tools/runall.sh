#!/bin/sh
# tools/runall.sh [tier] [props...]: run checks sequentially, one summary line each
tier=${1:-quick}; shift 2>/dev/null
props=${@:-C01 C02 C03 C04 C05 C06 C07 C08 C09 C10 C11 C12 C13 C14 C15 C16 C17 C18 C19 C20}
cd "$(dirname "$0")/.." || exit 2
for c in $props; do
  out=$(./check $c --tier $tier 2>&1); rc=$?
  echo "rc=$rc $(echo "$out" | tail -1)"
  echo "$out" | grep "^VIOLATION\|^INFRA\|^PROOF-BROKEN\|^CORRESPONDENCE" | cut -c1-300
done
