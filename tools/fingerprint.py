#!/venv/bin/python
"""tools/fingerprint.py [--update]: show / rewrite harness/anchor_fingerprints.json from /repo's current tree."""
import json, sys
from pathlib import Path
sys.path.insert(0, str(Path(__file__).resolve().parent.parent / "harness"))
import fingerprint
cur = fingerprint.current(Path("/repo"))
if "--update" in sys.argv:
    fingerprint.TABLE.write_text(json.dumps(cur, indent=1, sort_keys=True) + "\n")
    print("written", len(cur), "fingerprints")
else:
    old = json.loads(fingerprint.TABLE.read_text()) if fingerprint.TABLE.exists() else {}
    for f, h in cur.items():
        if old.get(f) != h:
            print("CHANGED", f)
