#!/bin/sh
# import finished wave-2 mutants: /tmp/mut2_CXX/out/m1,m2 -> seeded/CXX-m3, CXX-m4 (verify with baseline), then remove the worktree
cd /verif || exit 2
for c in "$@"; do
  d=/tmp/mut2_$c/out
  [ -f $d/m1/patch.diff ] && [ -f $d/m2/patch.diff ] || { echo "$c: not ready"; continue; }
  /venv/bin/python tools/seeded.py import $c-m3 $c $d/m1 2>&1 | tail -1 | cut -c1-60
  /venv/bin/python tools/seeded.py import $c-m4 $c $d/m2 2>&1 | tail -1 | cut -c1-60
  git -C /repo worktree remove --force /tmp/mut2_$c
done
