#!/bin/bash
# tools/matrix_shards.sh <nshards> <id>...   run tools/seeded.py matrix over the ids in <nshards> scratch worktrees of /verif (HEAD),
# merge the rows into seeded/MATRIX.json and remove the worktrees. Uncommitted changes of /verif are NOT seen by the shards.
n=$1; shift
ids=("$@")
cd /verif || exit 2
pids=()
for i in $(seq 1 $n); do
  wt=/tmp/vm$i
  git worktree remove --force $wt 2>/dev/null; rm -rf $wt
  git worktree add -q --detach $wt HEAD || exit 2
  cp -r lean/.lake $wt/lean/.lake
  mine=()
  for j in "${!ids[@]}"; do [ $((j % n + 1)) -eq $i ] && mine+=("${ids[$j]}"); done
  [ ${#mine[@]} -eq 0 ] && continue
  ( cd $wt && /venv/bin/python tools/seeded.py matrix "${mine[@]}" > /tmp/vm$i.log 2>&1 ) &
  pids+=($!)
done
wait "${pids[@]}"
/venv/bin/python - "$n" <<'PY'
import json, sys
n = int(sys.argv[1])
main = json.load(open('/verif/seeded/MATRIX.json'))
wanted = set()
for i in range(1, n + 1):
    try:
        log = open(f'/tmp/vm{i}.log').read()
    except FileNotFoundError:
        continue
    done = {l.split()[0] for l in log.splitlines() if ' CAUGHT ' in l or ' missed ' in l}
    m = json.load(open(f'/tmp/vm{i}/seeded/MATRIX.json'))
    for k in done:
        main[k] = m[k]
    print(log.strip())
json.dump(main, open('/verif/seeded/MATRIX.json', 'w'), indent=1, sort_keys=True)
PY
for i in $(seq 1 $n); do git worktree remove --force /tmp/vm$i 2>/dev/null; done
git worktree prune
