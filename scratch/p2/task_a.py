from pathlib import Path
from typing import Annotated
from pytask import task, PythonNode, Product

@task(produces=Path("ret.txt"))
def task_mix(path: Annotated[Path, Product] = Path("a.txt"), produces=Path("b.txt")):
    Path(__file__).parent.joinpath("log.txt").write_text(repr((path, produces)))
    path.write_text("x"); produces.write_text("y")
    return "r"
