from pathlib import Path
from typing import Annotated
from pytask import task, PythonNode, Product

n1 = PythonNode(name="n1")

def task_prod() -> Annotated[int, n1]:
    return 41

@task(kwargs={"x": {"a": PythonNode(value=1), "b": 2}, "y": [n1, 5], "z": n1, "w": [PythonNode(value=7, hash=True), 3]})
def task_cons(x, y, z, w, produces=Path("out.txt")):
    produces.write_text(repr((x, y, z, w)))
