example : ".pytask".toList = ['.', 'p', 'y', 't', 'a', 's', 'k'] := by decide
example : ".pytask".toList = ['.', 'p', 'y', 't', 'a', 's', 'k'] := rfl
example : ("root" == "git_root") = false := by decide
example : ("root" == "root") = true := by decide
#eval "a/b".toList
#check @String.ofList
#check @List.isPrefixOf
#check @List.IsPrefix
example : ('a' < 'b') := by decide
#eval ("abc".toList.drop 1).findIdx? (· == 'c')
