import sys, json
sys.path.insert(0, '/tmp/ws_c18/harness')
import common
from props import c18
from impl import prov_api as pa
ctx = common.Ctx("C18", "quick", int(sys.argv[1]) if len(sys.argv) > 1 else 0)
n = int(sys.argv[2]) if len(sys.argv) > 2 else 0
hs = c18.corpus()
for _ in range(n):
    spec = pa.gen_spec(ctx.rng)
    hs.append({"tag": "rand", "spec": spec, "steps": pa.gen_steps(ctx.rng, spec)})
recs = c18.run_histories(ctx, hs)
c18.evaluate(ctx, hs, recs)
print("evals", ctx.evaluations, "nontrivial", len(ctx.nontrivial), "viol", len(ctx.violations), "dis", len(ctx.disagreements))
for v in [x for x in ctx.violations if not x["finding"]][:6]: print("V", v["what"][:700]); print(json.dumps(v["replay"]["history"])[:1500])
for d in ctx.disagreements[:4]: print("D", d["what"][:600]); print(json.dumps(d["replay"]["history"])[:1800])
print({k: v for k, v in ctx.dist.items() if k.startswith(("oracle", "outcome", "exit"))})
print("after-tasks", sum(1 for h in hs for t in h["spec"]["tasks"] if t.get("after")), "dnames", sum(1 for h in hs for t in h["spec"]["tasks"] if t.get("dname")))
if ctx._driver: ctx._driver.close()
