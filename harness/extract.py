#!/venv/bin/python
"""Translator: regenerate lean/PytaskModel/Generated.lean from /repo's current working tree.

Emits *data*, not logic (DESIGN §2.4). Fail-closed: anything it does not recognise raises
ExtractError(reason); the caller treats that as "the tie no longer checks".
"""
from __future__ import annotations

import ast
import os
import sys
from pathlib import Path

REPO = Path(os.environ.get("VERIF_REPO", "/repo"))
SRC = REPO / "src" / "_pytask"
OUT = Path(os.environ.get("VERIF_LEAN") or (Path(__file__).resolve().parent.parent / "lean")) / "PytaskModel" / "Generated.lean"


class ExtractError(Exception):
    pass


def _parse(name: str) -> ast.Module:
    p = SRC / name
    try:
        return ast.parse(p.read_text())
    except (OSError, SyntaxError) as e:  # pragma: no cover
        raise ExtractError(f"cannot parse {p}: {e}") from None


def _func(mod: ast.Module, name: str) -> ast.FunctionDef:
    for n in ast.walk(mod):
        if isinstance(n, ast.FunctionDef) and n.name == name:
            return n
    raise ExtractError(f"function {name} not found")


def lean_str(s: str) -> str:
    out = []
    for ch in s:
        if ch == '"':
            out.append('\\"')
        elif ch == "\\":
            out.append("\\\\")
        elif ch == "\n":
            out.append("\\n")
        elif ch == "\t":
            out.append("\\t")
        elif ch == "\r":
            out.append("\\r")
        elif ord(ch) < 32 or ord(ch) == 127:
            out.append("\\x%02x" % ord(ch))
        else:
            out.append(ch)
    return '"' + "".join(out) + '"'


def lean_list(xs, f=str) -> str:
    return "[" + ", ".join(f(x) for x in xs) + "]"


def lean_bool(b: bool) -> str:
    return "true" if b else "false"


# ------------------------------------------------------------------------------------------------
# facts
# ------------------------------------------------------------------------------------------------

def priority_table():
    """numeric_mapping of _extract_priorities_from_tasks (dag_utils.py)."""
    fn = _func(_parse("dag_utils.py"), "_extract_priorities_from_tasks")
    for n in ast.walk(fn):
        if isinstance(n, ast.Assign) and isinstance(n.value, ast.Dict) and any(
            isinstance(t, ast.Name) and t.id == "numeric_mapping" for t in n.targets
        ):
            try:
                d = ast.literal_eval(n.value)
            except Exception as e:
                raise ExtractError(f"numeric_mapping is not a literal: {e}") from None
            rows = []
            for k, v in d.items():
                if not (isinstance(k, tuple) and len(k) == 2 and all(isinstance(b, bool) for b in k) and isinstance(v, int)):
                    raise ExtractError(f"numeric_mapping entry {k!r}: {v!r} not (bool,bool)->int")
                rows.append((k, v))
            # the key is (try_first, try_last): check the construction site uses that order
            src = ast.unparse(fn)
            if 'numeric_mapping[p[\'try_first\'], p[\'try_last\']]' not in src.replace("(", "").replace(")", ""):
                raise ExtractError("numeric_mapping is not indexed by (try_first, try_last)")
            return rows
    raise ExtractError("numeric_mapping not found")


def sorter_facts():
    """Shape of get_ready: sorted(..., key=priorities.get(x, 0))[-n:], and n < 1 guard."""
    mod = _parse("dag_utils.py")
    fn = _func(mod, "get_ready")
    src = ast.unparse(fn)
    facts = {}
    if "[-n:]" in src:
        facts["slice"] = "last"
    elif "[:n]" in src:
        facts["slice"] = "first"
    else:
        raise ExtractError("get_ready: unrecognised slice")
    facts["reverse"] = "reverse=True" in src
    if "self.priorities.get(x, 0)" not in src:
        raise ExtractError("get_ready: unrecognised sort key")
    if "n < 1" not in src:
        raise ExtractError("get_ready: unrecognised guard on n")
    return facts


def hook_orders():
    """Actual pluggy call order of the implementations of the modelled hooks."""
    sys.path.insert(0, str(REPO / "src"))
    try:
        from _pytask.pluginmanager import get_plugin_manager
        import _pytask
        if not str(Path(_pytask.__file__).resolve()).startswith(str((REPO / "src").resolve())):
            raise ExtractError(f"_pytask imported from {_pytask.__file__}, not from {REPO}/src")
        pm = get_plugin_manager()
    except ExtractError:
        raise
    except Exception as e:
        raise ExtractError(f"cannot instantiate plugin manager: {type(e).__name__}: {e}") from None
    out = {}
    specs = {}
    for hook in (
        "pytask_execute_task_setup",
        "pytask_execute_task",
        "pytask_execute_task_teardown",
        "pytask_execute_task_process_report",
        "pytask_unconfigure",
        "pytask_execute_build",
        "pytask_execute_task_protocol",
    ):
        caller = getattr(pm.hook, hook)
        impls = list(reversed(caller.get_hookimpls()))  # pluggy calls in reverse registration order
        names = []
        for impl in impls:
            if impl.plugin_name.startswith("verif_probe"):
                continue
            mod = impl.plugin_name.split(".")[-1]
            kind = "wrap:" if (impl.hookwrapper or getattr(impl, "wrapper", False)) else ""
            names.append(kind + mod)
        out[hook] = names
        opts = caller.spec.opts if caller.spec else {}
        specs[hook] = bool(opts.get("firstresult"))
    return out, specs


def exit_codes():
    mod = _parse("outcomes.py")
    for n in ast.walk(mod):
        if isinstance(n, ast.ClassDef) and n.name == "ExitCode":
            rows = []
            for b in n.body:
                if isinstance(b, ast.Assign) and isinstance(b.value, ast.Constant) and isinstance(b.value.value, int):
                    rows.append((b.targets[0].id, b.value.value))
            if not rows:
                raise ExtractError("ExitCode has no members")
            return rows
    raise ExtractError("ExitCode not found")


def build_ladder():
    """except ladder of build(): [(exception names, exit-code member or 'print+FAILED')], plus
    whether pytask_unconfigure is called after the ladder."""
    fn = _func(_parse("build.py"), "build")
    tries = [n for n in fn.body if isinstance(n, ast.Try)]
    if len(tries) != 1:
        raise ExtractError("build(): expected one outer try")
    outer = tries[0]
    if len(outer.handlers) != 1:
        raise ExtractError("build(): outer try has != 1 handler")
    conf_code = None
    for n in ast.walk(outer.handlers[0]):
        if isinstance(n, ast.Attribute) and isinstance(n.value, ast.Name) and n.value.id == "ExitCode":
            conf_code = n.attr
    if conf_code is None:
        raise ExtractError("build(): configuration handler sets no exit code")
    inner = [n for n in outer.orelse if isinstance(n, ast.Try)]
    if len(inner) != 1:
        raise ExtractError("build(): expected one inner try in else")
    inner = inner[0]
    phases = []
    for st in inner.body:
        src = ast.unparse(st)
        if "pytask_log_session_header" in src:
            phases.append("header")
        elif "pytask_collect" in src:
            phases.append("collect")
        elif "create_dag" in src:
            phases.append("dag")
        elif "pytask_execute" in src:
            phases.append("execute")
        else:
            raise ExtractError(f"build(): unrecognised phase statement {src!r}")
    ladder = []
    for h in inner.handlers:
        if h.type is None:
            names = ["BaseException"]
        elif isinstance(h.type, ast.Name):
            names = [h.type.id]
        elif isinstance(h.type, ast.Tuple):
            names = [e.id for e in h.type.elts]
        else:
            raise ExtractError("build(): unrecognised handler type")
        code = None
        for n in ast.walk(h):
            if isinstance(n, ast.Attribute) and isinstance(n.value, ast.Name) and n.value.id == "ExitCode":
                code = n.attr
        if code is None:
            raise ExtractError(f"build(): handler for {names} sets no exit code")
        ladder.append((names, code))
    after = [ast.unparse(s) for s in outer.orelse if not isinstance(s, ast.Try)]
    unconf = any("pytask_unconfigure" in s for s in after)
    return conf_code, phases, ladder, unconf


def dag_pipeline():
    fn = _func(_parse("dag.py"), "create_dag_from_session")
    names = []
    for st in fn.body:
        if isinstance(st, ast.Expr) and isinstance(st.value, ast.Constant):
            continue
        call = None
        for n in ast.walk(st):
            if isinstance(n, ast.Call) and isinstance(n.func, ast.Name):
                call = n.func.id
                break
        if isinstance(st, ast.Return):
            continue
        if call is None and isinstance(st, ast.Assign) and not any(isinstance(n, ast.Call) for n in ast.walk(st)):
            continue   # a helper variable without any call (the data flow of the steps is checked by extract_dag)
        if call is None:
            raise ExtractError(f"create_dag_from_session: unrecognised statement {ast.unparse(st)!r}")
        names.append(call)
    known = {
        "_create_dag_from_tasks": "create",
        "_check_if_dag_has_cycles": "cycles",
        "_check_if_tasks_have_the_same_products": "products",
        "_modify_dag": "modify",
        "select_tasks_by_marks_and_expressions": "select",
    }
    out = []
    for n in names:
        if n not in known:
            raise ExtractError(f"create_dag_from_session: unknown step {n}")
        out.append(known[n])
    return out


def core_section() -> list[str]:
    prio = priority_table()
    sf = sorter_facts()
    orders, firstresult = hook_orders()
    codes = exit_codes()
    conf_code, phases, ladder, unconf = build_ladder()
    pipeline = dag_pipeline()

    def strs(xs):
        return lean_list(xs, lean_str)

    L = []
    L.append("/-- `numeric_mapping` in `_extract_priorities_from_tasks`: (try_first, try_last) ↦ priority. -/")
    L.append("def priorityTable : List ((Bool × Bool) × Int) := "
             + lean_list(prio, lambda r: f"(({lean_bool(r[0][0])}, {lean_bool(r[0][1])}), ({r[1]} : Int))"))
    L.append(f"/-- `get_ready`: which end of the ascending sort is returned. -/")
    L.append(f"def readySliceLast : Bool := {lean_bool(sf['slice'] == 'last')}")
    L.append(f"def readySortReversed : Bool := {lean_bool(sf['reverse'])}")
    L.append("")
    for hook, key in (
        ("pytask_execute_task_setup", "setupOrder"),
        ("pytask_execute_task", "executeOrder"),
        ("pytask_execute_task_teardown", "teardownOrder"),
        ("pytask_execute_task_process_report", "processReportOrder"),
        ("pytask_unconfigure", "unconfigureImpls"),
    ):
        L.append(f"/-- pluggy call order of `{hook}` (firstresult = {lean_bool(firstresult[hook])}). -/")
        L.append(f"def {key} : List String := {strs(orders[hook])}")
        L.append(f"def {key}FirstResult : Bool := {lean_bool(firstresult[hook])}")
    L.append("")
    L.append("def exitCodes : List (String × Nat) := " + lean_list(codes, lambda r: f"({lean_str(r[0])}, {r[1]})"))
    L.append(f"def configFailCode : String := {lean_str(conf_code)}")
    L.append(f"def buildPhases : List String := {strs(phases)}")
    L.append("def buildLadder : List (List String × String) := "
             + lean_list(ladder, lambda r: f"({strs(r[0])}, {lean_str(r[1])})"))
    L.append(f"def unconfigureAfterLadder : Bool := {lean_bool(unconf)}")
    L.append(f"def dagPipeline : List String := {strs(pipeline)}")
    L.append("")
    return L


ALL_PROPS = [f"C{i:02d}" for i in range(1, 21)]
# which properties consume which section of Generated.lean (a failing section only breaks the tie of these)
SECTION_PROPS = {
    "core": ["C01", "C02", "C03", "C04", "C05", "C06", "C08", "C09", "C10", "C17", "C18", "C19"],
    "extract_pytree": ["C07"], "extract_prov": ["C18"], "extract_hash": ["C12"], "extract_collect": ["C13"],
    "buildtop_section": ["C08"], "extract_buildtop": ["C08"], "extract_clean": ["C11", "C20"], "extract_catalog": ["C20"],
    "extract_capture": ["C14", "C15"], "extract_expr": ["C16"],
}


def section_name(fn) -> str:
    mod = getattr(fn, "__module__", "") or ""
    if mod.startswith("extract_"):
        return mod
    return fn.__name__.strip("_")


def props_of(name: str) -> list[str]:
    return SECTION_PROPS.get(name, ALL_PROPS)


def _old_section(name: str) -> list[str] | None:
    """Text of section `name` from the previous Generated.lean (working copy, else the committed one)."""
    import re
    import subprocess
    texts = []
    if OUT.exists():
        texts.append(OUT.read_text())
    try:
        r = subprocess.run(["git", "-C", str(OUT.parent.parent.parent), "show", "HEAD:lean/PytaskModel/Generated.lean"],
                           capture_output=True, text=True)
        if r.returncode == 0:
            texts.append(r.stdout)
    except OSError:
        pass
    for t in texts:
        m = re.search(rf"^-- «SECTION {re.escape(name)}»\n(.*?)^-- «END {re.escape(name)}»$", t, flags=re.S | re.M)
        if m:
            return m.group(1).rstrip("\n").split("\n")
    return None


def generate_with_status() -> tuple[str, dict]:
    """Every section is generated independently; a section whose extractor fails keeps its previous text (so that the
    other properties' models still build) and is reported in the status, which breaks the tie of its consumers only."""
    failed: dict[str, str] = {}
    L = ["/-! GENERATED by harness/extract.py from /repo's working tree — do not edit. -/", "namespace Pytask.Generated", ""]
    for name, fn in [("core", core_section)] + [(section_name(f), f) for f in EXTRA_SECTIONS]:
        try:
            lines = list(fn())
        except Exception as e:  # noqa: BLE001  (fail-closed: any error of an extractor = "the tie no longer checks")
            failed[name] = f"{type(e).__name__}: {e}"
            lines = _old_section(name)
            if lines is None:
                raise ExtractError(f"section {name} failed ({failed[name]}) and no previous text is available") from None
        L.append(f"-- «SECTION {name}»")
        L.extend(lines)
        L.append(f"-- «END {name}»")
    L.append("end Pytask.Generated")
    return "\n".join(L) + "\n", failed


def generate() -> str:
    return generate_with_status()[0]


EXTRA_SECTIONS: list = []
from extract_pytree import pytree_facts; EXTRA_SECTIONS.append(pytree_facts)
from extract_prov import section as _prov_section; EXTRA_SECTIONS.append(_prov_section)  # M7 (C18)
from extract_hash import hash_facts  # noqa: E402  (M4 / C12)
EXTRA_SECTIONS.append(hash_facts)
from extract_collect import collect_section  # C13
EXTRA_SECTIONS.append(collect_section)  # C13


def _buildtop_section():
    import extract_buildtop
    return extract_buildtop.section()


EXTRA_SECTIONS.append(_buildtop_section)


STATUS = OUT.parent.parent / ".lake" / "extract_status.json"
from extract_catalog import section as catalog_section  # M9b / C20
EXTRA_SECTIONS.append(catalog_section)
from extract_expr import expr_section  # noqa: E402  (C16)
EXTRA_SECTIONS.append(expr_section)
from extract_crash import crash_facts; EXTRA_SECTIONS.append(crash_facts)  # C05 (EngineCrash.lean)
import extract_clean; EXTRA_SECTIONS.append(extract_clean.section)  # noqa: E402,E702  (M8, C11)
from extract_capture import capture_section  # noqa: E402
EXTRA_SECTIONS.append(capture_section)
from extract_capgen import capgen_section  # noqa: E402  (M10 tie: CaptureGen.lean / Properties/CaptureTie.lean)
EXTRA_SECTIONS.append(capgen_section)
SECTION_PROPS["extract_capgen"] = ["C14", "C15"]
from extract_engine import engine_section  # noqa: E402  (M6 tie: EngineGen.lean / Properties/EngineTie.lean)
EXTRA_SECTIONS.append(engine_section)
SECTION_PROPS["extract_engine"] = ["C01", "C02", "C03", "C04", "C05", "C06", "C08", "C09", "C10", "C17"]
from extract_hashsrc import hashsrc_section  # noqa: E402  (M4 tie: HashGen.lean / Properties/HashTie.lean)
EXTRA_SECTIONS.append(hashsrc_section)
SECTION_PROPS["extract_hashsrc"] = ["C12"]
from extract_exprgen import exprgen_section  # noqa: E402  (M3 tie: ExprGen.lean / Properties/ExprTie.lean)
EXTRA_SECTIONS.append(exprgen_section)
SECTION_PROPS["extract_exprgen"] = ["C16"]
from extract_sorter import sorter_section  # noqa: E402  (M2 tie: SorterGen.lean / Properties/SorterTie.lean)
EXTRA_SECTIONS.append(sorter_section)
SECTION_PROPS["extract_sorter"] = ["C01", "C18", "C19"]
from extract_dag import dag_section  # noqa: E402  (M6 tie, DAG construction: DagGen.lean / Properties/DagTie.lean)
EXTRA_SECTIONS.append(dag_section)
SECTION_PROPS["extract_dag"] = ["C01", "C02", "C03", "C04", "C05", "C06", "C08", "C09", "C10", "C17"]
from extract_catalogsrc import catalogsrc_section  # noqa: E402  (M9b tie: CatalogGen.lean / Properties/CatalogTie.lean)
EXTRA_SECTIONS.append(catalogsrc_section)
SECTION_PROPS["extract_catalogsrc"] = ["C20"]

from extract_argsgen import argsgen_section  # noqa: E402  (M5 tie: ArgsGen.lean / Properties/ArgsTie.lean)
EXTRA_SECTIONS.append(argsgen_section)
SECTION_PROPS["extract_argsgen"] = ["C07"]
from extract_provgen import provgen_section  # noqa: E402  (M7 tie: ProvGen.lean / Properties/ProvTie.lean)
EXTRA_SECTIONS.append(provgen_section)
SECTION_PROPS["extract_provgen"] = ["C18"]
from extract_state import state_section  # noqa: E402  (protocol-UPath branch of nodes._get_state: Lemmas/StateUPath.lean, C02 / C03)
EXTRA_SECTIONS.append(state_section)
SECTION_PROPS["extract_state"] = ["C02", "C03", "C12"]


def main(write: bool = True) -> int:
    import json
    try:
        txt, failed = generate_with_status()
    except ExtractError as e:
        print(f"EXTRACT-FAIL: {e}")
        return 3
    for name, why in failed.items():
        print(f"EXTRACT-FAIL[{name}] (affects {','.join(props_of(name))}): {why}")
    if write:
        STATUS.parent.mkdir(parents=True, exist_ok=True)
        STATUS.write_text(json.dumps({"failed": failed, "affects": {n: props_of(n) for n in failed}}))
        if not OUT.exists() or OUT.read_text() != txt:
            OUT.write_text(txt)
            print(f"Generated.lean rewritten ({len(txt)} bytes)")
        else:
            print("Generated.lean unchanged")
    else:
        sys.stdout.write(txt)
    return 0


if __name__ == "__main__":
    sys.exit(main(write="--print" not in sys.argv))
