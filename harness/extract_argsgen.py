"""Translator section for the structural tie of M5 (`lean/PytaskModel/ArgsGen.lean`, `Properties/ArgsTie.lean`, C07):
the CONTROL STRUCTURE of the functions that turn a task function's declarations into its arguments and route its return
value, read with `ast` from the tree under check and emitted as data in `Pytask.Generated.Args`.

  collect_utils.parse_dependencies_from_task_function   merge order of defaults / @task(kwargs), popped names, skipped names,
                                                        completion by node annotations, the collapse rule's conditions
  collect_utils.parse_products_from_task_function       merge order, the `produces` parameter, the return annotation, the loop's
                                                        skip / defined-twice / value choice, `@task(produces=…)` (guard, store, both-raise)
  collect_utils._collect_nodes_and_provisional_nodes / collect_dependency / _collect_product      shapes
  task_utils._parse_task                                how defaults and user kwargs are merged, and whether the user's dict is mutated
  execute.pytask_execute_task                           dry-run guard, kwargs sources (is_product flags, parameter guard, who wins a
                                                        name clash), the call, the return block (prefix test, nodes / values, save loop)
  provisional.pytask_execute_task                       the generator's kwargs sources

Recognition is by symbolic evaluation of the AST: locals assigned once are substituted, Boolean conditions over a leaf are
compared as truth tables over their atoms (so `all(p(x) …)`, `not any(not p(x) …)`, `not [x … if not p(x)]` are the same fact),
local helper functions / lambdas are inlined for the `is_product` flag, the order of independent statements, names of locals,
comments and messages do not matter. Everything else is fail-closed: a statement with an effect the recognisers do not know
(a store to the tracked dicts, a `save`, a `raise`/`return`/`continue` in an unknown place) raises ExtractError.

Hook into `extract.py` with:
    from extract_argsgen import argsgen_section; EXTRA_SECTIONS.append(argsgen_section); SECTION_PROPS["extract_argsgen"] = ["C07"]
"""
from __future__ import annotations

import ast
import itertools
import sys


def _host():
    m = sys.modules.get("__main__")
    if m is not None and hasattr(m, "ExtractError") and hasattr(m, "_parse") and hasattr(m, "EXTRA_SECTIONS"):
        return m
    import extract
    return extract


def _err(msg: str):
    return _host().ExtractError("argsgen: " + msg)


def _u(n) -> str:
    return ast.unparse(n)


def _func(modname: str, name: str):
    mod = _host()._parse(modname)
    fns = [n for n in mod.body if isinstance(n, ast.FunctionDef) and n.name == name]
    if len(fns) != 1:
        raise _err(f"{modname}: expected exactly one top-level function {name}, found {len(fns)}")
    return fns[0]


def _body(fn) -> list:
    b = list(fn.body)
    if b and isinstance(b[0], ast.Expr) and isinstance(b[0].value, ast.Constant) and isinstance(b[0].value.value, str):
        b = b[1:]
    return b


def _walk(node):
    """ast.walk without descending into nested function / lambda / class bodies."""
    todo = [node]
    while todo:
        n = todo.pop()
        yield n
        for c in ast.iter_child_nodes(n):
            if isinstance(c, (ast.FunctionDef, ast.AsyncFunctionDef, ast.Lambda, ast.ClassDef)):
                continue
            todo.append(c)


def _callee(n):
    if not isinstance(n, ast.Call):
        return None
    if isinstance(n.func, ast.Name):
        return n.func.id
    if isinstance(n.func, ast.Attribute):
        return n.func.attr
    return None


def _s(n):
    return n.value if isinstance(n, ast.Constant) and isinstance(n.value, str) else None


class Env:
    """locals of one function that are assigned exactly once by a plain `x = <expr>` (anywhere): substituted on demand."""

    def __init__(self, fn):
        count, val = {}, {}
        for n in ast.walk(fn):
            tg = []
            if isinstance(n, ast.Assign):
                tg = n.targets
                v = n.value if len(n.targets) == 1 and isinstance(n.targets[0], ast.Name) else None
            elif isinstance(n, (ast.AugAssign, ast.AnnAssign)):
                tg, v = [n.target], (n.value if isinstance(n, ast.AnnAssign) and isinstance(n.target, ast.Name) and n.value else None)
                if isinstance(n, ast.AugAssign):
                    v = None
            elif isinstance(n, (ast.For, ast.comprehension)):
                tg, v = [n.target], None
            elif isinstance(n, ast.NamedExpr):
                tg, v = [n.target], None
            elif isinstance(n, ast.With):
                tg, v = [i.optional_vars for i in n.items if i.optional_vars is not None], None
            else:
                continue
            for t in tg:
                for x in ast.walk(t):
                    if isinstance(x, ast.Name) and isinstance(x.ctx, ast.Store):
                        count[x.id] = count.get(x.id, 0) + 1
                        if v is not None and t is x:
                            val[x.id] = v
                        else:
                            count[x.id] += 1 if v is None else 0
        for a in fn.args.posonlyargs + fn.args.args + fn.args.kwonlyargs:
            count[a.arg] = count.get(a.arg, 0) + 2
        self.val = {k: v for k, v in val.items() if count.get(k) == 1}

    def res(self, n, depth=0):
        """the defining expression of a Name (transitively), else the node itself"""
        while isinstance(n, ast.Name) and n.id in self.val and depth < 20:
            n = self.val[n.id]
            depth += 1
        return n

    def origin(self, n) -> str:
        """text of the fully resolved expression (one level is enough for the recognisers)"""
        return _u(self.res(n))


# ------------------------------------------------------------------------------------------------
# Boolean conditions as truth tables
# ------------------------------------------------------------------------------------------------

def _table(expr, atom_of, atoms):
    """All assignments of `atoms` (in order) under which `expr` is true. `atom_of(node)` names the atom a sub-expression is, or None."""
    def ev(n, a):
        k = atom_of(n)
        if k is not None:
            return a[k]
        if isinstance(n, ast.BoolOp):
            vs = [ev(v, a) for v in n.values]
            return all(vs) if isinstance(n.op, ast.And) else any(vs)
        if isinstance(n, ast.UnaryOp) and isinstance(n.op, ast.Not):
            return not ev(n.operand, a)
        if isinstance(n, ast.Constant) and isinstance(n.value, bool):
            return n.value
        raise _err(f"condition not understood: {_u(n)}")
    rows = []
    for bits in itertools.product([True, False], repeat=len(atoms)):
        a = dict(zip(atoms, bits))
        if ev(expr, a):
            rows.append(tuple(bits))
    return rows


def _isinstance_of(n, var: str, classes: set[str]) -> bool:
    """`isinstance(var, C)` / `isinstance(var, (C1, C2))` with exactly the given class names"""
    if not (isinstance(n, ast.Call) and _callee(n) == "isinstance" and len(n.args) == 2 and isinstance(n.args[0], ast.Name) and n.args[0].id == var):
        return False
    c = n.args[1]
    names = {e.id if isinstance(e, ast.Name) else _u(e) for e in (c.elts if isinstance(c, ast.Tuple) else [c])}
    return names == classes


def _forall(n, env):
    """`all(P(x) for x in L)`, `not any(P(x) …)`, `not [x for x in L if P(x)]`, `len([...]) == 0`  ↦  (var, L, P, positive)
    meaning: for all x in L, P(x) if positive else not P(x). Returns None if `n` is no such quantifier."""
    neg = False
    while isinstance(n, ast.UnaryOp) and isinstance(n.op, ast.Not):
        neg = not neg
        n = env.res(n.operand)
    if isinstance(n, ast.Call) and _callee(n) in ("all", "any") and len(n.args) == 1 and isinstance(n.args[0], (ast.GeneratorExp, ast.ListComp)):
        g = n.args[0]
        if len(g.generators) != 1 or g.generators[0].ifs or not isinstance(g.generators[0].target, ast.Name):
            return None
        var, L = g.generators[0].target.id, g.generators[0].iter
        if _callee(n) == "all" and not neg:
            return var, L, g.elt, True
        if _callee(n) == "any" and neg:
            return var, L, g.elt, False
        return None
    if isinstance(n, (ast.ListComp, ast.GeneratorExp)) and neg and len(n.generators) == 1 and len(n.generators[0].ifs) == 1 \
            and isinstance(n.generators[0].target, ast.Name):
        return n.generators[0].target.id, n.generators[0].iter, n.generators[0].ifs[0], False
    return None


def _conjuncts(n, env):
    n = env.res(n)
    if isinstance(n, ast.BoolOp) and isinstance(n.op, ast.And):
        out = []
        for v in n.values:
            out += _conjuncts(v, env)
        return out
    return [n]


# ------------------------------------------------------------------------------------------------
# dict merges
# ------------------------------------------------------------------------------------------------

def _merge_sources(n, env, classify):
    """`{**a, **b}` / `a | b` / `dict(a, **b)` ↦ the sources in the order in which later ones win"""
    n = env.res(n)
    if isinstance(n, ast.Dict) and n.keys and all(k is None for k in n.keys):
        return [classify(v) for v in n.values]
    if isinstance(n, ast.BinOp) and isinstance(n.op, ast.BitOr):
        return _merge_sources(n.left, env, classify) + _merge_sources(n.right, env, classify) \
            if isinstance(env.res(n.left), (ast.BinOp, ast.Dict)) and False else [classify(n.left), classify(n.right)]
    if isinstance(n, ast.Call) and _callee(n) == "dict" and len(n.args) == 1 and len(n.keywords) == 1 and n.keywords[0].arg is None:
        return [classify(n.args[0]), classify(n.keywords[0].value)]
    raise _err(f"merge of defaults and kwargs not understood: {_u(n)}")


def _mutations(fn, var: str) -> list[str]:
    """in-place changes of the dict held by local `var`"""
    out = []
    for n in ast.walk(fn):
        if isinstance(n, ast.Call) and isinstance(n.func, ast.Attribute) and isinstance(n.func.value, ast.Name) and n.func.value.id == var \
                and n.func.attr in ("update", "setdefault", "pop", "popitem", "clear", "__setitem__", "__ior__"):
            out.append(n.func.attr)
        if isinstance(n, (ast.Assign, ast.AugAssign, ast.Delete)):
            tg = n.targets if isinstance(n, (ast.Assign, ast.Delete)) else [n.target]
            for t in tg:
                if isinstance(t, ast.Subscript) and isinstance(t.value, ast.Name) and t.value.id == var:
                    out.append("[]=")
                if isinstance(n, ast.AugAssign) and isinstance(t, ast.Name) and t.id == var:
                    out.append("|=")
    return out


# ------------------------------------------------------------------------------------------------
# parse_dependencies_from_task_function
# ------------------------------------------------------------------------------------------------

def _classify_kwargs_source(env):
    def classify(n):
        o = env.origin(n)
        if "parse_keyword_arguments_from_signature_defaults" in o:
            return "defaults"
        if "pytask_meta.kwargs" in o:
            return "taskKwargs"
        raise _err(f"unknown source of keyword arguments: {o}")
    return classify


def _find_merge(fn, env, classify):
    """the local dict `{**defaults, **task_kwargs}`: (name, sources)"""
    found = []
    for n in _walk(fn):
        if isinstance(n, ast.Assign) and len(n.targets) == 1 and isinstance(n.targets[0], ast.Name):
            v = n.value
            if (isinstance(v, ast.Dict) and v.keys and all(k is None for k in v.keys)) or (isinstance(v, ast.BinOp) and isinstance(v.op, ast.BitOr)):
                try:
                    found.append((n.targets[0].id, _merge_sources(v, env, classify)))
                except Exception:  # noqa: BLE001
                    continue
    if len(found) != 1:
        raise _err(f"{fn.name}: expected one merge of signature defaults and task kwargs, found {len(found)}")
    return found[0]


def _deps_facts():
    fn = _func("collect_utils.py", "parse_dependencies_from_task_function")
    env = Env(fn)
    K, merge = _find_merge(fn, env, _classify_kwargs_source(env))
    popped = []
    for n in _walk(fn):
        if isinstance(n, ast.Call) and isinstance(n.func, ast.Attribute) and n.func.attr == "pop" and isinstance(n.func.value, ast.Name) and n.func.value.id == K:
            if _s(n.args[0]) is None:
                raise _err("kwargs.pop of a non-literal name")
            popped.append(_s(n.args[0]))
    loops = [st for st in _body(fn) if isinstance(st, ast.For)]
    main = [l for l in loops if _callee(l.iter) == "items" and isinstance(l.iter.func.value, ast.Name) and l.iter.func.value.id == K]
    fill = [l for l in loops if l not in main]
    if len(main) != 1 or len(fill) != 1:
        raise _err(f"parse_dependencies: expected the annotation loop and the loop over kwargs.items(), found {len(fill)} + {len(main)}")
    main, fill = main[0], fill[0]
    # --- completion by node annotations
    src = fill.iter
    if isinstance(src, ast.Call) and _callee(src) in ("list", "tuple", "sorted") and len(src.args) == 1:
        src = src.args[0]
    if "_find_args_with_node_annotation" not in env.origin(src):
        raise _err(f"annotation loop iterates over {env.origin(src)}")
    A = src.id if isinstance(src, ast.Name) else None
    nm = fill.target.id if isinstance(fill.target, ast.Name) else None
    if len(fill.body) != 1 or not isinstance(fill.body[0], ast.If) or nm is None:
        raise _err("annotation loop: expected a single if/else")
    iff = fill.body[0]
    t = iff.test
    absent_first = None
    if isinstance(t, ast.Compare) and len(t.ops) == 1 and isinstance(t.left, ast.Name) and t.left.id == nm \
            and isinstance(t.comparators[0], ast.Name) and t.comparators[0].id == K:
        absent_first = isinstance(t.ops[0], ast.NotIn) if isinstance(t.ops[0], (ast.NotIn, ast.In)) else None
    if absent_first is None:
        raise _err(f"annotation loop: test {_u(t)} not understood")
    absent, present = (iff.body, iff.orelse) if absent_first else (iff.orelse, iff.body)

    def stores_annot(stmts):
        for s in stmts:
            if isinstance(s, ast.Assign) and len(s.targets) == 1 and isinstance(s.targets[0], ast.Subscript) \
                    and isinstance(s.targets[0].value, ast.Name) and s.targets[0].value.id == K and _u(s.targets[0].slice) == nm:
                v = s.value
                if (isinstance(v, ast.Call) and _callee(v) in ("pop", "get") and isinstance(v.func.value, ast.Name) and v.func.value.id == A) or \
                        (isinstance(v, ast.Subscript) and isinstance(v.value, ast.Name) and v.value.id == A):
                    return True
        return False
    if not stores_annot(absent) or any(isinstance(s, ast.Raise) for s in absent):
        raise _err("annotation loop: the absent branch does not store the annotation")
    if stores_annot(present):
        fill_mode = "overwrite"
    elif any(isinstance(s, ast.Raise) for s in present):
        fill_mode = "ifAbsentElseRaise"
    elif not present or all(isinstance(s, ast.Pass) for s in present):
        fill_mode = "ifAbsent"
    else:
        raise _err("annotation loop: the present branch is not understood")
    # --- main loop
    if not (isinstance(main.target, ast.Tuple) and len(main.target.elts) == 2 and all(isinstance(e, ast.Name) for e in main.target.elts)):
        raise _err("loop over kwargs.items(): target is not (name, value)")
    pname, pval = main.target.elts[0].id, main.target.elts[1].id
    skip_product_annot, skip_extra = False, []
    rest = list(main.body)
    while rest and isinstance(rest[0], ast.If) and len(rest[0].body) == 1 and isinstance(rest[0].body[0], ast.Continue) and not rest[0].orelse:
        t = rest.pop(0).test
        if not (isinstance(t, ast.Compare) and len(t.ops) == 1 and isinstance(t.ops[0], ast.In) and isinstance(t.left, ast.Name) and t.left.id == pname):
            raise _err(f"skip test {_u(t)} not understood")
        S = t.comparators[0]
        o = env.origin(S)
        if "_find_args_with_product_annotation" in o and isinstance(S, ast.Name):
            skip_product_annot = True
            for n in _walk(fn):
                if isinstance(n, ast.Call) and isinstance(n.func, ast.Attribute) and isinstance(n.func.value, ast.Name) and n.func.value.id == S.id:
                    if n.func.attr == "append" and _s(n.args[0]) is not None:
                        skip_extra.append(_s(n.args[0]))
                    elif n.func.attr in ("remove", "pop", "clear", "extend", "insert"):
                        raise _err(f"list of product parameters changed by .{n.func.attr}")
        elif isinstance(env.res(S), (ast.Tuple, ast.List, ast.Set)) and all(_s(e) is not None for e in env.res(S).elts):
            skip_extra += [_s(e) for e in env.res(S).elts]
        else:
            raise _err(f"skip set {o} not understood")
    for st in rest:
        for n in _walk(st):
            if isinstance(n, (ast.Continue, ast.Break, ast.Return, ast.Raise)):
                raise _err("loop over kwargs.items(): control transfer in an unknown place")
    # collected nodes
    coll = [n for st in rest for n in _walk(st) if isinstance(n, ast.Call) and _callee(n) == "_collect_nodes_and_provisional_nodes"]
    if len(coll) != 1:
        raise _err("loop over kwargs.items(): expected one call of _collect_nodes_and_provisional_nodes")
    c = coll[0]
    collector = _u(c.args[0]) if c.args else ""
    if len(c.args) != 7 or _u(c.args[5]) != pname or _u(c.args[6]) != pval:
        raise _err("collection call: arguments are not (func, session, path, task name, task path, parameter name, value)")
    nodes_var = None
    for st in rest:
        if isinstance(st, ast.Assign) and st.value is c and isinstance(st.targets[0], ast.Name):
            nodes_var = st.targets[0].id
    if nodes_var is None:
        raise _err("collected nodes are not bound to a local")
    # the store into the result dict
    stores = [st for st in rest if isinstance(st, ast.If) and any(isinstance(x, ast.Assign) and isinstance(x.targets[0], ast.Subscript) for x in st.body)]
    if len(stores) != 1 or len(stores[0].orelse) != 1:
        raise _err("expected one if/else storing either the collapsed node or the collected nodes")
    st = stores[0]
    sub = [x for x in st.body if isinstance(x, ast.Assign) and isinstance(x.targets[0], ast.Subscript)]
    if len(sub) != 1 or any(not (isinstance(x, ast.Assign) and isinstance(x.targets[0], (ast.Name, ast.Subscript))) for x in st.body):
        raise _err("collapse branch: expected helper assignments and one store")
    tb, eb = sub[0], st.orelse[0]
    if not (isinstance(eb, ast.Assign) and isinstance(eb.value, ast.Name) and eb.value.id == nodes_var and _u(eb.targets[0].slice) == pname):
        raise _err("else branch does not store the collected nodes")
    v = tb.value
    whole = isinstance(v, ast.Call) and _callee(v) == "PythonNode" and any(k.arg == "value" and _u(k.value) == pval for k in v.keywords) \
        and not any(k.arg == "hash" for k in v.keywords) and _u(tb.targets[0].slice) == pname
    if not whole:
        raise _err("collapse branch does not store PythonNode(value=<the declared value>)")
    need_container, leaf_table, value_node_free = False, None, False
    for cj in _conjuncts(st.test, env):
        if isinstance(cj, ast.UnaryOp) and isinstance(cj.op, ast.Not) and _isinstance_of(cj.operand, nodes_var, {"PNode", "PProvisionalNode"}):
            need_container = True
            continue
        q = _forall(cj, env)
        if q is None:
            raise _err(f"collapse condition {_u(cj)} not understood")
        var, L, P, positive = q
        Lr = env.res(L)
        if _callee(Lr) != "tree_leaves" or len(Lr.args) != 1:
            raise _err(f"collapse condition quantifies over {_u(Lr)}")
        over = _u(Lr.args[0])

        def atom(n, var=var):
            if _isinstance_of(n, var, {"PythonNode"}):
                return "py"
            if isinstance(n, ast.Attribute) and n.attr == "hash" and isinstance(n.value, ast.Name) and n.value.id == var:
                return "hash"
            if _isinstance_of(n, var, {"PNode", "PProvisionalNode"}):
                return "node"
            return None
        if over == nodes_var:
            tbl = _table(P if positive else ast.UnaryOp(op=ast.Not(), operand=P), atom, ["py", "hash"])
            leaf_table = tbl if leaf_table is None else [r for r in leaf_table if r in tbl]
        elif over == pval:
            tbl = _table(P if positive else ast.UnaryOp(op=ast.Not(), operand=P), atom, ["node"])
            if tbl == [(False,)]:
                value_node_free = True
            elif tbl != [(True,), (False,)]:
                raise _err(f"condition on the declared value not understood: {_u(cj)}")
        else:
            raise _err(f"collapse condition quantifies over tree_leaves({over})")
    if leaf_table is None:
        leaf_table = [(True, True), (True, False), (False, True), (False, False)]
    ret = [s for s in _body(fn) if isinstance(s, ast.Return)]
    return {"merge": merge, "popped": popped, "fill": fill_mode, "skipProductAnnot": skip_product_annot, "skipExtra": skip_extra,
            "collector": collector, "needContainer": need_container, "leafTable": leaf_table, "valueNodeFree": value_node_free,
            "returnsDict": len(ret) == 1}


# ------------------------------------------------------------------------------------------------
# parse_products_from_task_function
# ------------------------------------------------------------------------------------------------

def _in_test(t, env):
    """conjunction of `<str|name> [not] in <container>` ↦ list of (lhs text, container origin, positive)"""
    out = []
    for cj in _conjuncts(t, env):
        if isinstance(cj, ast.Compare) and len(cj.ops) == 1 and isinstance(cj.ops[0], (ast.In, ast.NotIn)):
            lhs = _s(cj.left) if _s(cj.left) is not None else _u(cj.left)
            out.append((lhs, cj.comparators[0], isinstance(cj.ops[0], ast.In)))
        else:
            return None
    return out


def _prods_facts():
    fn = _func("collect_utils.py", "parse_products_from_task_function")
    env = Env(fn)
    K, merge = _find_merge(fn, env, _classify_kwargs_source(env))

    def kind(n):
        o = env.origin(n)
        if isinstance(n, ast.Name) and n.id == K:
            return "kwargs"
        if "_find_args_with_product_annotation" in o:
            return "productAnnot"
        if "_find_args_with_node_annotation" in o:
            return "nodeAnnot"
        if "inspect.signature" in o or "signature(" in o:
            return "parameters"
        return "?" + o
    body = _body(fn)
    add_produces = ret_from_annot = has_return_set = False
    loop = None
    deco = None
    both = None
    flags = {}        # local flag name -> meaning

    def scan_top(stmts):
        nonlocal add_produces, ret_from_annot, has_return_set, loop, deco, both
        for st in stmts:
            if isinstance(st, ast.If):
                tests = _in_test(st.test, env)
                appended = [(_s(n.args[0]), n.func.value) for n in _walk(st) if isinstance(n, ast.Call) and isinstance(n.func, ast.Attribute)
                            and n.func.attr == "append" and n.args and _s(n.args[0]) is not None]
                if tests is not None and appended and not st.orelse:
                    what = sorted((lhs, kind(c), pos) for lhs, c, pos in tests)
                    name, tgt = appended[0]
                    if kind(tgt) != "productAnnot" or len(appended) != 1:
                        raise _err(f"append to {kind(tgt)} not understood")
                    if name == "produces" and what == [("produces", "parameters", True), ("produces", "productAnnot", False)]:
                        add_produces = True
                    elif name == "return" and what == [("return", "nodeAnnot", True)]:
                        ret_from_annot = True
                        for x in st.body:
                            if isinstance(x, ast.Assign) and isinstance(x.targets[0], ast.Name) and isinstance(x.value, ast.Constant) and x.value.value is True:
                                flags[x.targets[0].id] = "hasReturn"
                                has_return_set = True
                    else:
                        raise _err(f"conditional append of {name!r} under {what} not understood")
                    continue
                loops = [x for x in st.body if isinstance(x, ast.For)]
                if loops and loop is None and isinstance(st.test, ast.Name) and kind(st.test) == "productAnnot" and not st.orelse:
                    for x in st.body:
                        if isinstance(x, ast.For):
                            loop = x
                        elif not (isinstance(x, ast.Assign) and isinstance(x.value, ast.Dict) and not x.value.keys):
                            raise _err("unknown statement next to the product loop")
                    continue
                if isinstance(st.test, ast.Name) and "pytask_meta.produces" in env.origin(st.test) and not st.orelse:
                    deco = st
                    continue
                if any(isinstance(x, ast.Raise) for x in st.body) and not st.orelse:
                    both = st
                    continue
                raise _err(f"top-level if {_u(st.test)} not understood")
            if isinstance(st, ast.For):
                if loop is not None:
                    raise _err("two product loops")
                loop = st
                continue
            for n in _walk(st):
                if isinstance(n, (ast.Raise, ast.Continue, ast.Break)) or (isinstance(n, ast.Return) and st is not stmts[-1]):
                    raise _err(f"control transfer in an unknown place: {_u(st)[:60]}")
    scan_top(body)
    if loop is None or deco is None:
        raise _err("product loop or @task(produces=…) block not found")
    if kind(loop.iter) != "productAnnot" or not isinstance(loop.target, ast.Name):
        raise _err("product loop does not iterate over the product parameters")
    pname = loop.target.id
    skip_no_value = twice_raises = False
    choice = None
    out_var = None
    for st in loop.body:
        if isinstance(st, ast.If) and not st.orelse and isinstance(st.body[-1], (ast.Continue, ast.Raise)) and \
                all(isinstance(x, ast.Assign) and isinstance(x.targets[0], ast.Name) for x in st.body[:-1]):
            tests = _in_test(st.test, env)
            if tests is None:
                raise _err(f"test {_u(st.test)} in the product loop not understood")
            what = sorted((lhs, kind(c), pos) for lhs, c, pos in tests)
            if isinstance(st.body[-1], ast.Continue) and what == [(pname, "kwargs", False), (pname, "nodeAnnot", False)]:
                skip_no_value = True
            elif isinstance(st.body[-1], ast.Raise) and what == [(pname, "kwargs", True), (pname, "nodeAnnot", True)]:
                twice_raises = True
            else:
                raise _err(f"guard {what} in the product loop not understood")
            continue
        if isinstance(st, ast.Assign) and len(st.targets) == 1 and isinstance(st.targets[0], ast.Name) and choice is None and \
                isinstance(st.value, (ast.IfExp, ast.BoolOp)):
            v = st.value
            if isinstance(v, ast.IfExp):
                tests = _in_test(v.test, env)
                ok = tests is not None and [(l, kind(c), p) for l, c, p in tests] == [(pname, "kwargs", True)] \
                    and isinstance(v.body, ast.Subscript) and kind(v.body.value) == "kwargs" \
                    and isinstance(v.orelse, ast.Call) and _callee(v.orelse) == "get" and kind(v.orelse.func.value) == "nodeAnnot"
                if not ok:
                    raise _err(f"choice of the declared value not understood: {_u(v)}")
                choice = "kwargsIfPresent"
            else:
                ok = isinstance(v.op, ast.Or) and len(v.values) == 2 and all(isinstance(x, ast.Call) and _callee(x) == "get" for x in v.values) \
                    and kind(v.values[0].func.value) == "kwargs" and kind(v.values[1].func.value) == "nodeAnnot"
                if not ok:
                    raise _err(f"choice of the declared value not understood: {_u(v)}")
                choice = "kwargsOrTruthy"
            continue
        calls = [n for n in _walk(st) if isinstance(n, ast.Call) and _callee(n) == "_collect_nodes_and_provisional_nodes"]
        if calls:
            c = calls[0]
            if len(c.args) != 7 or _u(c.args[0]) != "_collect_product" or _u(c.args[5]) != pname:
                raise _err("collection call in the product loop not understood")
            continue
        if isinstance(st, ast.Assign) and isinstance(st.targets[0], ast.Subscript) and _u(st.targets[0].slice) == pname:
            out_var = _u(st.targets[0].value)
            continue
        raise _err(f"statement in the product loop not understood: {_u(st)[:60]}")
    if choice is None or out_var is None:
        raise _err("product loop: value choice or store not found")
    # --- decorator block
    store = None
    for st in deco.body:
        if isinstance(st, ast.Assign) and isinstance(st.targets[0], ast.Name) and isinstance(st.value, ast.Constant) and st.value.value is True:
            flags[st.targets[0].id] = "hasDecorator"
            continue
        calls = [n for n in _walk(st) if isinstance(n, ast.Call) and _callee(n) == "_collect_nodes_and_provisional_nodes"]
        if calls:
            c = calls[0]
            if len(c.args) != 7 or _u(c.args[0]) != "_collect_product" or _s(c.args[5]) != "return" or "pytask_meta.produces" not in env.origin(c.args[6]):
                raise _err("collection call of @task(produces=…) not understood")
            continue
        if isinstance(st, ast.Assign) and isinstance(st.targets[0], ast.Subscript) and _u(st.targets[0].value) == out_var and _s(st.targets[0].slice) == "return":
            store = "setKey"
            continue
        if isinstance(st, ast.Assign) and isinstance(st.targets[0], ast.Name) and st.targets[0].id == out_var and isinstance(st.value, ast.Dict) \
                and [_s(k) for k in st.value.keys] == ["return"]:
            store = "rebind"
            continue
        raise _err(f"statement under `if task_produces:` not understood: {_u(st)[:60]}")
    if store is None:
        raise _err("@task(produces=…) is not stored")
    both_raises = False
    if both is not None:
        names = {n.id for n in ast.walk(both.test) if isinstance(n, ast.Name)}
        if {flags.get(x) for x in names if x in flags} == {"hasReturn", "hasDecorator"}:
            both_raises = True
        else:
            raise _err(f"raising test {_u(both.test)} not understood")
    return {"merge": merge, "addProduces": add_produces, "retFromAnnot": ret_from_annot and has_return_set, "skipNoValue": skip_no_value,
            "twiceRaises": twice_raises, "choice": choice, "decoStore": store, "bothRaises": both_raises}


# ------------------------------------------------------------------------------------------------
# collection shapes
# ------------------------------------------------------------------------------------------------

def _collect_shapes():
    fn = _func("collect_utils.py", "_collect_nodes_and_provisional_nodes")
    b = _body(fn)
    if len(b) != 1 or not isinstance(b[0], ast.Return) or _callee(b[0].value) != "tree_map_with_path":
        raise _err("_collect_nodes_and_provisional_nodes is not `return tree_map_with_path(…)`")
    call = b[0].value
    lam, over = call.args[0], call.args[1]
    if not (isinstance(lam, ast.Lambda) and len(lam.args.args) == 2 and _u(over) == "value"):
        raise _err("_collect_nodes_and_provisional_nodes: mapped function or tree not understood")
    p, x = (a.arg for a in lam.args.args)
    inner = lam.body
    if not (isinstance(inner, ast.Call) and _u(inner.func) == "collection_func"):
        raise _err("_collect_nodes_and_provisional_nodes: leaves are not handed to collection_func")
    ni = [a for a in list(inner.args) + [k.value for k in inner.keywords] if isinstance(a, ast.Call) and _callee(a) == "NodeInfo"]
    if len(ni) != 1:
        raise _err("_collect_nodes_and_provisional_nodes: NodeInfo not found")
    kw = {k.arg: _u(k.value) for k in ni[0].keywords}
    shape_ok = kw.get("path") == p and kw.get("value") == x and kw.get("arg_name") == "parameter_name"

    def steps(name):
        f = _func("collect_utils.py", name)
        out = []
        for st in _body(f):
            txt = _u(st)
            if isinstance(st, ast.If) and "no_default" in _u(st.test):
                out.append("wrapNoDefault")
            elif isinstance(st, ast.If) and any(isinstance(s, ast.Raise) for s in st.body) and "is None" in _u(st.test):
                out.append("raiseIfNone")
            elif isinstance(st, ast.Assign) and "pytask_collect_node" in txt:
                c = st.value
                kws = {k.arg: _u(k.value) for k in c.keywords}
                if kws.get("node_info") != "node_info":
                    raise _err(f"{name}: the hook does not receive node_info")
                out.append("hook")
            elif isinstance(st, ast.Return):
                out.append("returnCollected" if isinstance(st.value, ast.Name) else "returnOther")
            elif isinstance(st, ast.Assign) and isinstance(st.targets[0], ast.Name) and not any(isinstance(n, ast.Call) for n in ast.walk(st.value)):
                continue
            else:
                raise _err(f"{name}: statement not understood: {txt[:60]}")
        return out
    return shape_ok, steps("collect_dependency"), steps("_collect_product")


# ------------------------------------------------------------------------------------------------
# task_utils._parse_task
# ------------------------------------------------------------------------------------------------

def _parse_task_facts():
    fn = _func("task_utils.py", "_parse_task")
    env = Env(fn)
    stores = [n for n in ast.walk(fn) if isinstance(n, ast.Assign) and isinstance(n.targets[0], ast.Attribute) and n.targets[0].attr == "kwargs"]
    if len(stores) != 1:
        raise _err(f"_parse_task: expected one store to meta.kwargs, found {len(stores)}")
    user_vars = [k for k, v in env.val.items() if "_parse_task_kwargs" in _u(v)]
    if len(user_vars) != 1:
        raise _err("_parse_task: the parsed user kwargs are not bound to one local")
    uv = user_vars[0]

    def classify(n):
        o = env.origin(n)
        if "parse_keyword_arguments_from_signature_defaults" in o:
            return "defaults"
        if "_parse_task_kwargs" in o:
            return "taskKwargs"
        raise _err(f"_parse_task: unknown source {o}")
    muts = _mutations(fn, uv)
    v = env.res(stores[0].value)
    if muts:
        return {"merge": ["defaults", "taskKwargs"], "mutates": True}
    return {"merge": _merge_sources(v, env, classify), "mutates": False}


# ------------------------------------------------------------------------------------------------
# kwargs loops and the return block
# ------------------------------------------------------------------------------------------------

def _is_product_position(modname):
    """how `_safe_load` of a module takes `is_product` (keyword name / positional index) and that it passes it on to node.load"""
    f = _func(modname, "_safe_load")
    names = [a.arg for a in f.args.posonlyargs + f.args.args + f.args.kwonlyargs]
    if "is_product" not in names:
        raise _err(f"{modname}: _safe_load has no is_product parameter")
    loads = [n for n in ast.walk(f) if isinstance(n, ast.Call) and _callee(n) == "load"]
    if len(loads) != 1 or {k.arg: _u(k.value) for k in loads[0].keywords}.get("is_product", (_u(loads[0].args[0]) if loads[0].args else None)) != "is_product":
        raise _err(f"{modname}: _safe_load does not pass is_product to node.load")
    return names.index("is_product")


def _resolve_flag(expr, scope_fn, pos, bindings=None, depth=0):
    """the constant `is_product` a value expression loads with; local helper functions / lambdas are inlined"""
    bindings = bindings or {}
    if depth > 4:
        raise _err("is_product: helper nesting too deep")
    found = []
    for n in ast.walk(expr):
        if isinstance(n, ast.Call) and _callee(n) == "_safe_load":
            kw = {k.arg: k.value for k in n.keywords}
            v = kw.get("is_product", n.args[pos] if len(n.args) > pos else None)
            if v is None:
                raise _err("is_product: _safe_load called without the flag")
            if isinstance(v, ast.Constant) and isinstance(v.value, bool):
                found.append(v.value)
            elif isinstance(v, ast.Name) and v.id in bindings:
                found.append(bindings[v.id])
            else:
                raise _err(f"is_product: flag {_u(v)} is not a constant")
        elif isinstance(n, ast.Call) and isinstance(n.func, ast.Name):
            helpers = [h for h in ast.walk(scope_fn) if isinstance(h, ast.FunctionDef) and h.name == n.func.id and h is not scope_fn]
            if helpers:
                h = helpers[0]
                params = [a.arg for a in h.args.posonlyargs + h.args.args + h.args.kwonlyargs]
                b = {}
                for i, a in enumerate(n.args):
                    if isinstance(a, ast.Constant) and isinstance(a.value, bool) and i < len(params):
                        b[params[i]] = a.value
                for k in n.keywords:
                    if isinstance(k.value, ast.Constant) and isinstance(k.value.value, bool):
                        b[k.arg] = k.value.value
                for st in h.body:
                    try:
                        found.append(_resolve_flag(st, scope_fn, pos, b, depth + 1))
                    except Exception:  # noqa: BLE001
                        continue
    if len(set(found)) != 1:
        raise _err(f"is_product: could not determine the flag of {_u(expr)[:70]} ({found})")
    return found[0]


def _kwargs_sources(stmts, scope_fn, pos):
    """Analyse the statements that fill the dict passed as `**kwargs` to `task.execute`.
    Returns ({source: (is_product, needs_param)}, products_win, index of the call statement, kwargs var)."""
    call_i, KW = None, None
    for i, st in enumerate(stmts):
        for n in _walk(st):
            if isinstance(n, ast.Call) and _callee(n) == "execute" and any(k.arg is None for k in n.keywords):
                call_i, KW = i, _u([k.value for k in n.keywords if k.arg is None][0])
                if n.args or len(n.keywords) != 1:
                    raise _err("task.execute is not called as execute(**kwargs)")
    if call_i is None:
        raise _err("call task.execute(**kwargs) not found")
    entries = []      # (source, is_product, guarded, mode)

    def src_of(it):
        o = _u(it)
        if o.endswith(".depends_on.items()"):
            return "deps"
        if o.endswith(".produces.items()"):
            return "prods"
        return None

    def guard_of(test, name):
        t = test
        if isinstance(t, ast.Compare) and len(t.ops) == 1 and isinstance(t.ops[0], ast.In) and _u(t.left) == name and _u(t.comparators[0]) == "parameters":
            return True
        raise _err(f"guard {_u(test)} of a keyword argument not understood")
    for st in stmts[:call_i]:
        if isinstance(st, (ast.FunctionDef, ast.Pass)):
            continue        # local helpers are inlined where they are called
        if isinstance(st, ast.For) and src_of(st.iter):
            if not (isinstance(st.target, ast.Tuple) and len(st.target.elts) == 2):
                raise _err("kwargs loop target is not (name, value)")
            name = _u(st.target.elts[0])
            body, guarded = st.body, False
            if len(body) == 1 and isinstance(body[0], ast.If) and not body[0].orelse:
                guarded = guard_of(body[0].test, name)
                body = body[0].body
            if len(body) != 1:
                raise _err("kwargs loop body has more than one statement")
            b = body[0]
            if isinstance(b, ast.Assign) and isinstance(b.targets[0], ast.Subscript) and _u(b.targets[0].value) == KW and _u(b.targets[0].slice) == name:
                entries.append((src_of(st.iter), _resolve_flag(b.value, scope_fn, pos), guarded, "assign"))
            elif isinstance(b, ast.Expr) and isinstance(b.value, ast.Call) and _callee(b.value) == "setdefault" and _u(b.value.func.value) == KW \
                    and _u(b.value.args[0]) == name:
                entries.append((src_of(st.iter), _resolve_flag(b.value.args[1], scope_fn, pos), guarded, "setdefault"))
            else:
                raise _err(f"kwargs loop body not understood: {_u(b)[:60]}")
            continue
        if isinstance(st, ast.Assign) and _u(st.targets[0]) == KW:
            v = st.value
            if isinstance(v, ast.Dict) and not v.keys:
                continue
            if isinstance(v, ast.DictComp) and len(v.generators) == 1 and src_of(v.generators[0].iter):
                g = v.generators[0]
                name = _u(g.target.elts[0])
                if _u(v.key) != name or len(g.ifs) > 1:
                    raise _err("kwargs comprehension not understood")
                guarded = guard_of(g.ifs[0], name) if g.ifs else False
                entries.append((src_of(g.iter), _resolve_flag(v.value, scope_fn, pos), guarded, "assign"))
                continue
            raise _err(f"initialisation of kwargs not understood: {_u(v)[:60]}")
        for n in _walk(st):
            if KW in {x.id for x in ast.walk(n) if isinstance(x, ast.Name)} and isinstance(n, (ast.Assign, ast.AugAssign, ast.Call)) and not isinstance(st, ast.FunctionDef):
                if isinstance(n, ast.Call) and _callee(n) in ("signature",):
                    continue
                raise _err(f"statement touching kwargs not understood: {_u(st)[:60]}")
            if isinstance(n, (ast.Return, ast.Continue, ast.Break)):
                raise _err("control transfer before the call")
    by = {}
    for s, flag, guarded, mode in entries:
        if s in by:
            raise _err(f"two kwargs sources for {s}")
        by[s] = (flag, guarded, mode)
    if set(by) != {"deps", "prods"}:
        raise _err(f"kwargs sources found: {sorted(by)}")
    order = [e[0] for e in entries]
    later = order[1]
    later_mode = by[later][2]
    winner = later if later_mode == "assign" else order[0]
    return {k: (v[0], v[1]) for k, v in by.items()}, winner == "prods", call_i, KW


def _execute_facts():
    pos = _is_product_position("execute.py")
    fn = _func("execute.py", "pytask_execute_task")
    env = Env(fn)
    body = _body(fn)
    steps = []
    if not (isinstance(body[0], ast.If) and "dry_run" in _u(body[0].test) and len(body[0].body) == 1 and isinstance(body[0].body[0], ast.Raise)
            and "WouldBeExecuted" in _u(body[0].body[0]) and not body[0].orelse):
        raise _err("pytask_execute_task does not start with the dry-run guard")
    steps.append("dryRunGuard")
    srcs, prods_win, call_i, KW = _kwargs_sources(body, fn, pos)
    steps += ["kwargs", "call"]
    call_st = body[call_i]
    if not (isinstance(call_st, ast.Assign) and isinstance(call_st.targets[0], ast.Name)):
        raise _err("the result of task.execute is not bound to a local")
    out = call_st.targets[0].id
    rest = body[call_i + 1:]
    if len(rest) != 2 or not isinstance(rest[0], ast.If) or not isinstance(rest[1], ast.Return) or not (isinstance(rest[1].value, ast.Constant) and rest[1].value.value is True):
        raise _err("after the call: expected the return block and `return True`")
    rb = rest[0]
    t = _in_test(rb.test, env)
    if t is None or [(l, _u(c), p) for l, c, p in t] != [("return", "task.produces", True)] or rb.orelse:
        raise _err(f"return block guard {_u(rb.test)} not understood")
    steps += ["returnBlock", "returnTrue"]
    DECL = "task.produces['return']"
    prefix = None
    save = None

    def struct_of(n):
        r = env.res(n)
        if _callee(r) == "tree_structure" and len(r.args) == 1:
            return _u(env.res(r.args[0])) if not isinstance(r.args[0], ast.Name) or r.args[0].id != out else out
        return None

    def handle(stmts, in_try=False):
        nonlocal prefix, save
        for st in stmts:
            if isinstance(st, ast.Assign) and len(st.targets) == 1 and isinstance(st.targets[0], ast.Name):
                if any(isinstance(n, ast.Call) and _callee(n) == "save" for n in ast.walk(st)):
                    raise _err("save outside the loop")
                continue
            if isinstance(st, ast.If) and not st.orelse and any(isinstance(s, ast.Raise) for s in st.body):
                tt = st.test
                neg = False
                while isinstance(tt, ast.UnaryOp) and isinstance(tt.op, ast.Not):
                    neg, tt = not neg, tt.operand
                if isinstance(tt, ast.Call) and _callee(tt) == "is_prefix" and neg and len(tt.args) == 1:
                    kw = {k.arg: k.value for k in tt.keywords}
                    strict = kw.get("strict")
                    sv = False if strict is None else (strict.value if isinstance(strict, ast.Constant) and isinstance(strict.value, bool) else None)
                    if sv is None or struct_of(tt.func.value) != DECL or struct_of(tt.args[0]) != out or prefix is not None:
                        raise _err(f"prefix test {_u(st.test)} not understood")
                    prefix = "explicitStrict" if sv else "explicit"
                    continue
                raise _err(f"raising test {_u(st.test)} in the return block not understood")
            if isinstance(st, ast.Try) and not in_try:
                if st.finalbody or st.orelse or any(not any(isinstance(s, ast.Raise) for s in h.body) for h in st.handlers):
                    raise _err("try in the return block does not re-raise")
                handle(st.body, True)
                continue
            if isinstance(st, ast.For):
                if save is not None:
                    raise _err("two loops in the return block")
                it = st.iter
                if not (_callee(it) == "zip" and len(it.args) == 2 and isinstance(st.target, ast.Tuple) and len(st.target.elts) == 2):
                    raise _err(f"save loop iterates over {_u(it)}")
                a, b = env.res(it.args[0]), env.res(it.args[1])
                nodes_ok = _callee(a) == "tree_leaves" and len(a.args) == 1 and _u(env.res(a.args[0])) == DECL
                vals_ok = _callee(b) == "flatten_up_to" and struct_of(b.func.value) == DECL and len(b.args) == 1 and _u(b.args[0]) == out
                if not (nodes_ok and vals_ok):
                    raise _err(f"save loop pairs {_u(a)} with {_u(b)}")
                nv, vv = _u(st.target.elts[0]), _u(st.target.elts[1])
                bd, skips = st.body, False
                if len(bd) == 1 and isinstance(bd[0], ast.If) and not bd[0].orelse:
                    c = bd[0].test
                    if isinstance(c, ast.UnaryOp) and isinstance(c.op, ast.Not) and _isinstance_of(c.operand, nv, {"PProvisionalNode"}):
                        skips, bd = True, bd[0].body
                    else:
                        raise _err(f"guard {_u(c)} of save not understood")
                if not (len(bd) == 1 and isinstance(bd[0], ast.Expr) and _callee(bd[0].value) == "save" and _u(bd[0].value.func.value) == nv
                        and len(bd[0].value.args) == 1 and _u(bd[0].value.args[0]) == vv):
                    raise _err("body of the save loop not understood")
                save = skips
                continue
            raise _err(f"statement in the return block not understood: {_u(st)[:70]}")
    handle(rb.body)
    if save is None:
        raise _err("save loop not found")
    return {"steps": steps, "deps": srcs["deps"], "prods": srcs["prods"], "prodsWin": prods_win, "prefix": prefix or "viaFlatten", "saveSkipsProvisional": save}


def _generator_facts():
    pos = _is_product_position("provisional.py")
    fn = _func("provisional.py", "pytask_execute_task")
    body = _body(fn)
    blocks = [st for st in body if isinstance(st, ast.If) and "is_task_generator" in _u(st.test)]
    if len(blocks) != 1:
        raise _err("provisional.pytask_execute_task: generator block not found")
    srcs, prods_win, _, _ = _kwargs_sources(blocks[0].body, fn, pos)
    return {"deps": srcs["deps"], "prods": srcs["prods"], "prodsWin": prods_win}


# ------------------------------------------------------------------------------------------------
# task_utils.task(): the two branches of the wrapper
# ------------------------------------------------------------------------------------------------

def _task_decorator_facts():
    """`@task(...)` applied to a function that already has `pytask_meta` (a mark was applied first) stores the keywords by attribute
    assignment; otherwise it creates `CollectionMetadata(...)`. For each branch: sorted [(metadata field, keyword it comes from)]."""
    outer = _func("task_utils.py", "task")
    inner = [n for n in outer.body if isinstance(n, ast.FunctionDef)]
    if len(inner) != 1:
        raise _err("task(): expected one inner wrapper function")
    w = inner[0]
    env = Env(w)
    params = [a.arg for a in outer.args.posonlyargs + outer.args.args + outer.args.kwonlyargs]

    def source(n):
        r = env.res(n)
        o = _u(r)
        if isinstance(r, ast.Name) and r.id in params:
            return {"id": "id"}.get(r.id, r.id)
        if "_parse_after" in o:
            return "after"
        if "_parse_name" in o:
            return "name"
        if isinstance(r, ast.IfExp) and "kwargs" in {x.id for x in ast.walk(r) if isinstance(x, ast.Name)}:
            return "kwargs"
        if "Mark(" in o and "'task'" in o:
            return "taskMark"
        raise _err(f"task(): value {o[:60]} of a metadata field not understood")
    branches = [st for st in w.body if isinstance(st, ast.If) and isinstance(st.test, ast.Call) and _callee(st.test) == "hasattr"
                and _s(st.test.args[1]) == "pytask_meta" and st.orelse]
    if len(branches) != 1:
        raise _err("task(): the has-metadata / creates-metadata branch not found")
    br = branches[0]
    existing = {}
    for st in br.body:
        if isinstance(st, ast.Assign) and len(st.targets) == 1 and isinstance(st.targets[0], ast.Attribute) \
                and isinstance(st.targets[0].value, ast.Attribute) and st.targets[0].value.attr == "pytask_meta":
            existing[st.targets[0].attr] = source(st.value)
        elif isinstance(st, ast.Expr) and isinstance(st.value, ast.Call) and _callee(st.value) == "append" and "pytask_meta.markers" in _u(st.value.func.value):
            existing["markers"] = source(st.value.args[0])
        else:
            raise _err(f"task(): statement in the has-metadata branch not understood: {_u(st)[:60]}")
    created = {}
    if len(br.orelse) != 1 or not (isinstance(br.orelse[0], ast.Assign) and _callee(br.orelse[0].value) == "CollectionMetadata"
                                   and isinstance(br.orelse[0].targets[0], ast.Attribute) and br.orelse[0].targets[0].attr == "pytask_meta"):
        raise _err("task(): the creates-metadata branch is not `func.pytask_meta = CollectionMetadata(...)`")
    call = br.orelse[0].value
    if call.args:
        raise _err("task(): CollectionMetadata called with positional arguments")
    for k in call.keywords:
        v = k.value
        if k.arg == "markers" and isinstance(v, ast.List) and len(v.elts) == 1:
            v = v.elts[0]
        created[k.arg] = source(v)
    return sorted(existing.items()), sorted(created.items())


# ------------------------------------------------------------------------------------------------
# debugging.py: the wrappers put around task.function by pdb=True / trace=True
# ------------------------------------------------------------------------------------------------

def _debug_wrapper(name: str):
    """(calls the task function with *args/**kwargs exactly once per path, returns that call's result on every normal exit,
    re-raises in every handler, installs itself as task.function)"""
    outer = _func("debugging.py", name)
    inner = [n for n in outer.body if isinstance(n, ast.FunctionDef)]
    if len(inner) != 1:
        raise _err(f"{name}: expected one inner wrapper")
    w = inner[0]
    if not (w.args.vararg and w.args.kwarg) or w.args.args or w.args.kwonlyargs:
        raise _err(f"{name}: the wrapper's signature is not (*args, **kwargs)")
    va, kw = w.args.vararg.arg, w.args.kwarg.arg
    fvars = [k for k, v in Env(outer).val.items() if _u(v) == "task.function"]
    if len(fvars) != 1:
        raise _err(f"{name}: the wrapped function is not bound to one local")
    fv = fvars[0]
    env = Env(w)

    def is_call(n):
        n = env.res(n)
        if not isinstance(n, ast.Call):
            return False
        star = [a for a in n.args if isinstance(a, ast.Starred)]
        dstar = [k for k in n.keywords if k.arg is None]
        if len(star) != 1 or _u(star[0].value) != va or len(dstar) != 1 or _u(dstar[0].value) != kw or len(n.keywords) != 1:
            return False
        plain = [a for a in n.args if not isinstance(a, ast.Starred)]
        if isinstance(n.func, ast.Name) and n.func.id == fv and not plain:
            return True
        return _callee(n) == "runcall" and len(plain) == 1 and _u(plain[0]) == fv and n.args.index(plain[0]) == 0
    calls = [n for n in _walk(w) if isinstance(n, ast.Call) and is_call(n) and not isinstance(n, ast.Name)]
    calls = [n for n in _walk(w) if isinstance(n, ast.Call) and is_call(n)]
    passes = len(calls) == 1
    returns = [n for n in _walk(w) if isinstance(n, ast.Return)]

    def ends_with_return(stmts):
        if not stmts:
            return False
        last = stmts[-1]
        if isinstance(last, ast.Return):
            return True
        if isinstance(last, ast.Try):
            return ends_with_return(last.body) and all(ends_with_return(h.body) or isinstance(h.body[-1], ast.Raise) for h in last.handlers) \
                and not last.finalbody
        return False
    def returned_value(r):
        """the expression a `return x` hands back: for a local, its last plain assignment before the return in the same block"""
        v = r.value
        if isinstance(v, ast.Name):
            for blk in [n.body for n in _walk(w) if hasattr(n, "body") and isinstance(getattr(n, "body"), list)] + [w.body]:
                if r in blk:
                    for st in reversed(blk[:blk.index(r)]):
                        tg = [t for t in getattr(st, "targets", [])] if isinstance(st, ast.Assign) else []
                        names = {x.id for t in tg for x in ast.walk(t) if isinstance(x, ast.Name)}
                        if v.id in names:
                            return st.value if len(tg) == 1 and isinstance(tg[0], ast.Name) else None
                        if any(isinstance(x, ast.Name) and x.id == v.id and isinstance(x.ctx, ast.Store) for x in ast.walk(st)):
                            return None
        return v
    returns_result = bool(returns) and all(r.value is not None and returned_value(r) is not None and is_call(returned_value(r))
                                           for r in returns) and ends_with_return(w.body)
    handlers = [h for n in _walk(w) if isinstance(n, ast.Try) for h in n.handlers]
    reraises = all(isinstance(h.body[-1], ast.Raise) and h.body[-1].exc is None for h in handlers)
    installs = any(isinstance(st, ast.Assign) and _u(st.targets[0]) == "task.function" and _u(st.value) == w.name for st in outer.body)
    return passes, returns_result, reraises, installs


# ------------------------------------------------------------------------------------------------
# provisional dependencies: resolved by REBINDING task.depends_on (recognisers of extract_provgen, b-c18, reused — only these three
# facts are read, so a change elsewhere in provisional.py does not touch C07's tie)
# ------------------------------------------------------------------------------------------------

def _provisional_facts():
    import extract_provgen as pg

    def flat(t):
        if isinstance(t, tuple):
            return " ".join(flat(x) for x in t)
        return str(t)
    try:
        setup = pg._top_func("provisional.py", "pytask_execute_task_setup")
        steps = pg._hook_steps(setup, "provisional.pytask_execute_task_setup", allow_generator_return=False)
        node = pg._node_steps()
        kind = pg._directory_node()[0]
    except Exception as e:  # noqa: BLE001
        raise _err(f"provisional setup: {e}") from None
    return [flat(x) for x in steps], [flat(x) for x in node], flat(kind)


# ------------------------------------------------------------------------------------------------
# tree_util.py wrappers
# ------------------------------------------------------------------------------------------------

def _tree_wrappers():
    """`name = functools.partial(<optree function>, none_is_leaf=<bool>, namespace="pytask")` ↦ sorted [(name, optree function, none_is_leaf)]"""
    mod = _host()._parse("tree_util.py")
    imported = {}
    for st in mod.body:
        if isinstance(st, ast.ImportFrom) and st.module == "optree":
            for a in st.names:
                imported[a.asname or a.name] = a.name
    out = []
    for st in mod.body:
        if isinstance(st, ast.Assign) and len(st.targets) == 1 and isinstance(st.targets[0], ast.Name) and _callee(st.value) == "partial":
            c = st.value
            if len(c.args) != 1:
                raise _err(f"tree_util.{st.targets[0].id}: partial with positional arguments")
            f = _u(c.args[0])
            f = imported.get(f, f.split(".")[-1])
            kw = {k.arg: k.value for k in c.keywords}
            if set(kw) != {"none_is_leaf", "namespace"} or _s(kw["namespace"]) != "pytask" or not isinstance(kw["none_is_leaf"], ast.Constant) \
                    or not isinstance(kw["none_is_leaf"].value, bool):
                raise _err(f"tree_util.{st.targets[0].id}: keywords {sorted(kw)} not understood")
            out.append((st.targets[0].id, f, kw["none_is_leaf"].value))
    if not out:
        raise _err("tree_util.py: no optree wrappers found")
    return sorted(out)


# ------------------------------------------------------------------------------------------------
# rendering
# ------------------------------------------------------------------------------------------------

SCHEMA = '''/-! Argument-level facts (harness/extract_argsgen.py): the control structure of collect_utils' two parsers, the collection
helpers, `task_utils._parse_task`, `execute.pytask_execute_task` and the generator loop of `provisional.py`, as data. The types
are the schema (constant text); the `def`s are read from the tree under check. -/
namespace Args
inductive Src | defaults | taskKwargs
deriving Repr, DecidableEq
/-- what the annotation loop of `parse_dependencies…` does with a name that already has a value -/
inductive Fill | ifAbsentElseRaise | ifAbsent | overwrite
deriving Repr, DecidableEq
inductive Choice | kwargsIfPresent | kwargsOrTruthy
deriving Repr, DecidableEq
inductive DecoStore | setKey | rebind
deriving Repr, DecidableEq
inductive CStep | wrapNoDefault | hook | raiseIfNone | returnCollected | returnOther
deriving Repr, DecidableEq
inductive XStep | dryRunGuard | kwargs | call | returnBlock | returnTrue
deriving Repr, DecidableEq
/-- how a misfit of the returned value is detected: `is_prefix(…, strict=False/True)` before, or only by `flatten_up_to` raising -/
inductive PrefixTest | explicit | explicitStrict | viaFlatten
deriving Repr, DecidableEq
/-- a wrapper around the task function: calls it with `*args, **kwargs`; returns the call's result on every normal exit; every
`except` ends with a bare `raise`; is installed as `task.function` -/
structure Wrap where
  passesArguments : Bool
  returnsResult : Bool
  reraises : Bool
  installed : Bool
deriving Repr, DecidableEq
/-- one source of keyword arguments: the `is_product` flag of the load and whether the `name in parameters` guard applies -/
structure KwSrc where
  isProduct : Bool
  needsParam : Bool
deriving Repr, DecidableEq
'''


def argsgen_section() -> list[str]:
    h = _host()
    b = h.lean_bool
    d, p = _deps_facts(), _prods_facts()
    shape_ok, cdep, cprod = _collect_shapes()
    pt = _parse_task_facts()
    x, g = _execute_facts(), _generator_facts()
    tw = _tree_wrappers()
    meta_existing, meta_created = _task_decorator_facts()
    wpm, wtr = _debug_wrapper("wrap_function_for_post_mortem_debugging"), _debug_wrapper("wrap_function_for_tracing")
    pv_setup, pv_node, pv_kind = _provisional_facts()

    def wrap(t):
        return "⟨" + ", ".join(b(x) for x in t) + "⟩"

    def pairs(xs):
        return "[" + ", ".join(f"({h.lean_str(a)}, {h.lean_str(v)})" for a, v in xs) + "]"

    def lst(xs, f=lambda s: "." + s):
        return "[" + ", ".join(f(s) for s in xs) + "]"

    def strs(xs):
        return "[" + ", ".join(h.lean_str(s) for s in xs) + "]"

    def kws(t):
        return f"⟨{b(t[0])}, {b(t[1])}⟩"
    L = SCHEMA.splitlines()
    L += [
        "/-- `parse_dependencies_from_task_function`: `{**a, **b}` in the order in which later sources win. -/",
        f"def depsMerge : List Src := {lst(d['merge'])}",
        f"def depsPopped : List String := {strs(d['popped'])}",
        f"def depsFill : Fill := .{d['fill']}",
        f"def depsSkipProductAnnot : Bool := {b(d['skipProductAnnot'])}",
        f"def depsSkipExtra : List String := {strs(d['skipExtra'])}",
        f"def depsCollector : String := {h.lean_str(d['collector'])}",
        "/-- the collapse rule: the collected nodes are not a single node; accepted (isinstance PythonNode, truthy hash) combinations of",
        "every collected leaf; no leaf of the declared value is a PNode / PProvisionalNode. -/",
        f"def collapseNeedsContainer : Bool := {b(d['needContainer'])}",
        f"def collapseLeafTable : List (Bool × Bool) := [{', '.join(f'({b(r[0])}, {b(r[1])})' for r in d['leafTable'])}]",
        f"def collapseValueNodeFree : Bool := {b(d['valueNodeFree'])}",
        "/-- `parse_products_from_task_function`. -/",
        f"def prodsMerge : List Src := {lst(p['merge'])}",
        f"def prodsAddProducesParam : Bool := {b(p['addProduces'])}",
        f"def prodsReturnFromAnnot : Bool := {b(p['retFromAnnot'])}",
        f"def prodsSkipNoValue : Bool := {b(p['skipNoValue'])}",
        f"def prodsTwiceRaises : Bool := {b(p['twiceRaises'])}",
        f"def prodsChoice : Choice := .{p['choice']}",
        f"def prodsDecoStore : DecoStore := .{p['decoStore']}",
        f"def prodsBothRaises : Bool := {b(p['bothRaises'])}",
        "/-- `_collect_nodes_and_provisional_nodes` maps `collection_func` over the declared value with `tree_map_with_path`, handing each",
        "leaf as `NodeInfo.value` and its path as `NodeInfo.path`; the steps of `collect_dependency` / `_collect_product`. -/",
        f"def collectMapsLeavesWithPath : Bool := {b(shape_ok)}",
        f"def collectDependencySteps : List CStep := {lst(cdep)}",
        f"def collectProductSteps : List CStep := {lst(cprod)}",
        "/-- `task_utils._parse_task`: `meta.kwargs = signature_kwargs | parsed_kwargs`, and whether the user's dict is changed in place. -/",
        f"def parseTaskMerge : List Src := {lst(pt['merge'])}",
        f"def parseTaskMutatesUserDict : Bool := {b(pt['mutates'])}",
        "/-- `execute.pytask_execute_task`. -/",
        f"def execSteps : List XStep := {lst(x['steps'])}",
        f"def execDeps : KwSrc := {kws(x['deps'])}",
        f"def execProds : KwSrc := {kws(x['prods'])}",
        f"def execProductsWin : Bool := {b(x['prodsWin'])}",
        f"def retPrefix : PrefixTest := .{x['prefix']}",
        f"def retSaveSkipsProvisional : Bool := {b(x['saveSkipsProvisional'])}",
        "/-- the generator block of `provisional.pytask_execute_task`. -/",
        f"def genDeps : KwSrc := {kws(g['deps'])}",
        f"def genProds : KwSrc := {kws(g['prods'])}",
        f"def genProductsWin : Bool := {b(g['prodsWin'])}",
        "/-- `task_utils.task()`: metadata field ↦ the keyword of `@task(...)` it is set from, in the branch for a function that already",
        "carries `pytask_meta` (a `@pytask.mark.*` was applied first) and in the branch that creates `CollectionMetadata`. -/",
        f"def taskMetaExisting : List (String × String) := {pairs(meta_existing)}",
        f"def taskMetaCreated : List (String × String) := {pairs(meta_created)}",
        "/-- `provisional.pytask_execute_task_setup` (an ASSIGNMENT `task.depends_on = tree_map…`, then the DAG is re-created for registered",
        "tasks), `collect_provisional_nodes`, `DirectoryNode.collect`; read with the recognisers of extract_provgen. -/",
        f"def provSetupSteps : List String := {strs(pv_setup)}",
        f"def provNodeSteps : List String := {strs(pv_node)}",
        f"def provDirCollect : String := {h.lean_str(pv_kind)}",
        "/-- `debugging.py`: the wrappers installed as `task.function` by `pdb=True` / `trace=True`. -/",
        f"def wrapPostMortem : Wrap := {wrap(wpm)}",
        f"def wrapTracing : Wrap := {wrap(wtr)}",
        "/-- `tree_util.py`: wrapper ↦ (optree function, `none_is_leaf`), sorted by name. -/",
        "def treeWrappers : List (String × String × Bool) := [" + ", ".join(f"({h.lean_str(a)}, {h.lean_str(f)}, {b(n)})" for a, f, n in tw) + "]",
        "end Args",
        "",
    ]
    return L
