"""C09 — generators, the spec-level oracle, and the project renderer for (possibly ill-formed) task graphs.

spec = {"tasks": [{"id": int, "module": int, "deps": [n…], "prods": [n…], "after": [task id…],
                   "after_style": "expr"|"func"|"list", "spell": {"<n>": "rel"|"dot"|"dotdot"|"abs"|"absdd"},
                   "dep_form": "bare"|"list"|"tuple"|"dict"|"kwargs", "prod_style": "return"|"param",
                   "pstyle": {"<n>": "arg"|"param"|"return"|"deco"}, "marks": [...], "force_task": bool}],
        "py": [n…],        # node ids that are in-memory PythonNodes (all other nodes are files data/n<n>.txt)
        "pk": [n…],        # node ids that are PickleNodes (file data/n<n>.txt holding a pickle)
        "dirs": [n…],      # node ids that are DirectoryNode(root_dir=data/dir<n>, pattern="*.txt") — declared as products only
        "subdirs": bool,   # module m lives in its own folder m<m>/task_m<m>.py (relative spellings then start with ../)
        "pyval": {"<n>": 1|2},  # in-memory nodes created with an initial value (None / 0) instead of value-less
        "nname": {"<n>": suffix},   # node n is called n<n><suffix>.txt / dir<n><suffix> / py<n><suffix>; task ids: task["tid"] -> @task(id=…)
        "iface": "paths"|"tasks-fwd"|"tasks-rev",   # path collection, or the functions handed to build(tasks=[…]) in either order (one module)
        "opts": {…},       # build options that must be irrelevant to well-formedness (check_casing_of_paths, force, dry_run, verbose, capture)
        "wrap": [[t, n]…], # (API level only) dependency declared through a wrapping PythonNode
        "stale": bool}     # product files already exist before the first build
Everything here is independent of pytask and of the Lean model.
"""
from __future__ import annotations

import copy
import itertools
import subprocess
import json
import os
from concurrent.futures import ThreadPoolExecutor
from pathlib import Path

import common
from impl import project

SPELLINGS = ("rel", "dot", "dotdot", "abs", "absdd")
WORKER = Path(__file__).resolve().parent / "dag_worker.py"


# ------------------------------------------------------------------------------------------------
# the oracle: ill-formedness decided from the declarations with an own DFS
# ------------------------------------------------------------------------------------------------

def decl_edges(spec, prodless_after=True):
    """Vertices ('t', id) / ('n', id). dep: n -> t, prod: t -> n, after: o -> t (a task naming itself is no relation).
    prodless_after=False drops `after` declarations whose target has no product (what `_modify_dag` implements, F1)."""
    ids = {t["id"] for t in spec["tasks"]}
    has_prod = {t["id"]: bool(t["prods"]) for t in spec["tasks"]}
    E = set()
    for t in spec["tasks"]:
        for d in t["deps"]:
            E.add((("n", d), ("t", t["id"])))
        for p in t["prods"]:
            E.add((("t", t["id"]), ("n", p)))
        for a in t.get("after", []):
            if a == t["id"] or a not in ids:
                continue
            if prodless_after or has_prod[a]:
                E.add((("t", a), ("t", t["id"])))
    return E


def find_cycle(E):
    """Iterative three-colour DFS. Returns a list of edges forming a cycle, or None."""
    adj = {}
    for a, b in E:
        adj.setdefault(a, []).append(b)
        adj.setdefault(b, [])
    for k in adj:
        adj[k].sort()
    colour = dict.fromkeys(adj, 0)
    for root in sorted(adj):
        if colour[root]:
            continue
        stack = [(root, iter(adj[root]))]
        path = [root]
        colour[root] = 1
        while stack:
            v, it = stack[-1]
            nxt = next(it, None)
            if nxt is None:
                colour[v] = 2
                stack.pop()
                path.pop()
                continue
            if colour[nxt] == 1:
                i = path.index(nxt)
                cyc = path[i:] + [nxt]
                return list(zip(cyc, cyc[1:]))
            if colour[nxt] == 0:
                colour[nxt] = 1
                stack.append((nxt, iter(adj[nxt])))
                path.append(nxt)
    return None


def shared_products(spec):
    prod = {}
    for t in spec["tasks"]:
        for p in set(t["prods"]):
            prod.setdefault(p, set()).add(t["id"])
    return {p: sorted(v) for p, v in prod.items() if len(v) > 1}


def analyse(spec):
    cyc = find_cycle(decl_edges(spec, True))
    cyc_code = find_cycle(decl_edges(spec, False))
    sh = shared_products(spec)
    ill = cyc is not None or bool(sh)
    ill_code = cyc_code is not None or bool(sh)
    return {"ill": ill, "ill_code": ill_code, "cycle": cyc is not None,
            "cycle_len": len([e for e in cyc if e[0][0] == "t"]) if cyc else 0,     # number of tasks on the cycle found
            "shared": bool(sh), "f1_class": ill and not ill_code}


def spec_task_anc(spec):
    """task -> set of tasks that must precede it according to the code-level relation (for comparison of accepted graphs)."""
    E = decl_edges(spec, False)
    radj = {}
    for a, b in E:
        radj.setdefault(b, set()).add(a)
    out = {}
    for t in spec["tasks"]:
        seen, stack = set(), [("t", t["id"])]
        while stack:
            x = stack.pop()
            for y in radj.get(x, ()):
                if y not in seen:
                    seen.add(y)
                    stack.append(y)
        out[t["id"]] = sorted(v for k, v in seen if k == "t" and v != t["id"])
    return out


def repair(spec):
    """Smallest-effort repair: keep every shared product only with its first producer, then drop one declaration
    (dependency or `after`; a product only as a last resort) from every remaining cycle."""
    s = copy.deepcopy(spec)
    for p, owners in shared_products(s).items():
        for t in s["tasks"]:
            if t["id"] in owners[1:]:
                t["prods"] = [q for q in t["prods"] if q != p]
    byid = {t["id"]: t for t in s["tasks"]}
    for _ in range(200):
        cyc = find_cycle(decl_edges(s, True))
        if cyc is None:
            break
        done = False
        for (a, b) in cyc:
            if a[0] == "t" and b[0] == "t":
                byid[b[1]]["after"] = [x for x in byid[b[1]]["after"] if x != a[1]]
                done = True
                break
        if not done:
            for (a, b) in cyc:
                if a[0] == "n" and b[0] == "t":
                    byid[b[1]]["deps"] = [x for x in byid[b[1]]["deps"] if x != a[1]]
                    done = True
                    break
        if not done:
            a, b = cyc[0]
            byid[a[1]]["prods"] = [x for x in byid[a[1]]["prods"] if x != b[1]]
    return s


# ------------------------------------------------------------------------------------------------
# generators
# ------------------------------------------------------------------------------------------------

def _task(tid, deps=(), prods=(), after=(), module=0, after_style="expr"):
    return {"id": tid, "module": module, "deps": sorted(set(deps)), "prods": list(prods), "after": sorted(set(after)),
            "after_style": after_style, "spell": {}}


def enum_small(max_tasks=3, max_nodes=3):
    """All bipartite task/node digraphs with ≤ max_tasks tasks and ≤ max_nodes nodes, up to renaming of nodes
    (node columns are generated as multisets), cells ∈ {none, dep, prod}, plus the graphs with exactly one
    dep+prod cell; each combined with every `after` relation between distinct tasks. Yields compact tuples
    (T, columns, after_pairs) to keep memory small; `small_to_spec` expands one."""
    for T in range(1, max_tasks + 1):
        cols_plain = list(itertools.product((0, 1, 2), repeat=T))          # 0 none, 1 dep, 2 prod
        cols_plain = [c for c in cols_plain if any(c)]
        pairs = [(a, b) for a in range(T) for b in range(T) if a != b]
        after_sets = [tuple(p for i, p in enumerate(pairs) if m >> i & 1) for m in range(1 << len(pairs))]
        for N in range(0, max_nodes + 1):
            for cols in itertools.combinations_with_replacement(cols_plain, N):
                for aft in after_sets:
                    yield (T, cols, aft)
        # exactly one cell is dep+prod (a cycle of length 1); without `after`
        for N in range(1, max_nodes + 1):
            for cols in itertools.combinations_with_replacement(cols_plain, N - 1):
                for i in range(T):
                    for rest in itertools.product((0, 1, 2), repeat=T - 1):
                        col = rest[:i] + (3,) + rest[i:]
                        yield (T, cols + (col,), ())


def small_to_spec(c, style_bits=0, py_bits=0, one_module=True):
    T, cols, aft = c
    tasks = [_task(t, module=0 if one_module else t) for t in range(T)]
    for j, col in enumerate(cols):
        n = 10 + j
        for t, cell in enumerate(col):
            if cell in (1, 3):
                tasks[t]["deps"].append(n)
            if cell in (2, 3):
                tasks[t]["prods"].append(n)
    for k, (a, b) in enumerate(aft):
        tasks[b]["after"].append(a)
    for t in tasks:
        t["after"].sort()
        t["after_style"] = ("list", "func", "expr")[(style_bits >> t["id"]) % 3] if style_bits else "expr"
    py = [10 + j for j in range(len(cols)) if py_bits >> j & 1]
    return {"tasks": tasks, "py": py, "wrap": [], "stale": False}


def gen_random(rng, nt=(2, 8), cyclic_p=0.0, shared_p=0.0, after_p=0.35, py_p=0.2, prodless_p=0.2, nmods=(1, 3)):
    """Random layered (hence well-formed) graph, then optional back edges / extra producers to make it ill-formed."""
    n = rng.randint(*nt)
    mods = rng.randint(*nmods)
    tasks = []
    next_node = 100
    inputs = [next_node + i for i in range(rng.randint(1, 2))]
    next_node += len(inputs)
    produced = []
    for tid in range(n):
        pool = inputs + produced
        deps = [x for x in pool if rng.random() < 0.6 / max(1, len(pool) ** 0.5)]
        if not deps and rng.random() < 0.6:
            deps = [rng.choice(pool)]
        prods = []
        if rng.random() >= prodless_p:
            for _ in range(2 if rng.random() < 0.25 else 1):
                prods.append(next_node)
                next_node += 1
        after = []
        if tasks and rng.random() < after_p:
            after = rng.sample([u["id"] for u in tasks], rng.randint(1, min(2, len(tasks))))
        t = _task(tid, deps, prods, after, module=rng.randrange(mods), after_style=rng.choice(["expr", "func", "list"]))
        tasks.append(t)
        produced += prods
    spec = {"tasks": tasks, "py": [], "wrap": [], "stale": rng.random() < 0.4}
    allnodes = sorted({x for t in tasks for x in t["deps"] + t["prods"]})
    spec["py"] = [x for x in allnodes if rng.random() < py_p]
    if rng.random() < cyclic_p:
        add_back_edge(rng, spec)
    if rng.random() < shared_p:
        add_shared(rng, spec, rng.randint(2, min(4, n)))
    add_kinds(rng, spec)
    add_spellings(rng, spec)
    if rng.random() < 0.1:
        t = rng.choice(tasks)
        t["after"] = sorted(set(t["after"]) | {t["id"]})     # a task naming itself: no relation
        t["after_style"] = "expr"
    return spec


def add_back_edge(rng, spec):
    """Close a cycle: a later task's product (or an `after`) feeds an earlier task."""
    tasks = spec["tasks"]
    if len(tasks) < 1:
        return
    kind = rng.choice(["dep", "dep", "after", "self"])
    if kind == "self" or len(tasks) == 1:
        t = rng.choice([u for u in tasks if u["prods"]] or tasks)
        if t["prods"]:
            t["deps"] = sorted(set(t["deps"]) | {rng.choice(t["prods"])})
        return
    a, b = sorted(rng.sample(range(len(tasks)), 2))
    early, late = tasks[a], tasks[b]
    if kind == "dep" and late["prods"]:
        early["deps"] = sorted(set(early["deps"]) | {rng.choice(late["prods"])})
    else:
        early["after"] = sorted(set(early["after"]) | {late["id"]})
        early["after_style"] = "expr"


def add_shared(rng, spec, k):
    tasks = spec["tasks"]
    owners = rng.sample(tasks, min(k, len(tasks)))
    src = next((t for t in owners if t["prods"]), None)
    n = src["prods"][0] if src else max([100] + [x for t in tasks for x in t["deps"] + t["prods"]]) + 1
    for t in owners:
        if n not in t["prods"]:
            t["prods"].append(n)


def add_spellings(rng, spec, p=0.5):
    py = set(spec["py"])
    for t in spec["tasks"]:
        for n in set(t["deps"] + t["prods"]):
            if n not in py and rng.random() < p:
                t["spell"][str(n)] = rng.choice(SPELLINGS)


def gen_cycle(rng, length, through="file", extra=(0, 3)):
    """A cycle with exactly `length` tasks on it (length 1 = a task depending on its own product), at a random
    position inside a few unrelated well-formed tasks. through: 'file' | 'py' | 'after' | 'mixed'."""
    k = rng.randint(*extra)
    ids = list(range(length + k))
    rng.shuffle(ids)
    on = ids[:length]
    mods = rng.randint(1, 2)
    tasks = {}
    node = 200
    py = []
    link_nodes = []
    for i, tid in enumerate(on):
        tasks[tid] = _task(tid, module=rng.randrange(mods))
    for i, tid in enumerate(on):
        nxt = on[(i + 1) % length]
        how = through if through != "mixed" else rng.choice(["file", "py", "after"])
        if length == 1 and how == "after":
            how = "file"
        node += 1
        tasks[tid]["prods"].append(node)
        if how == "after":
            tasks[nxt]["after"].append(tid)
            tasks[nxt]["after_style"] = "expr"
        else:
            tasks[nxt]["deps"].append(node)
            if how == "py":
                py.append(node)
        link_nodes.append(node)
    for tid in ids[length:]:
        t = _task(tid, module=rng.randrange(mods))
        node += 1
        t["prods"].append(node)
        if rng.random() < 0.5:
            t["deps"].append(rng.choice(link_nodes))      # hangs off the cycle
        tasks[tid] = t
    spec = {"tasks": [tasks[i] for i in sorted(tasks)], "py": py, "wrap": [], "stale": rng.random() < 0.5}
    for t in spec["tasks"]:
        t["deps"].sort()
        t["after"].sort()
    add_kinds(rng, spec)
    add_spellings(rng, spec)
    return spec


def gen_shared(rng, k, spell_mode="mixed", py=False, kind=None):
    """k tasks declare one product, each under its own spelling; plus a consumer and an unrelated task.
    kind: 'file' | 'py' | 'pk' (PickleNode) | 'dir' (DirectoryNode product; nobody consumes it)."""
    kind = kind or ("py" if py else "file")
    n = 300
    tasks = []
    spells = list(SPELLINGS)
    rng.shuffle(spells)
    for i in range(k):
        t = _task(i, deps=[299], prods=[n] + ([301 + i] if rng.random() < 0.5 else []), module=rng.randrange(2))
        if kind != "py":
            t["spell"][str(n)] = spells[i % len(spells)] if spell_mode == "mixed" else spell_mode
        t["prod_style"] = rng.choice(["return", "param"])
        rng.shuffle(t["prods"])
        tasks.append(t)
    tasks.append(_task(k, deps=[n] if kind != "dir" else [299], prods=[320], module=0))
    tasks.append(_task(k + 1, deps=[299], prods=[321], module=1))
    return add_forms(rng, {"tasks": tasks, "py": [n] if kind == "py" else [], "pk": [n] if kind == "pk" else [], "dirs": [n] if kind == "dir" else [],
                           "wrap": [], "stale": rng.random() < 0.5, "subdirs": rng.random() < 0.5})


def gen_opts(rng):
    """Build options that have nothing to do with the shape of the task graph."""
    return {"check_casing_of_paths": rng.random() < 0.5, "force": rng.random() < 0.25, "dry_run": rng.random() < 0.2,
            "verbose": rng.choice([0, 1, 2]), "capture": rng.choice(["fd", "sys", "no", "tee-sys"])}


def add_forms(rng, spec, val_p=0.5, cont_p=0.5):
    """How in-memory nodes are created (value-less, or already holding a value) and how a task declares its in-memory /
    pickle dependencies (bare annotated arguments, or inside one list / tuple / dict / @task(kwargs=) container with plain values)."""
    spec["pyval"] = {str(n): rng.choice([1, 2]) for n in spec.get("py", []) if rng.random() < val_p}
    for t in spec["tasks"]:
        t["dep_form"] = rng.choice(["list", "tuple", "dict", "kwargs"]) if rng.random() < cont_p else "bare"
    add_decoration(rng, spec)
    return spec


MARKS = ("try_last", "try_first", "skipif_false", "markone")


def add_decoration(rng, spec, mark_p=0.35, task_p=0.2):
    """How a task function is decorated: nothing, a bare `@task()`, and / or a pytask marker that does not change what runs
    (try_first / try_last, skipif(False), a registered user marker)."""
    for t in spec["tasks"]:
        t["marks"] = [rng.choice(MARKS)] if rng.random() < mark_p else []
        t["force_task"] = rng.random() < task_p
    add_product_styles(rng, spec)
    return spec


TASK_IDS = ("/raw", "bold", "/", "red]x[/red", "[", "]", "link=a", "/bold", "b][i", "not markup", "1", "/red", "/x")
PY_SUFFIXES = ("[/x]", "[/]", "[/raw]", "[/bold]", "[/red]y")
NODE_SUFFIXES = ("[bold]", "[x]", "[red]x[", "]", "[", "[link=a]", "[1]", "[b]y[-b]", "[bold red]")


def add_names(rng, spec, id_p=0.5, node_p=0.3):
    """User-chosen names: task ids through @task(id=…) and node names, drawn from pools that contain strings which look like
    rich console markup. Names must never change the outcome."""
    for t in spec["tasks"]:
        t["tid"] = rng.choice(TASK_IDS) if rng.random() < id_p else None
    nodes = sorted({x for t in spec["tasks"] for x in t["deps"] + t["prods"]})
    py = set(spec.get("py", []))
    spec["nname"] = {}
    for n in nodes:
        if n in py:      # not a file name: may contain a slash, i.e. look like a closing tag
            if rng.random() < max(node_p, 0.5):
                spec["nname"][str(n)] = rng.choice(NODE_SUFFIXES + PY_SUFFIXES)
        elif rng.random() < node_p:
            spec["nname"][str(n)] = rng.choice(NODE_SUFFIXES)
    return spec


def add_product_styles(rng, spec):
    """A declaration style per product, so that one task mixes the `produces` argument, Product parameters, a return annotation
    and @task(produces=…)."""
    for t in spec["tasks"]:
        t["pstyle"] = {str(n): rng.choice(["arg", "param", "param", "return", "deco"]) for n in set(t["prods"])}
    return spec


def gen_after_forms(rng, close_cycle=False):
    """One module; targets of every decoration kind (plain `task_` function, `@task`, marker only) with and without products,
    named through the function form of `after` (single reference or list). close_cycle: the first target is additionally
    declared (expression form) after the last downstream task that has a product, which closes a chain through its products."""
    kinds = [("plain", [], False), ("task", [], True), ("marker", [rng.choice(MARKS)], False), ("marker+task", [rng.choice(MARKS)], True)]
    rng.shuffle(kinds)
    tasks, node = [], 400
    targets = []
    for i, (kind, marks, force) in enumerate(kinds[:rng.randint(2, 4)]):
        t = _task(i, deps=[399] if rng.random() < 0.5 else [], module=0)
        if rng.random() < 0.65:
            node += 1
            t["prods"].append(node)
        t["marks"], t["force_task"] = marks, force
        tasks.append(t)
        targets.append(i)
    nd = rng.randint(1, 3)
    for j in range(nd):
        tid = len(tasks)
        k = rng.randint(1, min(2, len(targets)))
        aft = rng.sample(targets, k)
        t = _task(tid, deps=[399] if rng.random() < 0.3 else [], after=aft, module=0, after_style="func" if k == 1 and rng.random() < 0.7 else "list")
        node += 1
        t["prods"].append(node)
        t["marks"], t["force_task"] = ([rng.choice(MARKS)] if rng.random() < 0.3 else []), False
        tasks.append(t)
    spec = {"tasks": tasks, "py": [], "pk": [], "dirs": [], "wrap": [], "stale": rng.random() < 0.3, "subdirs": rng.random() < 0.3, "pyval": {}}
    if close_cycle:
        down = tasks[-1]
        first = next((tasks[a] for a in down["after"] if tasks[a]["prods"]), None)
        if first is not None:
            first["after"] = [down["id"]]
            first["after_style"] = "expr"
        else:
            tasks[down["after"][0]]["deps"] = sorted(set(tasks[down["after"][0]]["deps"]) | {down["prods"][0]})
    for t in tasks:
        t.setdefault("dep_form", "bare")
        t.setdefault("prod_style", "param")
    add_product_styles(rng, spec)
    add_spellings(rng, spec)
    return spec


def add_kinds(rng, spec, pk_p=0.15, dir_p=0.3):
    """Turn some file nodes into PickleNodes, and some never-consumed file products into DirectoryNode products."""
    py = set(spec.get("py", []))
    deps = {d for t in spec["tasks"] for d in t["deps"]}
    nodes = sorted({x for t in spec["tasks"] for x in t["deps"] + t["prods"]} - py)
    pk, dirs = [], []
    for n in nodes:
        if n not in deps and rng.random() < dir_p:
            dirs.append(n)
        elif rng.random() < pk_p:
            pk.append(n)
    spec["pk"], spec["dirs"] = pk, dirs
    for t in spec["tasks"]:
        t["prod_style"] = rng.choice(["return", "param"])
    spec["subdirs"] = rng.random() < 0.35
    add_forms(rng, spec)
    return spec


def wellformed_variant(rng, spec):
    """A well-formed negative control that keeps the size and the spellings of an ill-formed spec."""
    return repair(spec)


# ------------------------------------------------------------------------------------------------
# API level: the real create_dag on synthetic sessions
# ------------------------------------------------------------------------------------------------

def api_case(spec):
    tasks = []
    for t in spec["tasks"]:
        tasks.append({"id": t["id"], "deps": t["deps"], "prods": t["prods"], "after": t["after"],
                      "after_style": "list" if t.get("after_style") in ("list", "func") and t["id"] not in t["after"] else "expr"})
    return {"tasks": tasks, "py": spec.get("py", []), "wrap": spec.get("wrap", []), "pk": spec.get("pk", []), "dirs": spec.get("dirs", [])}


def run_api(cases, hashseeds):
    """Distribute cases over len(hashseeds) worker processes; returns answers in order."""
    k = len(hashseeds)
    chunks = [cases[i::k] for i in range(k)]

    def one(args):
        i, chunk = args
        if not chunk:
            return []
        env = dict(os.environ, PYTHONHASHSEED=str(hashseeds[i]), PYTHONDONTWRITEBYTECODE="1")
        r = subprocess.run([common.PY, str(WORKER)], input=json.dumps(chunk), capture_output=True, text=True, env=env, cwd="/")
        if r.returncode != 0:
            raise common.InfraError("dag_worker failed: " + r.stderr[-800:])
        return json.loads(r.stdout)

    with ThreadPoolExecutor(max_workers=k) as ex:
        outs = list(ex.map(one, enumerate(chunks)))
    res = [None] * len(cases)
    for i, out in enumerate(outs):
        for j, o in enumerate(out):
            res[i + j * k] = o
    return res


# ------------------------------------------------------------------------------------------------
# model lines
# ------------------------------------------------------------------------------------------------

def task_prio(t):
    marks = t.get("marks", [])
    return 1 if "try_first" in marks else (-1 if "try_last" in marks else 0)


def model_lines(spec):
    lines = ["engine.reset"]
    for t in spec["tasks"]:
        lines.append(f"engine.task id={t['id']} src={project.src_node(t.get('module', 0))} deps={','.join(map(str, t['deps']))} "
                     f"prods={','.join(map(str, t['prods']))} after={','.join(map(str, t.get('after', [])))} flags= prio={task_prio(t)} beh=ok")
    return lines


def model_fs_line(spec, existing_nodes):
    sets = [f"{n}:1" for n in sorted(existing_nodes)]
    sets += [f"{project.src_node(m)}:1" for m in sorted({t.get('module', 0) for t in spec['tasks']})]
    return f"engine.fs set={','.join(sets)} del="


def parse_dag_answer(ans):
    """-> ('rejected', kind) | ('ok', {task: [anc]}, desel)"""
    if ans.startswith("err:"):
        return ("rejected", ans[4:])
    if not ans.startswith("ok "):
        return ("bad", ans)
    kv = dict(p.split("=", 1) for p in ans[3:].split(" "))
    anc = {}
    for part in kv.get("anc", "").split(";"):
        if not part:
            continue
        t, xs = part.split("<")
        anc[int(t)] = sorted(int(x) for x in xs.split(",") if x)
    return ("ok", anc, kv.get("sortercycle"))


# ------------------------------------------------------------------------------------------------
# end to end: render a real project
# ------------------------------------------------------------------------------------------------

RT_C09 = r'''
"""C09 runtime helper (not a task module)"""
from pathlib import Path
from pytask import PythonNode
ROOT = Path(__file__).resolve().parent
LOG = ROOT / ".verif_log"
PY = {}

def py(n, init=0, suffix=""):
    """init=0: a value-less node; 1: created with value=None; 2: created with value=0 (it already holds a value at collection)"""
    if n not in PY:
        name = f"py{n}{suffix}"
        PY[n] = PythonNode(name=name) if init == 0 else PythonNode(name=name, value=None if init == 1 else 0)
    return PY[n]

def log(line):
    with open(LOG, "a") as f:
        f.write(line + "\n")

def body(t, prods, nret, save=(), dirs=()):
    """prods: paths to write; save: node objects (PythonNode / PickleNode products passed as parameters);
    dirs: directories of DirectoryNode products; nret: number of values to return into `produces=` nodes."""
    log(f"S {t}")
    for p in prods:
        Path(p).parent.mkdir(parents=True, exist_ok=True)
        Path(p).write_text(str(t))
    for nd in save:
        if hasattr(nd, "path"):
            Path(nd.path).parent.mkdir(parents=True, exist_ok=True)
        nd.save(str(t))
    for d in dirs:
        Path(d).mkdir(parents=True, exist_ok=True)
        (Path(d) / f"f{t}.txt").write_text(str(t))
    log(f"E {t}")
    if nret == 0:
        return None
    return str(t) if nret == 1 else [str(t)] * nret
'''


def node_fname(spec, n, is_dir=False):
    """file (or directory) name of node n; spec["nname"] may attach a suffix that looks like rich markup, e.g. n5[bold].txt"""
    suf = (spec.get("nname") or {}).get(str(n), "") if spec is not None else ""
    return f"dir{n}{suf}" if is_dir else f"n{n}{suf}.txt"


def path_expr(n, spell, subdirs=False, is_dir=False, spec=None):
    f = node_fname(spec, n, is_dir)
    pre = "../data" if subdirs else "data"
    return {
        "rel": f"Path('{pre}/{f}')",
        "dot": f"Path('{pre}/./{f}')",
        "dotdot": f"Path('{pre}/c/../{f}')",
        "abs": f"DATA / '{f}'",
        "absdd": f"DATA / 'c' / '..' / '{f}'",
    }[spell]


def module_file(root: Path, spec, m: int) -> Path:
    return (root / f"m{m}" / f"task_m{m}.py") if spec.get("subdirs") else project.module_path(root, m)


def render_module(spec, m):
    py = set(spec.get("py", []))
    pk = set(spec.get("pk", []))
    dirs = set(spec.get("dirs", []))
    sub = bool(spec.get("subdirs"))
    pyval = {str(k): v for k, v in (spec.get("pyval") or {}).items()}
    tasks = sorted((t for t in spec["tasks"] if t["module"] == m), key=lambda t: t["id"])
    here = "Path(__file__).resolve().parent" + (".parent" if sub else "")
    L = [f"# C09 module {m}", "from __future__ import annotations", "from pathlib import Path", "from typing import Annotated", "from typing import Any",
         "import pytask", "from pytask import DirectoryNode, PickleNode, Product, task", "import _verif_c09 as rt", f"DATA = {here} / 'data'", ""]
    defined = set()
    forms = {}
    deco_kind = {}
    has_prods = {t["id"]: bool(t["prods"]) for t in spec["tasks"]}
    for t in tasks:
        tid = t["id"]

        def pe(n, is_dir=False):
            return path_expr(n, t["spell"].get(str(n), "abs"), sub, is_dir, spec)

        def node_expr(n):
            if n in py:
                suf = (spec.get("nname") or {}).get(str(n), "")
                return f"rt.py({n}, {pyval.get(str(n), 0)}, {suf!r})" if (str(n) in pyval or suf) else f"rt.py({n})"
            if n in pk:
                return f"PickleNode(path={pe(n)})"
            return pe(n)

        kw = []
        aft = t.get("after", [])
        if aft:
            st = t.get("after_style", "expr")
            if st in ("func", "list") and not all(a in defined for a in aft):
                st = "expr"
            if st == "func" and len(aft) == 1:
                kw.append(f"after={project.tname(aft[0])}")
            elif st in ("func", "list"):
                kw.append("after=[" + ", ".join(project.tname(a) for a in aft) + "]")
            else:
                kw.append("after=" + repr(" or ".join(project.tname(a) for a in aft)))
            forms[tid] = st
            if st in ("func", "list"):
                for a in aft:
                    forms[f"{tid}>{a}"] = f"{st}->{deco_kind[a]}-target" + ("" if has_prods[a] else "-without-products")
        nodef, withdef, path_prods, save_prods, dir_prods = [], [], [], [], []
        special_deps = [n for n in t["deps"] if n in py or n in pk]
        form = t.get("dep_form", "bare") if special_deps else "bare"
        if form != "bare":
            # the in-memory / pickle dependencies sit inside ONE container argument together with plain values
            items = [node_expr(n) for n in special_deps]
            if form == "dict":
                cont = "{" + ", ".join([f"'a{i}': {e}" for i, e in enumerate(items)] + ["'k': 5", "'s': 'plain'"]) + "}"
            elif form == "tuple":
                cont = "(" + ", ".join(["5"] + items + ["'plain'"]) + ",)"
            else:
                cont = "[" + ", ".join(items[:1] + ["5"] + items[1:] + ["'plain'"]) + "]"
            if form == "kwargs":
                kw.append("kwargs={'parts': " + cont + "}")
                nodef.append("parts")
            else:
                withdef.append(f"parts={cont}")
        for n in t["deps"]:
            if n in py or n in pk:
                if form == "bare":
                    nodef.append(f"d{n}: Annotated[Any, {node_expr(n)}]")
            else:
                withdef.append(f"d{n}: Path = {pe(n)}")
        uniq = list(dict.fromkeys(t["prods"]))
        nret = 0
        ret_annot = None
        special = [n for n in uniq if n in py or n in pk]
        has_dir = any(n in dirs for n in uniq)
        pstyle = t.get("pstyle")
        if pstyle is not None:
            # one declaration style PER PRODUCT: "arg" (the `produces` argument), "param" (Annotated[..., Product] parameter),
            # "return" (return annotation), "deco" (@task(produces=…)); a task may mix them
            st = {}
            for n in uniq:
                x = pstyle.get(str(n), "param")
                if n in dirs:
                    x = "param"
                elif (n in py or n in pk) and x == "arg":
                    x = "param"
                st[n] = x
            rets = [n for n in uniq if st[n] in ("return", "deco")]
            if len(rets) > 1 or any(st[n] == "deco" for n in rets):
                for n in rets:
                    st[n] = "deco"       # only one of return annotation / decorator may be used, and an annotation holds one node
            args = [n for n in uniq if st[n] == "arg"]
            if len(args) == 1:
                withdef.append(f"produces: Path = {pe(args[0])}")
                path_prods.append("produces")
            elif args:
                withdef.append("produces: dict = {" + ", ".join(f"'a{i}': {pe(n)}" for i, n in enumerate(args)) + "}")
                path_prods += [f"produces['a{i}']" for i in range(len(args))]
            for i, n in enumerate(uniq):
                if st[n] != "param":
                    continue
                if n in dirs:
                    nodef.append(f"p{i}: Annotated[Path, DirectoryNode(root_dir={pe(n, True)}, pattern='*.txt'), Product]")
                    dir_prods.append(f"p{i}")
                elif n in py or n in pk:
                    nodef.append(f"p{i}: Annotated[Any, {node_expr(n)}, Product]")
                    save_prods.append(f"p{i}")
                else:
                    withdef.append(f"p{i}: Annotated[Path, Product] = {pe(n)}")
                    path_prods.append(f"p{i}")
            rets = [n for n in uniq if st[n] in ("return", "deco")]
            if rets and st[rets[0]] == "return":
                ret_annot = f"Annotated[Any, {node_expr(rets[0])}]"
            elif rets:
                exprs = [node_expr(n) for n in rets]
                kw.append("produces=" + (exprs[0] if len(exprs) == 1 else "[" + ", ".join(exprs) + "]"))
            nret = len(rets)
            for n in uniq:
                forms[f"{tid}:{n}"] = f"product-style={st[n]}"
            if len({st[n] for n in uniq}) > 1:
                forms[f"{tid}:mixed"] = "product-styles-mixed-on-one-task"
        elif special and not has_dir and t.get("prod_style", "return") == "return":
            exprs = [node_expr(n) for n in uniq]
            kw.append("produces=" + (exprs[0] if len(exprs) == 1 else "[" + ", ".join(exprs) + "]"))
            nret = len(exprs)
        else:
            for i, n in enumerate(uniq):
                if n in dirs:
                    nodef.append(f"p{i}: Annotated[Path, DirectoryNode(root_dir={pe(n, True)}, pattern='*.txt'), Product]")
                    dir_prods.append(f"p{i}")
                elif n in py or n in pk:
                    nodef.append(f"p{i}: Annotated[Any, {node_expr(n)}, Product]")
                    save_prods.append(f"p{i}")
                else:
                    withdef.append(f"p{i}: Annotated[Path, Product] = {pe(n)}")
                    path_prods.append(f"p{i}")
        if t.get("tid") is not None:
            kw.append(f"id={t['tid']!r}")        # the task is then called task_tNNx[<id>]
        marks = t.get("marks", [])
        for mk in marks:
            L.append({"skipif_false": "@pytask.mark.skipif(False, reason='cond false')"}.get(mk, f"@pytask.mark.{mk}"))
        if kw or t.get("force_task"):
            L.append("@task(" + ", ".join(kw) + ")")
            deco_kind[tid] = "task"
        else:
            deco_kind[tid] = "marker-only" if marks else "plain"
        L.append(f"def {project.tname(tid)}({', '.join(nodef + withdef)})" + (f" -> {ret_annot}" if ret_annot else "") + ":")
        L.append(f"    return rt.body({tid}, [{', '.join(path_prods)}], {nret}, save=[{', '.join(save_prods)}], dirs=[{', '.join(dir_prods)}])")
        L.append("")
        defined.add(tid)
    return "\n".join(L) + "\n", forms


def input_nodes(spec):
    """file nodes that some task depends on and no task produces"""
    py = set(spec.get("py", []))
    prods = {p for t in spec["tasks"] for p in t["prods"]}
    return sorted({d for t in spec["tasks"] for d in t["deps"]} - prods - py)


def node_file(root: Path, spec, n: int) -> Path:
    return root / "data" / node_fname(spec, n, n in set(spec.get("dirs", [])))


def materialise(root: Path, spec, stale=False):
    import pickle
    root.mkdir(parents=True, exist_ok=True)
    (root / "pyproject.toml").write_text('[tool.pytask.ini_options]\nmarkers = {markone = "marker one", marktwo = "marker two"}\n')
    (root / "_verif_c09.py").write_text(RT_C09)
    (root / "data").mkdir(exist_ok=True)
    forms = {}
    pk = set(spec.get("pk", []))
    mods = sorted({t["module"] for t in spec["tasks"]})
    want = {module_file(root, spec, m) for m in mods}
    for p in list(root.rglob("task_m*.py")):
        if p not in want:
            p.unlink()
    for m in mods:
        txt, f = render_module(spec, m)
        forms.update(f)
        mp = module_file(root, spec, m)
        mp.parent.mkdir(parents=True, exist_ok=True)
        if not mp.exists() or mp.read_text() != txt:
            mp.write_text(txt)
    for n in input_nodes(spec):
        p = node_file(root, spec, n)
        if not p.exists():
            if n in pk:
                p.write_bytes(pickle.dumps("7"))
            else:
                p.write_text("7")
    if stale:
        skip = set(spec.get("py", [])) | set(spec.get("dirs", []))
        for t in spec["tasks"]:
            for n in t["prods"]:
                if n not in skip:
                    p = node_file(root, spec, n)
                    if not p.exists():
                        if n in pk:
                            p.write_bytes(pickle.dumps("0"))
                        else:
                            p.write_text("0")
    return forms


def snapshot(root: Path):
    """{relative path: bytes} of everything under data/ (to see that a rejected build touched nothing)."""
    out = {}
    d = root / "data"
    for p in sorted(d.rglob("*")):
        if p.is_file():
            out[str(p.relative_to(root))] = p.read_bytes().hex()
    return out
