"""C14 / C15: generators, real runs, oracles (property-level, know nothing about the Lean model) and the
replay of the same inputs in the Lean driver (`capture.*` commands, `Driver/CaptureCmd.lean`)."""
from __future__ import annotations

import json
import os
import re
import shutil
import subprocess
from concurrent.futures import ThreadPoolExecutor
from pathlib import Path

import common

HERE = Path(__file__).resolve().parent
WORKER = HERE / "capture_worker.py"
SEQ_WORKER = HERE / "capture_seq_worker.py"
METHODS = ["fd", "sys", "tee-sys", "no"]
PY_KINDS = {"print", "eprint", "owrite", "ewrite"}
ERR_KINDS = {"eprint", "ewrite", "os2", "child2"}
KINDS = ["print", "eprint", "owrite", "ewrite", "os1", "os2", "child1", "child2"]
CHAN = {"print": "po", "owrite": "po", "eprint": "pe", "ewrite": "pe", "os1": "f1", "os2": "f2", "child1": "c1", "child2": "c2"}
PAY = re.compile(r"@@(\d+)@\[(.*?)\]@\1@@", re.S)

# ------------------------------------------------------------------------------------------------
# C14: generator
# ------------------------------------------------------------------------------------------------

CURATED = ["a", "Z", "0", " ", "\t", "\r", "\n", "\r\n", "é", "ß", "中", "€", "́", " ", " ", "😀", "\U0010ffff",
           "\x00", "\x7f", "﻿", "\\", "%", "{", "[", "]", "«"]


BLANKS = ["", "", " ", "   ", "\t", " \t ", "\r", "\u00a0", "\u2003 ", "\x0b", "\x0c"]


def gen_body(rng) -> str:
    n = rng.choice([0, 1, 1, 2, 3, 5, 8, 12])
    out = []
    for _ in range(n):
        if rng.random() < 0.3:
            while True:
                cp = rng.randrange(1, 0x110000)
                if not (0xD800 <= cp <= 0xDFFF) and cp != 0x40:
                    break
            out.append(chr(cp))
        else:
            out.append(rng.choice(CURATED))
    return "".join(out)


def gen_case(rng, idx: int, nt=(1, 6), nw=(0, 5), method=None) -> dict:
    tasks = []
    pid = 0
    for t in range(rng.randint(*nt)):
        writes = []
        for _ in range(rng.randint(*nw)):
            kind = rng.choice(KINDS)
            if rng.random() < 0.1:
                # an empty write: nothing to account for, and it must not create a section
                writes.append({"kind": kind, "id": None, "text": "", "end": "", "flush": rng.random() < 0.5})
                continue
            if rng.random() < 0.12:
                # a write without any token: blanks only (a bare print(), spaces, a tab, "\r\n", exotic spaces) — it must be kept
                # byte for byte, also when it is everything the task wrote on that stream
                writes.append({"kind": kind, "id": None, "text": rng.choice(BLANKS), "end": rng.choice(["\n", "", "\r\n", "\n"]),
                               "flush": rng.random() < 0.5})
                continue
            pid += 1
            if rng.random() < 0.015:
                # more than 64 KiB of multi-byte text in one write (block-wise readers must not split a character)
                ch = rng.choice(["é", "中", "😀"])
                body = "x" * rng.randrange(0, 4) + ch * (70000 // len(ch.encode()) + rng.randrange(0, 50))
                writes.append({"kind": kind, "id": pid, "text": f"@@{pid}@[{body}]@{pid}@@", "end": "\n", "flush": True})
                continue
            end = rng.choice(["\n", "\n", "", "\r\n", "\r"]) if kind in ("print", "eprint") else rng.choice(["", "", "\n"])
            writes.append({"kind": kind, "id": pid, "text": f"@@{pid}@[{gen_body(rng)}]@{pid}@@", "end": end,
                           "flush": rng.random() < 0.5})
        if rng.random() < 0.12:
            # whitespace is ALL this task writes on stdout / stderr (tokens, if any, only on the other stream)
            blank_err = rng.random() < 0.5
            writes = [w for w in writes if is_err(w) != blank_err]
            for _ in range(rng.randint(1, 3)):
                kind = rng.choice([k for k in KINDS if (k in ERR_KINDS) == blank_err])
                writes.insert(rng.randint(0, len(writes)), {"kind": kind, "id": None, "text": rng.choice(BLANKS[2:]),
                                                            "end": rng.choice(["\n", "", "\r\n"]), "flush": rng.random() < 0.5})
        # a quarter of the tasks end abnormally after writing: by an exception or by sys.exit()
        tasks.append({"name": f"task_t{t}", "writes": writes, "fail": rng.choice([True, True, "exit"]) if rng.random() < 0.25 else False})
    if tasks and rng.random() < 0.2:
        # one task is left through KeyboardInterrupt (after whatever it wrote)
        rng.choice(tasks)["fail"] = "kbd"
    return {"idx": idx, "tasks": tasks, "method": method or rng.choice(METHODS), "hashseed": rng.randrange(0, 1000),
            "unbuffered": rng.random() < 0.7}


MODULE = '''\
import json
import os
import subprocess
import sys
from pathlib import Path

import pytask

_HERE = Path(__file__).parent
_SPEC = json.loads((_HERE / "spec.json").read_text())


def _act(name):
    t = _SPEC[name]
    for w in t["writes"]:
        k, s, e = w["kind"], w["text"], w["end"]
        if k == "print":
            print(s, end=e, flush=w["flush"])
        elif k == "eprint":
            print(s, end=e, file=sys.stderr, flush=w["flush"])
        elif k == "owrite":
            sys.stdout.write(s + e)
        elif k == "ewrite":
            sys.stderr.write(s + e)
        elif k == "os1":
            os.write(1, (s + e).encode("utf-8"))
        elif k == "os2":
            os.write(2, (s + e).encode("utf-8"))
        elif k == "child1":
            subprocess.run(["/bin/cat", str(_HERE / w["file"])], check=True)
        elif k == "child2":
            subprocess.run(["/bin/sh", "-c", 'cat "$0" >&2', str(_HERE / w["file"])], check=True)
    if t["fail"] == "kbd":
        raise KeyboardInterrupt   # Ctrl-C while the task runs (or a library raising it)
    if t["fail"] == "exit":
        sys.exit(3)
    if t["fail"]:
        raise RuntimeError("task fails after writing")


'''


def write_project(d: Path, case: dict) -> None:
    d.mkdir(parents=True, exist_ok=True)
    (d / "pyproject.toml").write_text("[tool.pytask.ini_options]\n")
    spec = {}
    src = MODULE
    for t in case["tasks"]:
        ws = []
        for j, w in enumerate(t["writes"]):
            w = dict(w)
            if w["kind"] in ("child1", "child2"):
                w["file"] = f"pay_{t['name']}_{j}.bin"
                (d / w["file"]).write_bytes((w["text"] + w["end"]).encode("utf-8"))
            ws.append(w)
        spec[t["name"]] = {"writes": ws, "fail": t["fail"]}
        # an interrupted task stops the build (session.should_stop): it is scheduled last so that every task gets a report
        deco = "@pytask.mark.try_last\n" if t["fail"] == "kbd" else ""
        src += f"{deco}def {t['name']}():\n    _act({t['name']!r})\n\n\n"
    (d / "spec.json").write_text(json.dumps(spec))
    (d / "task_cap.py").write_text(src)


def run_case(case: dict) -> dict:
    d = common.scratch_dir("c14")
    try:
        write_project(d / "p", case)
        env = dict(os.environ, PYTHONHASHSEED=str(case["hashseed"]), PYTHONDONTWRITEBYTECODE="1", PYTHONUTF8="1",
                   PYTHONIOENCODING="utf-8", COLUMNS="120")
        env.pop("PYTHONUNBUFFERED", None)
        if case["unbuffered"]:
            env["PYTHONUNBUFFERED"] = "1"
        if case.get("picky_real"):
            env["C14_PICKY_STREAMS"] = "1"   # the worker installs stream objects of its own that refuse text containing U+26D4
        show = "no" if any(t["fail"] for t in effective_tasks(case)) else "all"
        r = subprocess.run([common.PY, str(WORKER), str(d / "p"), case["method"], show, str(d / "res.json")],
                           stdin=subprocess.DEVNULL, capture_output=True, env=env, cwd=str(d), timeout=300)
        if not (d / "res.json").exists():
            raise common.InfraError(f"capture worker produced no result: rc={r.returncode} {r.stderr[-400:]!r}")
        obs = json.loads((d / "res.json").read_text())
        obs["term1"] = r.stdout.decode("utf-8", errors="surrogateescape")
        obs["term2"] = r.stderr.decode("utf-8", errors="surrogateescape")
        return obs
    finally:
        shutil.rmtree(d, ignore_errors=True)


def short(x, n: int = 160) -> str:
    """repr for messages: long payloads are abbreviated (the replay file holds the complete case)"""
    r = repr(x)
    return r if len(r) <= 2 * n + 40 else f"{r[:n]}…({len(r)} chars)…{r[-n:]}"


def full(w: dict) -> str:
    return w["text"] + w["end"]


def is_err(w: dict) -> bool:
    return w["kind"] in ERR_KINDS


def is_py(w: dict) -> bool:
    return w["kind"] in PY_KINDS


def extract(text: str) -> list:
    return [[int(m.group(1)), m.group(2)] for m in PAY.finditer(text)]


# ------------------------------------------------------------------------------------------------
# C14: oracle — token accounting straight from the property statement
# ------------------------------------------------------------------------------------------------

def effective_tasks(case: dict) -> list:
    """What the tasks get to write. Normally everything. With `picky_real` (the caller's own sys.stdout / sys.stderr objects raise
    OSError for text containing U+26D4) under tee-sys a Python-level write of such text raises in the pass-through to the real
    stream: the text was written by the task and is captured (it belongs into the section), it does not reach the real stream, the
    task fails there."""
    if not (case.get("picky_real") and case["method"] == "tee-sys"):
        return case["tasks"]
    out = []
    for t in case["tasks"]:
        ws, fail = [], t["fail"]
        for w in t["writes"]:
            if is_py(w) and "\u26d4" in w["text"]:
                ws.append(dict(w, end="" if w["kind"] in ("print", "eprint") else w["end"], sec_only=True))
                fail = True
                break
            ws.append(w)
        out.append(dict(t, writes=ws, fail=fail))
    return out


def oracle_c14(case: dict, obs: dict) -> list:
    """Returns [(kind, message)]. Every payload exactly once, in the place the capture method prescribes, in
    write order, unmodified; nothing in another task's section; no empty sections."""
    bad = []
    if "raised" in obs:
        return [("returns", f"pytask.build raised {obs['raised']}")]
    method = case["method"]
    by_name = {t["name"]: t for t in effective_tasks(case)}
    reps = {r["name"]: r for r in obs["reports"]}
    interrupted = [n for n, t in by_name.items() if t["fail"] == "kbd"]
    missing = set(by_name) - set(reps)
    if missing and interrupted and interrupted[0] in reps and obs["reports"][-1]["name"] == interrupted[0]:
        # documented: after an interrupted task the build stops, tasks not started yet get no report
        by_name = {n: t for n, t in by_name.items() if n in reps}
    if set(reps) != set(by_name) or len(obs["reports"]) != len(by_name):
        bad.append(("reports", f"reports for {sorted(reps)} but tasks {sorted(by_name)}"))
        return bad
    order = [r["name"] for r in obs["reports"]]
    for name, t in by_name.items():
        r = reps[name]
        want_outcome = "FAIL" if t["fail"] else "SUCCESS"
        if r["outcome"] != want_outcome:
            bad.append(("outcome", f"{name}: outcome {r['outcome']} but expected {want_outcome}"))
        # what the property says this task's sections are
        want = {"stdout": "", "stderr": ""}
        for w in t["writes"]:
            captured = method == "fd" or (method in ("sys", "tee-sys") and is_py(w))
            if captured:
                want["stderr" if is_err(w) else "stdout"] += full(w)
        got = {}
        for when, stream, text in r["sections"]:
            if when != "call":
                bad.append(("when", f"{name}: section labelled {when!r} but the task only wrote while it was called"))
            if text == "":
                bad.append(("empty", f"{name}: empty section ({when}, {stream})"))
            if stream in got:
                bad.append(("dup", f"{name}: two sections for ({when}, {stream})"))
            got[stream] = got.get(stream, "") + text
        for stream in ("stdout", "stderr"):
            g = got.get(stream, "")
            if g != want[stream]:
                foreign = [i for i, _ in extract(g) if i not in {w["id"] for w in t["writes"]}]
                kind = "leak" if foreign else "section"
                bad.append((kind, f"{name}/{stream} ({method}): section is {short(g)} but the task wrote {short(want[stream])}"
                            + (f"; payloads {foreign} belong to other tasks" if foreign else "")))
        if set(got) - {"stdout", "stderr"}:
            bad.append(("stream", f"{name}: unknown section streams {sorted(got)}"))
    # the real streams
    for chan, key in (("stdout", "term1"), ("stderr", "term2")):
        want_seq, py_seq, fd_seq = [], [], []
        for name in order:
            for w in by_name[name]["writes"]:
                if w["id"] is None or is_err(w) != (chan == "stderr") or w.get("sec_only"):
                    continue
                reaches = method == "no" or (method == "tee-sys") or (method == "sys" and not is_py(w))
                if reaches:
                    m = PAY.match(w["text"])
                    item = [w["id"], m.group(2)]
                    want_seq.append(item)
                    (py_seq if is_py(w) else fd_seq).append(item)
        got_seq = extract(obs[key])
        if case["unbuffered"]:
            if got_seq != want_seq:
                bad.append(("terminal", f"real {chan} ({method}) carries payloads {short(got_seq)} but should carry {short(want_seq)}"))
        else:
            # block-buffered original streams: Python-level text may arrive later than descriptor-level bytes
            ids_py = {i for i, _ in py_seq}
            if sorted(map(tuple, got_seq)) != sorted(map(tuple, want_seq)) or \
                    [x for x in got_seq if x[0] in ids_py] != py_seq or [x for x in got_seq if x[0] not in ids_py] != fd_seq:
                bad.append(("terminal", f"real {chan} ({method}, buffered) carries {short(got_seq)}, expected an interleaving of {short(py_seq)} and {short(fd_seq)}"))
    return bad


# ------------------------------------------------------------------------------------------------
# C14: the same run in the Lean model
# ------------------------------------------------------------------------------------------------

def cps(s: str) -> str:
    return ".".join(str(ord(c)) for c in s)


def uncps(s: str) -> str:
    return "".join(chr(int(x)) for x in s.split(".")) if s else ""


def ios_arg(case_tasks: dict, order: list, outcomes: dict, ids: dict) -> str:
    parts = []
    for name in order:
        t = case_tasks[name]
        ws = "+".join(f"{CHAN[w['kind']]}:{cps(full(w))}" for w in t["writes"])
        ph = ["s~", "c~" + ws]
        if outcomes[name] == "SUCCESS":
            ph.append("t~")
        parts.append("/".join([str(ids[name])] + ph))
    return "|".join(parts)


def model_c14(drv, case: dict, obs: dict) -> list:
    """Returns list of disagreement messages (model ≠ implementation)."""
    by_name = {t["name"]: t for t in case["tasks"]}
    ids = {t["name"]: i for i, t in enumerate(case["tasks"])}
    order = [r["name"] for r in obs["reports"]]
    outcomes = {r["name"]: r["outcome"] for r in obs["reports"]}
    lines = ["capture.reset fds=0:0,1:1,2:2 nfiles=3",
             f"capture.build method={case['method']} mods= ios={ios_arg(by_name, order, outcomes, ids)}",
             "capture.file f=1", "capture.file f=2"]
    ans = drv.batch(lines)
    out = []
    m = re.match(r"fault=(\d) secs=(\S*) tasks=(\S*) collectfailed=(\d)$", ans[1])
    if not m:
        return [f"driver answered {ans[1]!r}"]
    if m.group(1) != "0":
        out.append("model: an assertion of capture.py fails (fault=1) but the real build went through")
    msecs = []
    for s in (m.group(2).split(";") if m.group(2) else []):
        t, when, st, data = s.split(":")
        msecs.append([int(t), when, "stderr" if st == "e" else "stdout", uncps(data)])
    rsecs = []
    for r in obs["reports"]:
        for when, stream, text in r["sections"]:
            rsecs.append([ids[r["name"]], when, stream, text])
    if msecs != rsecs:
        out.append(f"sections: model {short(msecs)} vs implementation {short(rsecs)}")
    for f, key in ((2, "term1"), (3, "term2")):
        mt = extract(uncps(ans[f][len("data="):]))
        rt = extract(obs[key])
        if case["unbuffered"]:
            if mt != rt:
                out.append(f"{key}: model {short(mt)} vs implementation {short(rt)}")
        elif sorted(map(tuple, mt)) != sorted(map(tuple, rt)):
            out.append(f"{key} (buffered, as multiset): model {short(mt)} vs implementation {short(rt)}")
    return out


def canon_c14(case: dict) -> dict:
    return {"m": case["method"], "a": bool(case.get("picky_real")), "t": [[[w["kind"], w["text"], w["end"]] for w in t["writes"]] + [t["fail"]] for t in case["tasks"]]}


def nontrivial_c14(case: dict) -> bool:
    writers = [t for t in case["tasks"] if any(w["id"] is not None for w in t["writes"])]
    return len(writers) >= 2 or (len(writers) == 1 and len(writers[0]["writes"]) >= 2)


def corpus_c14() -> list:
    """Hand-written cases: the design-time probe (mixed print / os.write / child), line endings, empty writes."""
    def w(kind, i, body, end="", flush=False):
        return {"kind": kind, "id": i, "text": f"@@{i}@[{body}]@{i}@@", "end": end, "flush": flush}
    base = [
        {"name": "task_t0", "fail": False, "writes": [w("print", 1, "hello", "\n"), w("os1", 2, "raw"), w("child1", 3, "kid\n"),
                                                       w("eprint", 4, "err", "\n"), w("os2", 5, "raw2\r\n"), w("child2", 6, "kid2")]},
        {"name": "task_t1", "fail": True, "writes": [w("owrite", 7, "no newline"), w("ewrite", 8, "\r"),
                                                      {"kind": "print", "id": None, "text": "", "end": "", "flush": True},
                                                      w("os1", 9, "é中😀")]},
        {"name": "task_t2", "fail": False, "writes": []},
        {"name": "task_t3", "fail": False, "writes": [{"kind": "os2", "id": None, "text": "", "end": "", "flush": False}]},
        {"name": "task_t4", "fail": False, "writes": [w("eprint", 10, "only stderr", "\n"), w("os2", 11, "raw stderr"), w("child2", 12, "kid stderr\n")]},
        {"name": "task_t5", "fail": True, "writes": [w("ewrite", 13, "warned, no newline")]},
        {"name": "task_t7", "fail": "exit", "writes": [w("print", 22, "leaving through sys.exit", "\n"), w("os2", 23, "bye")]},
        {"name": "task_t8", "fail": False, "writes": [w("print", 24, "中" * 30000, "\n"), w("os1", 25, "é" * 40001), w("eprint", 26, "x" + "😀" * 20000, "")]},
        # whitespace-only output: a bare print(), blanks without newline, "\r\n" through os.write, a lone tab from a child
        {"name": "task_t9", "fail": False, "writes": [{"kind": "print", "id": None, "text": '', "end": '\n', "flush": False}]},
        {"name": "task_t10", "fail": True, "writes": [{"kind": "owrite", "id": None, "text": '   ', "end": '', "flush": False}, {"kind": "ewrite", "id": None, "text": ' \t', "end": '', "flush": False}]},
        {"name": "task_t11", "fail": False, "writes": [{"kind": "os1", "id": None, "text": '\r\n', "end": '', "flush": False}, w("eprint", 27, "token on the other stream", "\n")]},
        {"name": "task_t12", "fail": "exit", "writes": [{"kind": "child1", "id": None, "text": '\t', "end": '', "flush": False}, {"kind": "os2", "id": None, "text": '\n', "end": '', "flush": False}]},
        {"name": "task_t13", "fail": False, "writes": [{"kind": "print", "id": None, "text": '  ', "end": '\n', "flush": False}, w("print", 28, "between blanks", "\n"), {"kind": "os1", "id": None, "text": ' \r\n', "end": '', "flush": False}, {"kind": "print", "id": None, "text": '', "end": '\n', "flush": False}]},
        {"name": "task_t14", "fail": "kbd", "writes": [w("print", 29, "before ctrl-c", "\n"), w("eprint", 30, "err before ctrl-c", "\n"), w("os1", 31, "raw1"),
                                                      w("os2", 32, "raw2"), w("child1", 33, "kid1\n"), w("child2", 34, "kid2")]},
        {"name": "task_t6", "fail": False, "writes": [w("owrite", 14, "py unflushed "), w("os1", 15, "fd "), w("owrite", 16, "py again"),
                                                       w("child1", 17, "kid"), w("print", 18, "tail", "\n"),
                                                       w("ewrite", 19, "e-py "), w("os2", 20, "e-fd "), w("ewrite", 21, "e-py2")]},
    ]
    out = []
    for i, m in enumerate(METHODS):
        for unb in (True, False):
            out.append({"idx": -1 - i, "tasks": base, "method": m, "hashseed": 3 + i, "unbuffered": unb})
    # tee-sys while the caller's real stream objects raise on some text: what the task wrote is still captured
    raising = [
        {"name": "task_t0", "fail": False, "writes": [w("print", 1, "plain", "\n"), w("owrite", 2, "\u26d4 cannot be passed on"), w("print", 3, "never written", "\n")]},
        {"name": "task_t1", "fail": False, "writes": [w("ewrite", 4, "ascii first "), w("eprint", 5, "refused \u26d4", "\n"), w("os2", 6, "never")]},
        {"name": "task_t2", "fail": False, "writes": [w("print", 7, "all ascii", "\n"), w("os1", 8, "raw bytes \u00e9 pass")]},
    ]
    out.append({"idx": -20, "tasks": raising, "method": "tee-sys", "hashseed": 11, "unbuffered": True, "picky_real": True})
    return out


def campaign_c14(ctx, n_random: int, workers: int = 8) -> None:
    rng = ctx.rng
    cases = corpus_c14()
    for i in range(n_random):
        cases.append(gen_case(rng, i))
    with ThreadPoolExecutor(max_workers=workers) as ex:
        results = list(ex.map(run_case, cases))
    drv = ctx.driver() if ctx.use_model else None
    for case, obs in zip(cases, results):
        check_c14(ctx, drv, case, obs)


def check_c14(ctx, drv, case, obs) -> None:
    ctx.dist[f"method:{case['method']}"] += 1
    ctx.dist[f"tasks:{len(case['tasks'])}"] += 1
    ctx.dist["unbuffered" if case["unbuffered"] else "buffered"] += 1
    for t in case["tasks"]:
        for w in t["writes"]:
            ctx.dist[f"kind:{w['kind']}" if w["id"] is not None else "kind:empty-write"] += 1
        ctx.dist["task:fail" if t["fail"] else "task:ok"] += 1
    sample = {"method": case["method"], "tasks": [[t["name"], [[w["kind"], w["text"][:24], w["end"]] for w in t["writes"]], t["fail"]] for t in case["tasks"]][:3],
              "sections": [[r["name"], [[a, b, c[:24]] for a, b, c in r["sections"]]] for r in obs.get("reports", [])][:3]}
    ctx.case(canon_c14(case), nontrivial_c14(case), sample)
    replay = {"layer": "c14", "case": case}
    for kind, msg in oracle_c14(case, obs):
        ctx.violation(f"{kind}: {msg}", replay)
    if drv is not None and not case.get("picky_real") and "raised" not in obs and {r["name"] for r in obs["reports"]} == {t["name"] for t in case["tasks"]}:
        for msg in model_c14(drv, case, obs):
            ctx.disagreement(msg, replay)
        ctx.traces_validated += 1


# ------------------------------------------------------------------------------------------------
# C15: projects, sequences
# ------------------------------------------------------------------------------------------------

SUBS = {
    # name: (module file, source, model description "id:decorated:plain[:x]", {function name: model id})
    "ok": ("task_ok.py", '''\
from pathlib import Path


def task_a(produces=Path("a.txt")):
    print("a writes")
    produces.write_text("a")


def task_b(path=Path("a.txt"), produces=Path("b.txt")):
    print("b writes")
    produces.write_text(path.read_text() + "b")
''', "1::1.2", {"task_a": 1, "task_b": 2}),
    "dec": ("task_dec.py", '''\
import sys
from pathlib import Path
from pytask import task


@task
def foo(produces=Path("foo.txt")):
    print("foo writes")
    produces.write_text("foo")


def task_plain():
    print("plain", file=sys.stderr)
''', "2:1:2", {"foo": 1, "task_plain": 2}),
    "fail": ("task_fail.py", '''\
import os
import warnings


def task_boom():
    os.write(1, b"about to fail")
    raise RuntimeError("boom")


def task_fine():
    warnings.simplefilter("ignore")
    print("fine")
''', "3::1.2", {"task_boom": 1, "task_fine": 2}),
    "badimp": ("task_badimp.py", '''\
def task_half():
    print("half")


raise RuntimeError("import fails")
''', "4::1:x", {"task_half": 1}),
    "closer": ("task_closer.py", '''\
import sys
from pathlib import Path


def task_closer(produces=Path("c.txt")):
    produces.write_text("c")
    print("about to close my standard output")
    sys.stdout.close()


def task_after(path=Path("c.txt")):
    print("after")
''', "6::1.2", {"task_closer": 1, "task_after": 2}),
    "marked": ("task_marked.py", '''\
from pathlib import Path

import pytask

_HERE = Path(__file__).parent


@pytask.mark.try_first
def task_a(produces=Path("ma.txt")):
    print("a runs")
    if (_HERE / "ctl.txt").exists() and (_HERE / "ctl.txt").read_text() == "fail":
        raise RuntimeError("a fails in this build")
    produces.write_text("a")


@pytask.mark.try_last
def task_b(path=Path("ma.txt"), produces=Path("mb.txt")):
    print("b runs")
    produces.write_text(path.read_text() + "b")


@pytask.mark.skipif(False, reason="never")
def task_c(produces=Path("mc.txt")):
    print("c runs")
    produces.write_text("c")


@pytask.mark.mine
def task_d(path=Path("mc.txt")):
    print("d runs")
''', "7::1.2.3.4", {"task_a": 1, "task_b": 2, "task_c": 3, "task_d": 4}),
    "empty": ("task_empty.py", '''\
HELPER = 1
''', "8::", {}),
    "warn": ("task_warn.py", '''\
import warnings


def task_warns():
    print("warning twice")
    warnings.warn("a user warning", UserWarning, stacklevel=1)
    warnings.warn("a deprecation warning", DeprecationWarning, stacklevel=1)
''', "9::1", {"task_warns": 1}),
    # the same task in a project of its own whose configuration file sets `filterwarnings`
    "warncfg": ("task_warncfg.py", '''\
import warnings


def task_warns():
    print("warning twice")
    warnings.warn("a user warning", UserWarning, stacklevel=1)
    warnings.warn("a deprecation warning", DeprecationWarning, stacklevel=1)
''', "10::1", {"task_warns": 1}),
    # a second project root (own configuration file, own .pytask directory and database) with products
    "own": ("task_own.py", '''\
from pathlib import Path


def task_p(produces=Path("p.txt")):
    print("p writes")
    produces.write_text("p")


def task_q(path=Path("p.txt"), produces=Path("q.txt")):
    print("q writes")
    produces.write_text(path.read_text() + "q")
''', "11::1.2", {"task_p": 1, "task_q": 2}),
    "cyc": ("task_cyc.py", '''\
from pathlib import Path


def task_x(path=Path("y.txt"), produces=Path("x.txt")):
    produces.write_text("x")


def task_y(path=Path("x.txt"), produces=Path("y.txt")):
    produces.write_text("y")
''', "5::1.2", {"task_x": 1, "task_y": 2}),
}


PDB_MODULE = '''\
"""non-interactive debugger class handed to pytask as pdbcls: every prompt is answered with `continue`"""
import io
import pdb


class ContPdb(pdb.Pdb):
    def __init__(self, *a, **k):
        k.pop("stdin", None)
        k.pop("stdout", None)
        super().__init__(*a, stdin=io.StringIO("continue\\n" * 200), stdout=io.StringIO(), **k)
        self.use_rawinput = False
'''


def write_seq_project(root: Path) -> None:
    root.mkdir(parents=True, exist_ok=True)
    (root / "pyproject.toml").write_text('[tool.pytask.ini_options]\nmarkers = {mine = "a marker of this project"}\n')
    for sub, (fname, src, _, _) in SUBS.items():
        (root / sub).mkdir()
        (root / sub / fname).write_text(src)
    (root / "c15pdb.py").write_text(PDB_MODULE)
    (root / "own" / "pyproject.toml").write_text("[tool.pytask.ini_options]\n")
    # a project root of its own: its configuration file turns user warnings into errors
    (root / "warncfg" / "pyproject.toml").write_text('[tool.pytask.ini_options]\nfilterwarnings = ["error::UserWarning"]\n')


def gen_seq(rng, idx: int, n=(2, 8)) -> dict:
    builds = []
    for _ in range(rng.randint(*n)):
        sub = rng.choice(["ok", "ok", "dec", "fail", "badimp", "cyc", "marked", "marked", "marked", "empty", "warn", "warn", "warncfg", "own", "own"])
        kw = {"capture": rng.choice(METHODS), "verbose": rng.choice([0, 1, 1, 2])}
        r = rng.random()
        if r < 0.2:
            kw["dry_run"] = True
        elif r < 0.45:
            kw["force"] = True
        extra = {}
        if sub == "marked":
            # tasks that carry pytask marks: selections, dry runs, a task failing in one build and passing in the next
            r2 = rng.random()
            if r2 < 0.25:
                kw["expression"] = rng.choice(["task_a", "task_b or task_c", "not task_a"])
            elif r2 < 0.45:
                kw["marker_expression"] = rng.choice(["mine", "try_first", "not try_last"])
            extra["ctl"] = "fail" if rng.random() < 0.25 else "ok"
        # the warnings plugin: summary on / off x filters from the build arguments (the sub-project warncfg has them in its
        # configuration file); `fail` is left out — its task installs a filter itself, which only the active plugin undoes
        if sub != "fail" and rng.random() < 0.35:
            kw["disable_warnings"] = True
        if rng.random() < 0.35:
            kw["filterwarnings"] = rng.choice([["error::UserWarning"], ["ignore::DeprecationWarning"],
                                               ["error::DeprecationWarning", "ignore::UserWarning"], ["ignore"]])
        if sub in ("fail", "marked", "ok", "warn") and rng.random() < 0.2:
            # post-mortem debugging of failing tasks, answered by a non-interactive debugger class
            kw["pdb"] = True
            kw["pdbcls"] = ["c15pdb", "ContPdb"]
        if rng.random() < 0.07:
            extra["corrupt_hashes"] = True   # a broken .pytask/file_hashes.json
        if rng.random() < 0.07:
            extra["corrupt_db"] = True   # configuration fails in database.pytask_post_parse
        if rng.random() < 0.2:
            kw["show_locals"] = True
        if rng.random() < 0.2:
            kw["editor_url_scheme"] = "no_link"
        if rng.random() < 0.15:
            kw["show_capture"] = rng.choice(["no", "stdout", "stderr"])
        if rng.random() < 0.08:
            kw["capture"] = "bogus"   # configuration fails in pytask_parse_config
        builds.append({"sub": sub, "kw": kw, **extra})
    if rng.random() < 0.3:
        # a task that closes sys.stdout while it is captured; last build of the process (it may wreck the interpreter's streams),
        # never with capture=no (there it would close the caller's own stream)
        builds.append({"sub": "closer", "kw": {"capture": rng.choice(["sys", "tee-sys", "fd"]), "verbose": 1, "force": True}})
    seq = {"idx": idx, "builds": builds, "hashseed": rng.randrange(0, 1000), "tty": rng.random() < 0.25}
    r = rng.random()
    if r < 0.12 and not seq["tty"]:
        seq["init"] = "close_fd0"
    elif r < 0.2 and not seq["tty"]:
        seq["init"] = "close_stdin"
    return seq


def _run_worker(spec: dict, d: Path, tag: str, hashseed: int, tty: bool = False) -> dict:
    sp = d / f"spec_{tag}.json"
    rp = d / f"res_{tag}.json"
    sp.write_text(json.dumps(spec))
    env = dict(os.environ, PYTHONHASHSEED=str(hashseed), PYTHONDONTWRITEBYTECODE="1", PYTHONUTF8="1", COLUMNS="120")
    if tty:
        # the process is attached to a (pseudo) terminal: rich draws the live table and proxies sys.stdout / sys.stderr meanwhile
        import pty
        import threading
        master, slave = pty.openpty()
        p = subprocess.Popen([common.PY, str(SEQ_WORKER), str(sp), str(rp)], stdin=slave, stdout=slave, stderr=slave, env=env,
                             cwd=str(d), close_fds=True)
        os.close(slave)

        def drain():
            while True:
                try:
                    if not os.read(master, 65536):
                        break
                except OSError:
                    break
        t = threading.Thread(target=drain, daemon=True)
        t.start()
        try:
            p.wait(timeout=600)
        except subprocess.TimeoutExpired:
            p.kill()
            raise common.InfraError("C15 sequence worker (pty) timed out") from None
        finally:
            t.join(timeout=5)
            os.close(master)
    else:
        p = subprocess.Popen([common.PY, str(SEQ_WORKER), str(sp), str(rp)], stdin=subprocess.PIPE, stdout=subprocess.PIPE,
                             stderr=subprocess.PIPE, env=env, cwd=str(d))
        try:
            p.communicate(timeout=600)   # stdin stays an open pipe until the worker exits
        except subprocess.TimeoutExpired:
            p.kill()
            raise common.InfraError("C15 sequence worker timed out") from None
    if not rp.exists():
        raise common.InfraError(f"C15 sequence worker produced no result (rc={p.returncode})")
    res = json.loads(rp.read_text())
    if "harness_error" in res:
        raise common.InfraError("C15 worker: " + res["harness_error"])
    return res


def run_seq(seq: dict, fresh: bool = True) -> dict:
    d = common.scratch_dir("c15")
    try:
        write_seq_project(d / "A")
        write_seq_project(d / "B")
        tty = bool(seq.get("tty"))

        def inproc():
            return _run_worker({"root": str(d / "A"), "builds": seq["builds"], "init": seq.get("init")}, d, "seq", seq["hashseed"], tty=tty)

        def chain():
            # the same builds, one fresh process each, over a copy of the project (the two chains run side by side)
            out = []
            for k, b in enumerate(seq["builds"]):
                r = _run_worker({"root": str(d / "B"), "builds": [b], "init": seq.get("init")}, d, f"f{k}", seq["hashseed"], tty=tty)
                out.append(r["builds"][0])
            return out

        if not fresh:
            return {"inproc": inproc(), "fresh": []}
        with ThreadPoolExecutor(max_workers=2) as ex:
            f1, f2 = ex.submit(inproc), ex.submit(chain)
            return {"inproc": f1.result(), "fresh": f2.result()}
    finally:
        shutil.rmtree(d, ignore_errors=True)


# ------------------------------------------------------------------------------------------------
# C15: oracle
# ------------------------------------------------------------------------------------------------

CLOSED_FILE = "ValueError: I/O operation on closed file"


def closer_class(b: dict, rec: dict):
    """Known findings about a task that closes sys.stdout while it is captured (sub-project `closer`):
    F6b - capture=sys|tee-sys: capture.pytask_unconfigure (124aca8) reads the closed buffer, build() raises ValueError;
    F6c - capture=fd: FDCapture.resume installs the closed temporary file as sys.stdout before dup2 fails, pytask's own
          reporting then raises out of build()."""
    if b["sub"] != "closer" or not str(rec.get("raised", "")).startswith(CLOSED_FILE):
        return None
    return {"sys": "F6b", "tee-sys": "F6b", "fd": "F6c"}.get(b["kw"]["capture"])


def oracle_c15(seq: dict, obs: dict) -> list:
    """Returns [(kind, message, finding-or-None)]."""
    bad = []
    imported = set()           # sub-projects whose module this process has imported (F7: sys.modules keeps it)
    for k, (b, rec) in enumerate(zip(seq["builds"], obs["inproc"]["builds"])):
        tag = f"build {k} ({b['sub']}, {b['kw']}" + (f", ctl={b['ctl']}" if "ctl" in b else "") + (", corrupt database" if b.get("corrupt_db") else "") + (", broken file_hashes.json" if b.get("corrupt_hashes") else "") + ")"
        cls = closer_class(b, rec)
        if "raised" in rec:
            bad.append(("returns", f"{tag}: pytask.build raised {rec['raised']}", cls))
        bef, aft = rec["before"], rec["after"]
        sqlite_filled = 0
        method = b["kw"]["capture"]
        configured = rec.get("exit") != 2
        # --- standard streams: descriptors 0-2 and the Python objects
        for i, nm in enumerate(("stdin", "stdout", "stderr")):
            if aft["stat"][i] != bef["stat"][i]:
                if bef["stat"][i] is None and aft["fds"].get(str(i)) == "/dev/null":
                    # not pytask: SQLite never keeps a database on descriptors 0-2 — when open() hands it one of them it puts
                    # /dev/null there (os_unix.c robust_open). Happens with every capture method, also with an in-memory database.
                    sqlite_filled += 1
                    continue
                bad.append(("streams", f"{tag}: descriptor {i} refers to {aft['fds'].get(str(i))!r} after the build, before {bef['fds'].get(str(i))!r}",
                            cls if cls == "F6c" else None))
            if aft["std_same"][i] != bef["std_same"][i] or (not aft["std_same"][i] and aft["std_type"][i] != bef["std_type"][i]):
                # F6b: the aborted unconfigure leaves only sys.stdin (capture=sys) behind; anything else is new
                known = cls if (cls == "F6c" or (cls == "F6b" and i == 0 and method == "sys" and aft["std_type"][0] == "DontReadFromInput")) else None
                bad.append(("streams", f"{tag}: sys.{nm} is a {aft['std_type'][i]} after the build", known))
        # --- the rest of the process state
        for key, what in (("cwd", "working directory"), ("filters", "warnings.filters"), ("set_trace_same", "pdb.set_trace"),
                          ("collected", "COLLECTED_TASKS"), ("prov", "TASKS_WITH_PROVISIONAL_NODES"), ("pdb_saved", "PytaskPDB._saved"),
                          ("report_vars", "ExecutionReport/Traceback class variables"),
                          ("live_stack", "live displays on rich's global console"),
                          ("pdb_state", "PytaskPDB class attributes (_pluginmanager is None, _config is None, _wrapped_pdb_cls is None, _recursive_debug)")):
            if key == "report_vars":
                # claimed only for builds that passed configuration (pytask_unconfigure ran): then they are back at the defaults,
                # whatever an earlier build with a failing configuration left behind
                if configured and aft[key] != obs["inproc"]["initial"][key]:
                    bad.append(("misc", f"{tag}: {what} are {aft[key]!r} after the build, defaults {obs['inproc']['initial'][key]!r}",
                                cls if cls == "F6c" else None))
                continue
            if aft[key] != bef[key]:
                # F6c: the exception escapes before pytask_unconfigure runs, so nothing is restored
                bad.append(("misc", f"{tag}: {what} changed: {bef[key]!r} -> {aft[key]!r}", cls if cls == "F6c" else None))
        # --- open descriptors: constant from the second build on
        if k >= 1 and len(aft["fds"]) > len(bef["fds"]) + sqlite_filled:
            new = [l for fd, l in aft["fds"].items() if fd not in bef["fds"] or bef["fds"][fd] != l]
            grown_by = len(aft["fds"]) - len(bef["fds"])
            bad.append(("leak", f"{tag}: {grown_by} more open descriptors than before this build ({len(bef['fds'])} -> {len(aft['fds'])}); new: {sorted(new)}",
                        cls if cls == "F6c" else None))
        # --- same outcomes as a build in a fresh process
        if obs["fresh"]:
            fr = obs["fresh"][k]
            mine = (rec.get("exit"), rec.get("tasks"), sorted(map(tuple, rec.get("reports", []))), rec.get("n_warnings"))
            theirs = (fr.get("exit"), fr.get("tasks"), sorted(map(tuple, fr.get("reports", []))), fr.get("n_warnings"))
            if mine != theirs:
                finding = None
                fname = {"dec": "foo"}.get(b["sub"])
                if b["sub"] == "dec" and "dec" in imported and "raised" not in rec and "raised" not in fr:
                    # F7: exactly the @task-decorated function is missing, everything else equal
                    if rec["tasks"] == [t for t in fr["tasks"] if t != fname] and \
                            [r for r in theirs[2] if r[0] != fname] == mine[2] and rec["exit"] == fr["exit"]:
                        finding = "F7"
                if b["sub"] == "badimp" and "badimp" in imported and fr.get("exit") == 3 and fr.get("tasks") == []:
                    # F7 (same cause): the half-initialised module is served from sys.modules, its import error is gone
                    finding = "F7"
                bad.append(("samebuilds", f"{tag}: in-process exit/tasks/outcomes {mine!r} but in a fresh process {theirs!r}", finding))
        if configured:
            imported.add(b["sub"])
    return bad


# ------------------------------------------------------------------------------------------------
# C15: the same sequence in the Lean model
# ------------------------------------------------------------------------------------------------

def model_c15(drv, seq: dict, obs: dict) -> list:
    out = []
    if seq.get("init"):
        return out   # a process without descriptor 0: what happens to it is SQLite's doing (see oracle_c15), outside the model
    ini = obs["inproc"]["initial"]
    n0 = len(ini["fds"])
    # initial descriptor table: 0,1,2 are three distinct pipes; every other open descriptor gets a file of its own
    fds = sorted(int(x) for x in ini["fds"])
    table = ",".join(f"{fd}:{i}" for i, fd in enumerate(fds))
    drv.ask(f"capture.reset fds={table} nfiles={len(fds)}")
    st0 = drv.ask("capture.state")
    m0 = dict(kv.split("=", 1) for kv in st0.split())
    for k, (b, rec) in enumerate(zip(seq["builds"], obs["inproc"]["builds"])):
        if "raised" in rec or b["sub"] == "closer":
            break   # closed stream objects are outside the model
        sub = b["sub"]
        _, _, modspec, fnids = SUBS[sub]
        method = b["kw"]["capture"]
        cfgfail = method == "bogus" or bool(b.get("corrupt_db"))
        ios = []
        for name, outcome in rec["reports"]:
            ph = ["s~"]
            if outcome in ("SUCCESS", "FAIL"):
                ph.append("c~po:120")
            if outcome == "SUCCESS":
                ph.append("t~")
            ios.append("/".join([str(fnids.get(name, 99))] + ph))
        ans = drv.ask(f"capture.build method={'fd' if method == 'bogus' else method} mods={modspec} ios={'|'.join(ios)} cfgfail={'db' if b.get('corrupt_db') else (1 if cfgfail else 0)}")
        m = re.match(r"fault=(\d) secs=(\S*) tasks=(\S*) collectfailed=(\d)$", ans)
        if not m:
            out.append(f"driver answered {ans!r}")
            break
        tag = f"build {k} ({sub}, {b['kw']})"
        if m.group(1) != "0":
            out.append(f"{tag}: model fault=1")
        if not cfgfail:
            mtasks = sorted(int(x.split(":")[1]) for x in m.group(3).split(",")) if m.group(3) else []
            rtasks = sorted(fnids.get(t, 99) for t in rec["tasks"])
            if mtasks != rtasks:
                out.append(f"{tag}: collected tasks: model {mtasks} vs implementation {rtasks}")
            if (m.group(4) == "1") != (rec["exit"] == 3):
                out.append(f"{tag}: collection failed: model {m.group(4)} vs implementation exit {rec['exit']}")
        drv.ask("capture.release")
        ms = dict(kv.split("=", 1) for kv in drv.ask("capture.state").split())
        aft = rec["after"]
        real = {
            "fd0": aft["stat"][0] == ini["stat"][0], "fd1": aft["stat"][1] == ini["stat"][1], "fd2": aft["stat"][2] == ini["stat"][2],
            "count": len(aft["fds"]) - n0,
            "stdin": "orig0" if aft["std_same"][0] else ("dontread" if aft["std_type"][0] == "DontReadFromInput" else "other"),
            "stdout": "orig1" if aft["std_same"][1] else "other", "stderr": "orig2" if aft["std_same"][2] else "other",
            "settrace": aft["set_trace_same"], "collected": aft["collected"], "pdbsaved": aft["pdb_saved"], "prov": aft["prov"],
            "filters": aft["filters"] == ini["filters"], "reportvars": aft["report_vars"] == ini["report_vars"],
        }
        model = {
            "fd0": ms["fd0"] == m0["fd0"], "fd1": ms["fd1"] == m0["fd1"], "fd2": ms["fd2"] == m0["fd2"],
            "count": int(ms["count"]) - int(m0["count"]),
            "stdin": ms["stdin"], "stdout": ms["stdout"], "stderr": ms["stderr"],
            "settrace": ms["settrace"] == "0", "collected": int(ms["collected"]), "pdbsaved": int(ms["pdbsaved"]), "prov": int(ms["prov"]),
            "filters": ms["filters"] == m0["filters"], "reportvars": ms["reportvars"] == "0",
        }
        if rec.get("exit") == 2:
            # class variables set by logging.pytask_post_parse are claimed (and modelled) only for builds that passed configuration
            real.pop("reportvars"); model.pop("reportvars")
        if real != model:
            diff = {key: (model[key], real[key]) for key in real if real[key] != model[key]}
            out.append(f"{tag}: process state after the build, (model, implementation): {diff}")
    return out


def canon_c15(seq: dict) -> list:
    return [[b["sub"], sorted(b["kw"].items()), b.get("ctl"), bool(b.get("corrupt_db")), bool(b.get("corrupt_hashes"))] for b in seq["builds"]] + (["tty"] if seq.get("tty") else []) + ([seq["init"]] if seq.get("init") else [])


def corpus_c15() -> list:
    """F6 (fixed by 124aca8: must pass) and F7 witnesses + one sequence per capture method + the closed-stream scenarios."""
    def b(sub, **kw):
        kw.setdefault("capture", "fd")
        kw.setdefault("verbose", 1)
        return {"sub": sub, "kw": kw}
    return [
        {"idx": -1, "hashseed": 1, "builds": [b("ok", force=True)] * 6},                                   # F6 witness (fixed): leak trend, stdin
        # two projects with databases of their own, alternating (A, B, A, B): skipped-because-unchanged must be judged against the right one
        {"idx": -16, "hashseed": 16, "builds": [b("ok", capture="no"), b("own", capture="no"), b("ok", capture="no"), b("own", capture="fd"),
                                                b("warncfg", capture="sys"), b("ok", capture="fd")]},
        # a broken cache of file hashes, under every capture method
        {"idx": -17, "hashseed": 17, "builds": [b("ok"), dict(b("ok", capture="fd"), corrupt_hashes=True), dict(b("own", capture="sys"), corrupt_hashes=True),
                                                dict(b("ok", capture="tee-sys"), corrupt_hashes=True), b("ok", capture="no")]},
        # F40 witness: post-mortem debugging at verbose=0 / the cached debugger wrapper class of an earlier build
        {"idx": -13, "hashseed": 13, "builds": [b("fail", capture="sys", verbose=1, pdb=True, pdbcls=["c15pdb", "ContPdb"]),
                                                b("fail", capture="sys", verbose=0, pdb=True, pdbcls=["c15pdb", "ContPdb"]),
                                                b("fail", capture="fd", verbose=1, pdb=True, pdbcls=["c15pdb", "ContPdb"]), b("ok", capture="no")]},
        # the caller has no standard input
        {"idx": -14, "hashseed": 14, "init": "close_fd0", "builds": [b("ok", capture="fd", force=True), b("ok", capture="sys", force=True), b("fail", capture="fd")]},
        {"idx": -15, "hashseed": 15, "init": "close_stdin", "builds": [b("ok", capture="fd", force=True), b("ok", capture="no", force=True)]},
        # the warnings plugin switched off while filters are configured (build argument / configuration file), then an unrelated
        # project whose task only warns
        {"idx": -12, "hashseed": 12, "builds": [b("ok", capture="no", disable_warnings=True, filterwarnings=["error::UserWarning"], force=True),
                                                b("warn", capture="no"), b("warncfg", capture="fd", disable_warnings=True),
                                                b("warn", capture="sys", force=True), b("warncfg", capture="no"),
                                                b("warn", capture="no", filterwarnings=["ignore::DeprecationWarning"]), b("warn", capture="fd")]},
        # F30 witness (fixed by b7e10b4): marks appended during a build stayed on the function
        {"idx": -9, "hashseed": 9, "builds": [b("marked", capture="no", dry_run=True), b("marked", capture="no"),
                                               b("marked", capture="no", expression="task_a", force=True), b("marked", capture="no", force=True)]},
        {"idx": -10, "hashseed": 10, "builds": [dict(b("marked", capture="sys"), ctl="fail"), dict(b("marked", capture="sys"), ctl="ok"),
                                                b("marked", capture="fd", marker_expression="mine", force=True), b("marked", capture="fd", force=True)]},
        # builds that end before any task starts, under capture=fd; a failing create_database
        {"idx": -11, "hashseed": 11, "builds": [b("ok"), b("cyc"), b("badimp"), b("empty"), dict(b("ok"), corrupt_db=True),
                                                dict(b("ok", capture="sys"), corrupt_db=True), b("empty", capture="sys")]},
        {"idx": -8, "hashseed": 8, "tty": True, "builds": [b("ok", capture="no", force=True), b("fail", capture="no"), b("cyc", capture="no"),
                                                            b("ok", capture="fd", force=True, verbose=2), b("badimp", capture="no")]},
        {"idx": -5, "hashseed": 5, "builds": [b("ok", capture="sys"), b("closer", capture="sys", force=True)]},
        {"idx": -6, "hashseed": 6, "builds": [b("ok", capture="tee-sys"), b("closer", capture="tee-sys", force=True)]},
        {"idx": -7, "hashseed": 7, "builds": [b("ok", capture="fd"), b("closer", capture="fd", force=True)]},
        {"idx": -2, "hashseed": 2, "builds": [b("dec", capture="no"), b("dec", capture="no"), b("dec", capture="no")]},   # F7
        {"idx": -3, "hashseed": 3, "builds": [b("badimp", capture="no"), b("badimp", capture="no")]},       # F7, failing import
        {"idx": -4, "hashseed": 4, "builds": [b("ok", capture="sys"), b("fail", capture="sys"), b("ok", capture="tee-sys", dry_run=True),
                                               b("cyc", capture="no"), b("ok", capture="bogus"), b("fail", capture="fd", verbose=2)]},
    ]


def check_c15(ctx, drv, seq, obs) -> None:
    for b in seq["builds"]:
        ctx.dist[f"sub:{b['sub']}"] += 1
        ctx.dist[f"method:{b['kw']['capture']}"] += 1
        ctx.dist["dry" if b["kw"].get("dry_run") else ("force" if b["kw"].get("force") else "plain")] += 1
    for rec in obs["inproc"]["builds"]:
        ctx.dist[f"exit:{rec.get('exit')}"] += 1
    ctx.dist[f"len:{len(seq['builds'])}"] += 1
    ctx.dist["terminal:pty" if seq.get("tty") else "terminal:pipes"] += 1
    sample = {"builds": canon_c15(seq)[:4], "exits": [r.get("exit") for r in obs["inproc"]["builds"]],
              "fd_counts": [len(r["after"]["fds"]) for r in obs["inproc"]["builds"]]}
    ctx.case(canon_c15(seq), len(seq["builds"]) >= 2 and any(len(r.get("reports", [])) > 0 for r in obs["inproc"]["builds"]), sample)
    replay = {"layer": "c15", "seq": seq}
    for kind, msg, finding in oracle_c15(seq, obs):
        ctx.violation(f"{kind}: {msg}", replay, finding=finding)
    if drv is not None:
        for msg in model_c15(drv, seq, obs):
            ctx.disagreement(msg, replay)
        ctx.traces_validated += 1


def campaign_c15(ctx, n_random: int, workers: int = 6) -> None:
    rng = ctx.rng
    seqs = corpus_c15()
    for i in range(n_random):
        seqs.append(gen_seq(rng, i))
    with ThreadPoolExecutor(max_workers=workers) as ex:
        results = list(ex.map(run_seq, seqs))
    drv = ctx.driver() if ctx.use_model else None
    for seq, obs in zip(seqs, results):
        check_c15(ctx, drv, seq, obs)
