#!/venv/bin/python
"""Runs the REAL `_pytask.dag.create_dag` (current tree) on synthetic sessions. stdin: JSON list of cases,
stdout: JSON list of answers (same order).

case = {"tasks": [{"id": int, "deps": [n…], "prods": [n…], "after": [task id…], "after_style": "expr"|"list"}],
        "py": [n…]            # node ids that are in-memory PythonNodes (others are PathNodes)
        "pk": [n…], "dirs": [n…]   # PickleNodes / DirectoryNodes (provisional; products only)
        "wrap": [[task, n]…]  # dependencies on a PythonNode that are declared through a wrapping PythonNode
        "k": str|None, "m": str|None}
answer = {"res": "ok", "anc": {task: [task-ancestors…]}, "desel": [task…]} | {"res": "rejected", "exc": <class name>}
         | {"res": "raised", "exc": <class name>}     (anything that is not ResolvingDependenciesError)
"""
import json
import sys
import uuid
from pathlib import Path

import networkx as nx

from _pytask.console import console
from _pytask.dag import create_dag
from _pytask.exceptions import ResolvingDependenciesError
from _pytask.models import NodeInfo
from _pytask.nodes import DirectoryNode
from _pytask.nodes import PathNode
from _pytask.nodes import PickleNode
from _pytask.nodes import PythonNode
from _pytask.nodes import TaskWithoutPath
from _pytask.session import Session

console.quiet = True
import _pytask.dag as _dag  # noqa: E402
_dag._log_dag = lambda report: None   # rendering the failure report costs more than the check itself; texts are not compared
ROOT = Path("/nonexistent-verif-c09")


def tname(t):
    return f"task_t{t:02d}x"


def _f():
    return None


def run_case(c):
    py = set(c.get("py", []))
    wrap = {(a, b) for a, b in c.get("wrap", [])}
    pynodes = {n: PythonNode(name=f"py{n}", node_info=NodeInfo(arg_name=f"py{n}", path=(), task_path=None, task_name="shared", value=None))
               for n in py}

    pk = set(c.get("pk", []))
    dirs = set(c.get("dirs", []))

    def node(n):
        if n in py:
            return pynodes[n]
        if n in pk:
            return PickleNode(name=f"n{n}.txt", path=ROOT / f"n{n}.txt")
        if n in dirs:
            return DirectoryNode(name=f"dir{n}/*.txt", root_dir=ROOT / f"dir{n}", pattern="*.txt")
        return PathNode(name=f"n{n}.txt", path=ROOT / f"n{n}.txt")

    cids = {t["id"]: uuid.UUID(int=t["id"] + 1) for t in c["tasks"]}
    tasks = []
    for t in c["tasks"]:
        deps = {}
        for n in t["deps"]:
            nd = node(n)
            if (t["id"], n) in wrap and n in py:
                nd = PythonNode(name=f"w{t['id']}_{n}", value=nd,
                                node_info=NodeInfo(arg_name=f"d{n}", path=(), task_path=None, task_name=tname(t["id"]), value=None))
            deps[f"d{n}"] = nd
        prods = {f"p{i}": node(n) for i, n in enumerate(t["prods"])}
        attrs = {"collection_id": cids[t["id"]]}
        aft = t.get("after", [])
        if aft:
            if t.get("after_style", "expr") == "list":
                attrs["after"] = [cids[a] for a in aft]
            else:
                attrs["after"] = " or ".join(tname(a) for a in aft)
        else:
            attrs["after"] = []
        tasks.append(TaskWithoutPath(name=tname(t["id"]), function=_f, depends_on=deps, produces=prods, attributes=attrs))
    session = Session(config={"paths": [ROOT], "root": ROOT, "expression": c.get("k") or "", "marker_expression": c.get("m") or ""}, tasks=tasks)
    try:
        dag = create_dag(session)
    except ResolvingDependenciesError:
        exc = session.dag_report.exc_info[0].__name__ if session.dag_report is not None else None
        return {"res": "rejected", "exc": exc, "report": session.dag_report is not None}
    except BaseException as e:  # noqa: BLE001
        return {"res": "raised", "exc": type(e).__name__}
    sig = {t.signature: c["tasks"][i]["id"] for i, t in enumerate(tasks)}
    anc = {}
    for t in tasks:
        anc[sig[t.signature]] = sorted(sig[a] for a in nx.ancestors(dag, t.signature) if a in sig)
    desel = sorted(sig[t.signature] for t in tasks if any(m.name == "skip" for m in t.markers))
    return {"res": "ok", "anc": anc, "desel": desel}


def main():
    cases = json.load(sys.stdin)
    out = []
    for c in cases:
        try:
            out.append(run_case(c))
        except BaseException as e:  # noqa: BLE001
            out.append({"res": "harness-error", "exc": f"{type(e).__name__}: {e}"})
    json.dump(out, sys.stdout)


if __name__ == "__main__":
    main()
