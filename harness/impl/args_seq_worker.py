#!/venv/bin/python
"""Runs a SEQUENCE of `pytask.build` calls on one generated C07 project inside ONE interpreter (state that pytask keeps in the
process survives from build to build), with edits of input files between the builds.

stdin: {"root": str, "steps": [["build"] | ["pickle", file, value] | ["text", file, value]]}
stdout (last line): JSON list, one entry per build: {"reports": [[task, outcome, exc]…], "logs": {task: {param: canonical text}}, "raised": …}
"""
import json
import os
import pickle
import sys
from pathlib import Path


def main():
    job = json.loads(sys.stdin.read())
    out_fd = os.dup(1)
    dn = os.open(os.devnull, os.O_RDWR)
    os.dup2(dn, 0)
    os.dup2(dn, 1)
    os.dup2(dn, 2)
    root = Path(job["root"])
    os.chdir(root)
    sys.path.insert(0, str(root))
    import pytask
    builds = []
    for step in job["steps"]:
        if step[0] == "pickle":
            (root / step[1]).write_bytes(pickle.dumps(step[2]))
        elif step[0] == "text":
            (root / step[1]).write_text(step[2])
        elif step[0] == "build":
            res = {"raised": None, "reports": [], "logs": {}}
            try:
                session = pytask.build(paths=[str(root)])
                res["exit"] = int(session.exit_code)
                for r in getattr(session, "execution_reports", []):
                    t = r.task
                    res["reports"].append([getattr(t, "base_name", None) or t.name, r.outcome.name,
                                           type(r.exc_info[1]).__name__ if r.exc_info else None])
            except BaseException as e:  # noqa: BLE001
                res["raised"] = type(e).__name__
            for lg in sorted(root.glob("*.log")):
                res["logs"][lg.stem] = json.loads(lg.read_text())
                lg.unlink()
            builds.append(res)
    os.write(out_fd, (json.dumps(builds) + "\n").encode())


if __name__ == "__main__":
    main()
