#!/venv/bin/python
"""Runs a SEQUENCE of `pytask.build` calls on one generated C07 project inside ONE interpreter (state that pytask keeps in the
process survives from build to build), with edits of input files between the builds.

stdin: {"root": str, "steps": [["build"[, {build kwargs}]] | ["pickle", file, value] | ["text", file, value] | ["rm", file]], "objects": bool}
With "objects" the builds do not collect task modules: the task functions / PTask OBJECTS created ONCE by `c07objs.make()` are handed
to every build as `tasks=[…]` (notebook style: the same node and task objects live through all builds of the process).
stdout (last line): JSON list, one entry per build: {"reports": [[task, outcome, exc]…], "logs": {task: {param: canonical text}}, "raised": …}
"""
import json
import os
import pickle
import sys
from pathlib import Path


def main():
    job = json.loads(sys.stdin.read())
    out_fd = os.dup(1)
    dn = os.open(os.devnull, os.O_RDWR)
    os.dup2(dn, 0)
    os.dup2(dn, 1)
    os.dup2(dn, 2)
    root = Path(job["root"])
    os.chdir(root)
    sys.path.insert(0, str(root))
    import pytask
    objs = None
    if job.get("objects"):
        import c07objs
        objs = c07objs.make()
    builds = []
    for step in job["steps"]:
        if step[0] == "pickle":
            (root / step[1]).write_bytes(pickle.dumps(step[2]))
        elif step[0] == "text":
            (root / step[1]).write_text(step[2])
        elif step[0] == "rm":
            (root / step[1]).unlink()
        elif step[0] == "build":
            res = {"raised": None, "reports": [], "logs": {}}
            kw = dict(step[1]) if len(step) > 1 else {}
            try:
                session = pytask.build(tasks=objs, **kw) if objs is not None else pytask.build(paths=[str(root)], **kw)
                res["exit"] = int(session.exit_code)
                for r in getattr(session, "execution_reports", []):
                    t = r.task
                    res["reports"].append([getattr(t, "base_name", None) or t.name, r.outcome.name,
                                           type(r.exc_info[1]).__name__ if r.exc_info else None])
            except BaseException as e:  # noqa: BLE001
                res["raised"] = type(e).__name__
            for lg in sorted(root.glob("*.log")):
                res["logs"][lg.stem] = json.loads(lg.read_text())
                lg.unlink()
            builds.append(res)
    os.write(out_fd, (json.dumps(builds) + "\n").encode())


if __name__ == "__main__":
    main()
