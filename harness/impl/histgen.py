"""Random histories of edits and builds over a generated spec (shared by C02, C03, C05, C10, C17)."""
from __future__ import annotations

import copy

from impl import engine


def all_products(spec):
    return [p for t in spec["tasks"] for p in t["prods"]]


def random_edit(rng, spec, state, kinds):
    """state: dict with 'inputs' (current contents as the harness knows them), 'history' (old contents per input)."""
    k = rng.choice(kinds)
    ins = [int(x) for x in spec["inputs"]]
    prods = all_products(spec)
    mods = sorted({t["module"] for t in spec["tasks"]})
    if k == "write" and ins:
        n = rng.choice(ins)
        v = rng.randint(100, 999)
        state["old"].setdefault(n, []).append(state["inputs"].get(n))
        state["inputs"][n] = v
        return ["write", n, v]
    if k == "revert" and ins:
        cands = [n for n in ins if state["old"].get(n)]
        if cands:
            n = rng.choice(cands)
            v = state["old"][n].pop()
            if v is not None:
                state["inputs"][n] = v
                return ["write", n, v]
    if k == "rewrite_same" and ins:
        n = rng.choice(ins)
        if state["inputs"].get(n) is not None:
            return ["write", n, state["inputs"][n]]
    if k == "touch":
        n = rng.choice(ins + prods) if ins + prods else None
        if n is not None:
            return ["touch", n]
    if k == "flag":          # untracked failure switch of one task (the body raises early while the file exists)
        on = sorted(state.setdefault("flags", set()))
        if on and rng.random() < 0.6:
            t = rng.choice(on)
            state["flags"].discard(t)
            return ["flag", t, 0]
        t = rng.choice([x["id"] for x in spec["tasks"]])
        state["flags"].add(t)
        return ["flag", t, 1]
    if k == "swap":          # two inputs exchange their contents (preferably members of one hashed value group)
        groups = [g["deps"] for x in spec["tasks"] for g in [x.get("pyhash_group")] if g]
        pool = rng.choice(groups) if groups and rng.random() < 0.7 else ins
        pool = [n for n in pool if state["inputs"].get(n) is not None]
        if len(pool) >= 2:
            a, b = rng.sample(pool, 2)
            va, vb = state["inputs"][a], state["inputs"][b]
            if va != vb and len(str(va)) == len(str(vb)):      # equal digit counts: see finding F3 (separator-less join)
                state["old"].setdefault(a, []).append(va)
                state["old"].setdefault(b, []).append(vb)
                state["inputs"][a], state["inputs"][b] = vb, va
                return [["write", a, vb], ["write", b, va]]
    if k == "delete_input" and [n for n in ins if n not in spec.get("nodelete", [])]:
        n = rng.choice([n for n in ins if n not in spec.get("nodelete", [])])
        state["old"].setdefault(n, []).append(state["inputs"].get(n))
        state["inputs"][n] = None
        return ["delete", n]
    if k == "bump" and mods:
        m = rng.choice(mods)
        return ["bump", m]
    if k == "revert_module" and mods:
        m = rng.choice(mods)
        return ["setver", m, 0]
    if k == "tamper" and prods:
        return ["write", rng.choice(prods), rng.randint(1000, 9999)]
    if k == "delete_product" and prods:
        return ["delete", rng.choice(prods)]
    if k == "rewire":
        new = copy.deepcopy(spec)
        t = rng.choice(new["tasks"])
        pool = ins + [p for u in new["tasks"] if u["id"] < t["id"] for p in u["prods"]]
        if pool:
            if t["deps"] and rng.random() < 0.5:
                t["deps"].remove(rng.choice(t["deps"]))
            else:
                t["deps"] = sorted(set(t["deps"]) | {rng.choice(pool)})
            m = str(t["module"])
            new["versions"][m] = new["versions"].get(m, 0)   # module text changes by itself (signature text)
            return ["respec", new]
    if k == "remove_task" and len(spec["tasks"]) > 2:
        new = copy.deepcopy(spec)
        # remove a sink task (nobody consumes its products, nobody is 'after' it)
        consumed = {d for t in new["tasks"] for d in t["deps"]}
        aftered = {a for t in new["tasks"] for a in t.get("after", [])}
        sinks = [t for t in new["tasks"] if not (set(t["prods"]) & consumed) and t["id"] not in aftered]
        if sinks:
            new["tasks"].remove(rng.choice(sinks))
            return ["respec", new]
    if k == "add_task":
        new = copy.deepcopy(spec)
        tid = max(t["id"] for t in new["tasks"]) + 1
        pool = ins + all_products(new)
        nn = max(pool + [100]) + 1
        new["tasks"].append({"id": tid, "module": rng.choice(mods), "deps": sorted(set(rng.sample(pool, min(len(pool), rng.randint(1, 2))))),
                             "prods": [nn], "after": [], "marks": [], "beh": "ok", "style": rng.choice(["default", "annotated", "kwargs"])})
        return ["respec", new]
    return None


def apply_to_spec(spec, step):
    """the spec as it is after the step (mirrors impl.engine.run_history)"""
    if step[0] == "respec":
        new = copy.deepcopy(step[1])
        new["versions"] = new.get("versions", {}) | spec["versions"]
        return new
    if step[0] == "bump":
        s = copy.deepcopy(spec)
        m = str(step[1])
        s["versions"][m] = s["versions"].get(m, 0) + 1
        return s
    if step[0] == "setver":
        s = copy.deepcopy(spec)
        s["versions"][str(step[1])] = step[2]
        return s
    return spec


def random_history(rng, spec, nsteps, edit_kinds, build_cfgs, final_build=None):
    state = {"inputs": {int(k): v for k, v in spec["inputs"].items()}, "old": {}}
    steps = []
    cur = spec
    for _ in range(nsteps):
        if rng.random() < 0.5:
            cfg = dict(rng.choice(build_cfgs))
            if cfg.get("sub") == "?":      # build restricted to one of the project's sub-directories (if the layout has any)
                subs = sorted(set(cur.get("subdirs", {}).values()))
                if subs:
                    cfg["sub"] = rng.choice(subs)
                else:
                    del cfg["sub"]
            steps.append(["build", cfg])
        else:
            e = random_edit(rng, cur, state, edit_kinds)
            if e is not None and isinstance(e[0], list):      # a compound edit
                steps.extend(e)
            elif e is not None:
                steps.append(e)
                cur = apply_to_spec(cur, e)
    if final_build is not None:
        steps.append(["build", dict(final_build)])
    return {"tag": "rand", "spec": spec, "steps": steps}
