#!/venv/bin/python
"""Fork server running `pytask.build` on the REAL code (current tree) — one forked child per build.

stdin: one JSON job per line {"root":…, "kw":{…build kwargs…}, "env":{…}, "observe": bool}
stdout: one JSON result per line. pytask is imported once; each build runs in a fresh fork, so interpreter
state never leaks from one build into the next (children exit), and the import cost is paid once.
PYTHONHASHSEED is fixed per server (set by the parent).
"""
import json
import os
import sys
import traceback


def child(job, wfd):
    res = {"raised": None}
    try:
        os.environ.update(job.get("env", {}))
        dn = os.open(os.devnull, os.O_RDWR)
        os.dup2(dn, 0)
        if not job.get("keep_out"):
            os.dup2(dn, 1)
            os.dup2(dn, 2)
        os.chdir(job.get("cwd") or job["root"])       # optional job key "cwd": the directory the build is started from
        sys.path.insert(0, job["root"])
        import pytask
        kw = dict(job["kw"])
        if "max_failures" in kw and kw["max_failures"] is None:
            kw["max_failures"] = float("inf")
        try:
            # optional job key "paths": sub-directories of the project to build (relative); default = the whole project
            paths = [os.path.join(job["root"], p) for p in job["paths"]] if job.get("paths") else [job["root"]]
            if job.get("tasks_from"):
                # optional job key "tasks_from": {"module": name, "names": [function names…], "with_paths": bool} — the functions are
                # imported from a module of the project and handed to build(tasks=[…]) as objects (a name may occur twice)
                import importlib
                mod = importlib.import_module(job["tasks_from"]["module"])
                kw["tasks"] = [getattr(mod, n) for n in job["tasks_from"]["names"]]
                if not job["tasks_from"].get("with_paths"):
                    paths = ()
            if job.get("as_tasks"):
                # optional job key "as_tasks": every task module of the project (task_*.py, sub-directories included) is imported
                # here and ALL its task functions are handed to build(tasks=[…]); nothing is collected from paths
                import importlib.util
                from pathlib import Path as _P
                fns = []
                for k, f in enumerate(sorted(_P(job["root"]).rglob("task_*.py"))):
                    sp = importlib.util.spec_from_file_location(f"_verif_prog_{k}_{f.stem}", f)
                    m = importlib.util.module_from_spec(sp)
                    sp.loader.exec_module(m)
                    for n, o in vars(m).items():
                        if callable(o) and getattr(o, "__module__", None) == m.__name__ and (n.startswith("task_") or hasattr(o, "pytask_meta")):
                            if o not in fns:
                                fns.append(o)
                kw["tasks"] = fns
                paths = ()
            if job.get("raw_paths"):                  # optional: the project addressed through another spelling (relative, alias), verbatim
                paths = list(job["raw_paths"])
            session = pytask.build(paths=paths, **kw)
        except BaseException as e:  # noqa: BLE001
            res["raised"] = type(e).__name__
            session = None
        if session is not None:
            res["exit"] = int(session.exit_code)
            reps = []
            for r in getattr(session, "execution_reports", []):
                t = r.task
                reps.append([getattr(t, "base_name", None) or t.name, r.outcome.name,
                             type(r.exc_info[1]).__name__ if r.exc_info else None])
            res["reports"] = reps
            res["collected"] = sorted((getattr(t, "base_name", None) or t.name) for t in getattr(session, "tasks", []))
            res["collect_fail"] = sum(1 for r in getattr(session, "collection_reports", []) if r.outcome.name == "FAIL")
            res["dag_fail"] = getattr(session, "dag_report", None) is not None
            if job.get("sections"):
                res["sections"] = {(getattr(r.task, "base_name", None) or r.task.name): r.sections for r in session.execution_reports}
    except BaseException:  # noqa: BLE001
        res["harness_error"] = traceback.format_exc()[-1500:]
    try:
        os.write(wfd, (json.dumps(res) + "\n").encode())
    finally:
        os._exit(0)


def main():
    import pytask  # noqa: F401  (pay the import once)
    import _pytask.build  # noqa: F401
    out = sys.stdout
    for line in sys.stdin:
        line = line.strip()
        if not line:
            continue
        job = json.loads(line)
        r, w = os.pipe()
        pid = os.fork()
        if pid == 0:
            os.close(r)
            child(job, w)
        os.close(w)
        chunks = []
        while True:
            b = os.read(r, 65536)
            if not b:
                break
            chunks.append(b)
        os.close(r)
        _, status = os.waitpid(pid, 0)
        data = b"".join(chunks).decode().strip()
        if data:
            res = json.loads(data.splitlines()[-1])
        else:
            res = {"died": True}
        res["status"] = os.waitstatus_to_exitcode(status)
        out.write(json.dumps(res) + "\n")
        out.flush()


if __name__ == "__main__":
    main()
