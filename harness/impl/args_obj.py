"""C07 stream (d): node and task OBJECTS that live through collection order and several builds of one process.

(1) shared PythonNode objects: one `PythonNode` object is the return product of a producer and (a leaf of) a dependency of consumers;
    with / without an initial value, hashed or not; the consumer collected before or after the producer (function names, `@task(name=…)`,
    two modules); one build from task modules, or two builds in one process over the same function objects (`pytask.build(tasks=[…])`),
    the producer returning another value in the second build.
    Oracle: every consumer parameter is its declared tree with each node leaf replaced by the value the producer returned IN THIS BUILD.
(2) hand-built task objects (`TaskWithoutPath`) and functions with `DirectoryNode` dependencies (also inside nested containers), the same
    objects handed to 2–3 builds in one process while the set of matching files grows and shrinks.
    Oracle: at the position of a directory pattern the function finds exactly the files that match NOW.

A case = {"files": {name: source/text}, "steps": […], "objects": bool, "expect": [ {log name: {param: canonical text}} per build ], "tag": …}
"""
from __future__ import annotations

import json
import os
import shutil
import subprocess
from concurrent.futures import ThreadPoolExecutor
from pathlib import Path

import common
from impl import args_api, tree_api
from impl.tree_api import enc

HEAD = ("from pathlib import Path\nfrom typing import Annotated, Any\nimport pytask\n"
        "from pytask import task, Product, PythonNode, PathNode, DirectoryNode, TaskWithoutPath\nfrom c07rt import ROOT, body\n\n")


def emit(t, leaf):
    k = t[0]
    if k == "leaf":
        return leaf(t[1])
    if k == "list":
        return "[" + ", ".join(emit(c, leaf) for c in t[1]) + "]"
    if k == "tuple":
        return "(" + "".join(emit(c, leaf) + ", " for c in t[1]) + ")"
    return "{" + ", ".join(f"{key!r}: {emit(c, leaf)}" for key, c in t[1]) + "}"


def gen_tree(rng, leaves, depth=2):
    """a container tree over the given leaf tokens (each used once) plus some plain values"""
    items = [["leaf", l] for l in leaves] + [["leaf", rng.choice(["v1", "v7", "vtab", "vNone"])] for _ in range(rng.randint(0, 2))]
    rng.shuffle(items)

    def pack(xs, d):
        if len(xs) == 1 and (d == 0 or rng.random() < 0.3):
            return xs[0]
        if d == 0 or len(xs) <= 2 or rng.random() < 0.5:
            kids = xs
        else:
            cut = rng.randint(1, len(xs) - 1)
            kids = [pack(xs[:cut], d - 1), pack(xs[cut:], d - 1)]
        kind = rng.choice(["list", "tuple", "dict"])
        if kind == "dict":
            return ["dict", [[key, c] for key, c in zip(rng.sample(["a", "b", "C", "d", "k2"], len(kids)), kids)]]
        return [kind, list(kids)]
    return pack(items, depth)


# ---------------------------------------------------------------------------------------------
# (1) shared PythonNode objects
# ---------------------------------------------------------------------------------------------

def gen_pynode_case(rng, cid):
    objects = rng.random() < 0.5
    nnodes = rng.randint(1, 2)
    nodes = []
    for i in range(nnodes):
        nodes.append({"var": f"N{i}", "initial": rng.choice([None, None, 0, 5]), "hash": rng.random() < 0.4, "k": rng.randint(1, 9)})
    if objects:
        for n in nodes:
            n["hash"] = n["hash"] or rng.random() < 0.5
    consumer_first = rng.random() < 0.6
    pfx_c, pfx_p = ("a", "z") if consumer_first else ("z", "a")
    two_modules = (not objects) and rng.random() < 0.4
    deco_names = rng.random() < 0.3
    defs = "".join(f'{n["var"]} = PythonNode(name="{cid}_{n["var"]}"' + (f', value={n["initial"]}' if n["initial"] is not None else "")
                   + (", hash=True" if n["hash"] else "") + ")\n" for n in nodes)
    prod_src, cons_src, funcs = "", "", []
    for n in nodes:
        fn = f"task_{pfx_p}_{cid}_p{n['var']}"
        deco = f'@task(name="{fn}")\n' if deco_names else ""
        real = ("fn_" + fn[5:]) if deco_names else fn
        prod_src += (f'{deco}def {real}(src=Path("{cid}_ver.txt")) -> Annotated[Any, {n["var"]}]:\n'
                     f'    return int(src.read_text()) * 1000 + {n["k"]}\n\n')
        funcs.append(real)
    consumers = []
    for j in range(rng.randint(1, 2)):
        used = rng.sample(nodes, rng.randint(1, len(nodes)))
        name = f"{cid}c{j}"
        fn = f"task_{pfx_c}_{name}"
        form = rng.choice(["annot", "default", "default", "kwargs"])
        if form == "annot" and len(used) == 1:
            tree = ["leaf", "@" + used[0]["var"]]
            sig, deco = f'x: Annotated[Any, {used[0]["var"]}]', ""
        else:
            tree = gen_tree(rng, ["@" + u["var"] for u in used])
            expr = emit(tree, lambda tok: tok[1:] if tok[0] == "@" else args_api.leaf_expr(tok, True))
            if form == "kwargs":
                sig, deco = "x", f'kwargs={{"x": {expr}}}'
            else:
                sig, deco = f"x={expr}", ""
        dn = deco_names or bool(deco)
        parts = ([f'name="{fn}"'] if deco_names else []) + ([deco] if deco else [])
        real = ("fn_" + fn[5:]) if deco_names else fn
        cons_src += ((f"@task({', '.join(parts)})\n" if dn else "") + f"def {real}({sig}):\n    body({name!r}, dict(x=x), [])\n\n")
        funcs.append(real)
        consumers.append({"log": name, "tree": tree})
    files = {f"{cid}_ver.txt": "1"}
    if objects:
        files["c07objs.py"] = HEAD + defs + "\n" + prod_src + cons_src + f"def make():\n    return [{', '.join(funcs if not consumer_first else funcs[len(nodes):] + funcs[:len(nodes)])}]\n"
        second = rng.choice([{"force": True}, {}])
        steps = [["build"], ["text", f"{cid}_ver.txt", "2"], ["build", second]]
        vers = [1, 2]
    elif two_modules:
        files["c07shared.py"] = "from pytask import PythonNode\n" + defs
        imp = "from c07shared import " + ", ".join(n["var"] for n in nodes) + "\n\n"
        files[f"task_{pfx_p}_{cid}.py"] = HEAD + imp + prod_src
        files[f"task_{pfx_c}_{cid}.py"] = HEAD + imp + cons_src
        steps, vers = [["build"]], [1]
    else:
        files[f"task_{cid}.py"] = HEAD + defs + "\n" + ((cons_src + prod_src) if rng.random() < 0.5 else (prod_src + cons_src))
        steps, vers = [["build"]], [1]
    expect = []
    for v in vers:
        val = {n["var"]: v * 1000 + n["k"] for n in nodes}
        expect.append({c["log"]: {"x": enc(c["tree"], leaf=lambda l, val=val: f"v{val[l[1][1:]]}" if l[1][0] == "@" else args_api.dep_obj(l[1]))} for c in consumers})
    return {"tag": "pynode", "files": files, "steps": steps, "objects": objects, "expect": expect,
            "info": {"initial": [n["initial"] for n in nodes], "hash": [n["hash"] for n in nodes], "consumer_first": consumer_first,
                     "objects": objects, "two_modules": two_modules, "task_names": deco_names}}


# ---------------------------------------------------------------------------------------------
# (2) task objects / functions with DirectoryNode dependencies over several builds
# ---------------------------------------------------------------------------------------------

def gen_dir_case(rng, cid):
    ndirs = rng.randint(1, 2)
    dirs = [f"{cid}d{i}" for i in range(ndirs)]
    present = {d: set(rng.sample(["a", "b", "c"], rng.randint(0, 2))) for d in dirs}
    files = {}
    for d in dirs:
        for f in present[d]:
            files[f"{d}_{f}.txt"] = "x"
    files[f"{cid}_in.txt"] = "input"
    tasks, src, specs = [], "", []
    for j in range(rng.randint(1, 2)):
        used = rng.sample(dirs, rng.randint(1, ndirs))
        name = f"{cid}o{j}"
        tree = gen_tree(rng, ["%" + d for d in used] + (["p" + f"{cid}_in"] if rng.random() < 0.5 else []))
        style = rng.choice(["object", "object", "function"])
        if style == "object":
            def leaf(tok, name=name):
                if tok[0] == "%":
                    return f'DirectoryNode(name="{name}_{tok[1:]}", root_dir=ROOT, pattern="{tok[1:]}_*.txt")'
                if tok[0] == "p":
                    return f'PathNode(name="{tok[1:]}", path=ROOT / "{tok[1:]}.txt")'
                return f'PythonNode(name="{name}_{abs(hash(tok)) % 1000}", value={args_api.leaf_expr(tok, True)})'
            src += (f"def f_{name}(x):\n    body({name!r}, dict(x=x), [], sort_paths=True)\n\n"
                    f'OBJ_{name} = TaskWithoutPath(name="{name}", function=f_{name}, depends_on={{"x": {emit(tree, leaf)}}})\n\n')
            tasks.append(f"OBJ_{name}")
        else:
            def leaf(tok):
                if tok[0] == "%":
                    return f'DirectoryNode(root_dir=ROOT, pattern="{tok[1:]}_*.txt")'
                return args_api.leaf_expr(tok, True)
            src += f"def task_{name}(x={emit(tree, leaf)}):\n    body({name!r}, dict(x=x), [], sort_paths=True)\n\n"
            tasks.append(f"task_{name}")
        specs.append({"log": name, "tree": tree})
    files["c07objs.py"] = HEAD + src + f"def make():\n    return [{', '.join(tasks)}]\n"

    def expected():
        def go(t):
            k = t[0]
            if k == "leaf":
                if t[1][0] == "%":
                    return "L[" + ",".join(f"*p{t[1][1:]}_{f}" for f in sorted(present[t[1][1:]])) + "]"
                return "*" + args_api.dep_obj(t[1])
            if k == "list":
                return "L[" + ",".join(go(c) for c in t[1]) + "]"
            if k == "tuple":
                return "U[" + ",".join(go(c) for c in t[1]) + "]"
            return "D[" + ",".join(f"{tree_api.key_tok(kk)}:{go(c)}" for kk, c in sorted(t[1], key=lambda kv: kv[0])) + "]"
        return {sp["log"]: {"x": go(sp["tree"])} for sp in specs}
    steps, expect = [["build"]], [expected()]
    for _ in range(rng.randint(1, 2)):
        for d in dirs:
            for f in ["a", "b", "c"]:
                r = rng.random()
                if f in present[d] and r < 0.35:
                    present[d].discard(f)
                    steps.append(["rm", f"{d}_{f}.txt"])
                elif f not in present[d] and r < 0.45:
                    present[d].add(f)
                    steps.append(["text", f"{d}_{f}.txt", "x"])
        steps.append(["build", {"force": True}])
        expect.append(expected())
    return {"tag": "dirnode", "files": files, "steps": steps, "objects": True, "expect": expect, "info": {"dirs": ndirs}}


# ---------------------------------------------------------------------------------------------
# running and judging
# ---------------------------------------------------------------------------------------------

def run_cases(cases, nproc=4):
    def one(case):
        root = common.scratch_dir("c07o")
        try:
            (root / "pyproject.toml").write_text("[tool.pytask.ini_options]\n")
            (root / "c07rt.py").write_text(args_api.RT)
            for name, txt in case["files"].items():
                (root / name).write_text(txt)
            p = subprocess.run([common.PY, str(args_api.SEQ_WORKER)],
                               input=json.dumps({"root": str(root), "steps": case["steps"], "objects": case["objects"]}),
                               capture_output=True, text=True, env=dict(os.environ, PYTHONDONTWRITEBYTECODE="1"), cwd="/")
            if p.returncode != 0 or not p.stdout.strip():
                raise common.InfraError(f"object-sequence worker failed: {p.stderr[-800:]}")
            return json.loads(p.stdout.strip().splitlines()[-1])
        finally:
            shutil.rmtree(root, ignore_errors=True)
    with ThreadPoolExecutor(max_workers=nproc) as ex:
        return list(ex.map(one, cases))


def check_cases(ctx, cases, results):
    for case, builds in zip(cases, results):
        ctx.case(["obj", case["files"], case["steps"]], True,
                 {"tag": case["tag"], "info": case["info"], "steps": case["steps"], "received": [b["logs"] for b in builds]})
        ctx.dist[f"obj:{case['tag']}:builds={len(builds)}"] += 1
        for i, (b, want) in enumerate(zip(builds, case["expect"])):
            if b.get("raised"):
                raise common.InfraError(f"build {i} of an object sequence raised {b['raised']}")
            for log, params in want.items():
                got = b["logs"].get(log)
                if got is None:
                    if i == 0 or case["tag"] == "dirnode":
                        ctx.violation(f"kwargs: {case['tag']}: build {i + 1}: task {log} did not run its body (reports {b['reports']})",
                                      {"layer": "obj", "case": case})
                    continue
                ctx.dist[f"obj:{case['tag']}:judged-build-{i + 1}"] += 1
                for pname, w in params.items():
                    if got.get(pname) != w:
                        ctx.violation(f"kwargs: {case['tag']}: build {i + 1} of {len(builds)} in one process: task {log}: parameter {pname!r} "
                                      f"received {got.get(pname)}, expected {w} ({case['info']})", {"layer": "obj", "case": case})


def gen_cases(ctx):
    rng = ctx.rng
    return [gen_pynode_case(rng, f"y{i}") for i in range(ctx.scale(10, 80))] + [gen_dir_case(rng, f"w{i}") for i in range(ctx.scale(6, 50))]


def start(ctx):
    """generate the cases (all random draws happen here) and run them in the background; `finish` judges them"""
    from concurrent.futures import ThreadPoolExecutor as _T
    cases = gen_cases(ctx)
    ex = _T(max_workers=1)
    return cases, ex, ex.submit(run_cases, cases, 6 if ctx.thorough else 3)


def finish(ctx, handle):
    cases, ex, fut = handle
    try:
        check_cases(ctx, cases, fut.result())
    finally:
        ex.shutdown(wait=False)


def campaign(ctx):
    finish(ctx, start(ctx))
