"""Run one real `pytask.build(paths=…, **kwargs)` in this (fresh) interpreter and report what was collected/executed.

argv[1]: JSON {"paths": [...], "kwargs": {...}, "out": <result file>, "chdir": <dir or null>}
result : {"exit_code": int, "tasks": [{"name", "signature", "base_name", "path", "tag"}],
          "collection": [{"outcome", "node", "exc"}], "execution": [{"name", "signature", "outcome"}], "crash": null | str}
`tag` identifies the *function body* behind a task (a "TAG:<id>" string constant in its code, defaults,
closure or partial arguments) so that "which declared function became which task" does not rely on names.
"""
from __future__ import annotations

import functools
import json
import os
import sys
import types


def tag_of(fn, depth: int = 0):
    if depth > 6 or fn is None:
        return None

    def from_val(v):
        if isinstance(v, str) and v.startswith("TAG:"):
            return v
        return None

    if isinstance(fn, functools.partial):
        for v in list(fn.args) + list((fn.keywords or {}).values()):
            if from_val(v):
                return from_val(v)
        return tag_of(fn.func, depth + 1)
    wrapped = getattr(fn, "__wrapped__", None)
    code = getattr(fn, "__code__", None)
    if code is not None:
        stack = [code]
        while stack:
            c = stack.pop()
            for k in c.co_consts:
                if from_val(k):
                    return from_val(k)
                if isinstance(k, types.CodeType):
                    stack.append(k)
        for v in (getattr(fn, "__defaults__", None) or ()):
            if from_val(v):
                return from_val(v)
        for v in (getattr(fn, "__kwdefaults__", None) or {}).values():
            if from_val(v):
                return from_val(v)
        for cell in (getattr(fn, "__closure__", None) or ()):
            try:
                v = cell.cell_contents
            except ValueError:
                continue
            if from_val(v):
                return from_val(v)
            if callable(v):
                t = tag_of(v, depth + 1)
                if t:
                    return t
    if wrapped is not None:
        return tag_of(wrapped, depth + 1)
    return None


def main() -> int:
    job = json.loads(sys.argv[1])
    if job.get("chdir"):
        os.chdir(job["chdir"])
    import pytask

    res = {"exit_code": None, "tasks": [], "collection": [], "execution": [], "crash": None}
    try:
        session = pytask.build(paths=job["paths"], **job.get("kwargs", {}))
    except BaseException as e:  # noqa: BLE001
        res["crash"] = f"{type(e).__name__}: {e}"[:300]
    else:
        res["exit_code"] = int(session.exit_code)
        for t in getattr(session, "tasks", []):
            res["tasks"].append({
                "name": getattr(t, "name", None),
                "signature": getattr(t, "signature", None),
                "base_name": getattr(t, "base_name", None),
                "path": os.fspath(t.path) if getattr(t, "path", None) is not None else None,
                "tag": tag_of(getattr(t, "function", None)),
            })
        for r in getattr(session, "collection_reports", []):
            node = getattr(r, "node", None)
            exc = r.exc_info[0].__name__ if getattr(r, "exc_info", None) else None
            res["collection"].append({"outcome": r.outcome.name, "node": getattr(node, "name", None), "exc": exc,
                                      "tag": tag_of(getattr(node, "function", None)) if node is not None else None})
        for r in getattr(session, "execution_reports", []):
            res["execution"].append({"name": r.task.name, "signature": r.task.signature, "outcome": r.outcome.name})
    with open(job["out"], "w") as f:
        json.dump(res, f)
    return 0


if __name__ == "__main__":
    sys.exit(main())
