"""C11 campaign: real `pytask clean` on generated projects vs the Lean model M8 + an independent set-based oracle.

Streams
  cli      generated projects (trees, task modules with declared path nodes, git states, exclude patterns, flags)
           run through the real command (dry-run, then force / interactive) in worker processes
  dirnode  the same with a DirectoryNode dependency / product (labelled stream, finding F16)
  exh      every tree with ≤ n entries × every known / excluded assignment on `_RecursivePathNode` directly
  pmatch   `PurePosixPath.match` vs the model on pattern/path pairs from a small alphabet
"""
from __future__ import annotations

import itertools
import json
import os
import subprocess
from concurrent.futures import ThreadPoolExecutor
from pathlib import Path, PurePosixPath

import common

WORKER = Path(__file__).resolve().parent / "clean_worker.py"
EXH_WORKER = Path(__file__).resolve().parent / "clean_exh_worker.py"
V = "/v/ws"                       # virtual absolute path of the workspace in the model
GEN_BOTH_SOURCES = False          # -e together with a config `exclude` key: click 8.5 lets the file win (environment, see Limits)

FILE_NAMES = ["a.txt", "b.txt", "c.dat", "d.keep", "x", "y.tmp", "n.log", "f[1].txt", "z.csv",
              # names git quotes in its line-oriented output (non-ASCII, double quote, backslash) and a name with a space;
              # Latin-1 only (the protocol writes one byte per character), no control characters (the listing is read from lines)
              "donn\u00e9es.csv", "gr\u00f6\u00dfe.txt", "sp ace.txt", 'qu"ote.txt', "back\\slash.dat"]
DIR_NAMES = ["src", "bld", "data", "sub", "deep", "e", "out", "lib", "d\u00e9 p\u00f4t"]
NODE_KINDS = ["path", "path", "path", "path", "pickle", "custom", "catalog", "catalog_pickle"]   # how a declared path is wrapped


# ---------------------------------------------------------------------------------------------
# protocol encoding
# ---------------------------------------------------------------------------------------------

def enc(s: str, keep_slash: bool = False) -> str:
    out = []
    for ch in s:
        if ch.isascii() and (ch.isalnum() or ch in "._-") or (keep_slash and ch == "/"):
            out.append(ch)
        else:
            out.append("%%%02x" % ord(ch))
    return "".join(out)


def enc_path(p: str) -> str:
    """'/v/ws/a b' -> '/v/ws/a%20b' (also relative paths)."""
    lead = "/" if p.startswith("/") else ""
    return lead + "/".join(enc(c) for c in p.split("/") if c)


def dec(s: str) -> str:
    out, i = [], 0
    while i < len(s):
        if s[i] == "%" and i + 2 < len(s) + 0 and all(c in "0123456789abcdefABCDEF" for c in s[i + 1:i + 3]) and len(s[i + 1:i + 3]) == 2:
            out.append(chr(int(s[i + 1:i + 3], 16)))
            i += 3
        else:
            out.append(s[i])
            i += 1
    return "".join(out)


def dec_paths(s: str) -> set[str]:
    return {dec(x) for x in s.split(",") if x}


def parse_answer(ans: str) -> dict[str, str]:
    out = {}
    for tok in ans.split(" "):
        if "=" in tok:
            k, v = tok.split("=", 1)
            out[k] = v
    return out


def tree_tokens(paths: dict[str, str], top: str) -> str:
    """paths: rel path -> kind ('d' or 'f…'); pre-order tokens for the subtree named `top`."""
    kids: dict[str, list[str]] = {}
    for p in paths:
        parent = p.rsplit("/", 1)[0] if "/" in p else ""
        kids.setdefault(parent, []).append(p)
    toks: list[str] = []

    def go(p: str):
        name = p.rsplit("/", 1)[-1]
        if paths[p] == "d":
            toks.append("d:" + enc(name))
            for c in sorted(kids.get(p, [])):
                go(c)
            toks.append("u")
        else:
            toks.append("f:" + enc(name))

    go(top)
    return ",".join(toks)


# ---------------------------------------------------------------------------------------------
# generators (everything derives from the rng handed in)
# ---------------------------------------------------------------------------------------------

def gen_tree(rng, budget: int, depth: int, used: set[str] | None = None) -> list:
    """Nested entries [['f', name] | ['d', name, children]] with at most `budget` entries in total."""
    out, names = [], set()
    n_here = rng.randint(0, min(budget, 6))
    left = budget - n_here
    for _ in range(n_here):
        if depth > 0 and rng.random() < 0.42:
            name = rng.choice(DIR_NAMES)
            if name in names:
                continue
            names.add(name)
            sub_budget = rng.randint(0, max(0, left)) if rng.random() < 0.8 else 0   # empty dirs are wanted
            sub = gen_tree(rng, sub_budget, depth - 1)
            left -= count_entries(sub)
            out.append(["d", name, sub])
        else:
            name = rng.choice(FILE_NAMES)
            if name in names:
                continue
            names.add(name)
            out.append(["f", name])
    return out


def count_entries(tree: list) -> int:
    return sum(1 + (count_entries(e[2]) if e[0] == "d" else 0) for e in tree)


def flatten(tree: list, pre: str = "") -> tuple[list[str], list[str]]:
    files, dirs = [], []
    for e in tree:
        p = f"{pre}/{e[1]}" if pre else e[1]
        if e[0] == "f":
            files.append(p)
        else:
            dirs.append(p)
            f2, d2 = flatten(e[2], p)
            files += f2
            dirs += d2
    return files, dirs


CUSTOM_NODE_SRC = '''
class JsonNode:
    """A user-defined node class that implements the PPathNode protocol (it does not derive from any pytask class)."""

    def __init__(self, path, name=""):
        self.path = Path(path)
        self.name = name or self.path.as_posix()
        self.attributes = {}

    @property
    def signature(self):
        import hashlib
        return hashlib.sha256(self.path.as_posix().encode()).hexdigest()

    def state(self):
        return str(self.path.stat().st_mtime) if self.path.exists() else None

    def load(self, is_product=False):
        return self.path

    def save(self, value):
        self.path.write_text(str(value))
'''


def module_text(root_rel: str, mod_rel: str, tasks: list[dict]) -> str:
    """A task module. Node paths are given relative to the module's directory when they are below it, else as absolute
    paths under the (substituted) workspace; declaration styles and node classes vary: plain `Path`, `PickleNode`, a
    user-defined PPathNode class, entries of a `DataCatalog` registered with an explicit path / PickleNode."""
    mod_dir = mod_rel.rsplit("/", 1)[0] if "/" in mod_rel else ""
    kinds = {k for t in tasks for k in t.get("depkinds", []) + t.get("prodkinds", [])}
    L = ["from pathlib import Path", "from typing import Annotated",
         "from pytask import DataCatalog, DirectoryNode, PickleNode, Product, task", "",
         f'R = Path("{{W}}/{root_rel}")', ""]
    if "custom" in kinds:
        L.append(CUSTOM_NODE_SRC)
    cat = "cat_" + "".join(ch if ch.isalnum() else "_" for ch in mod_rel)
    if kinds & {"catalog", "catalog_pickle"}:
        L.append(f"{cat} = DataCatalog(name={cat!r})")
    n_cat = [0]
    defaulted: set[str] = set()
    pre: list[str] = []

    def expr(rel: str, style: int) -> str:
        if style == 0 and (mod_dir == "" or rel.startswith(mod_dir + "/")):
            inner = rel[len(mod_dir) + 1:] if mod_dir else rel
            return f"Path({inner!r})"
        return "R" + "".join(f" / {c!r}" for c in rel.split("/"))

    def absexpr(rel: str) -> str:
        return "R" + "".join(f" / {c!r}" for c in rel.split("/"))

    def arg(name: str, rel: str, style: int, kind: str, product: bool) -> str:
        prod = ", Product" if product else ""
        if kind == "pickle":
            return f"{name}: Annotated[Path, PickleNode(path={absexpr(rel)}){prod}]"
        if kind == "custom":
            return f"{name}: Annotated[Path, JsonNode(path={absexpr(rel)}){prod}]"
        if kind in ("catalog", "catalog_pickle"):
            key = f"k{n_cat[0]}"
            n_cat[0] += 1
            val = absexpr(rel) if kind == "catalog" else f"PickleNode(path={absexpr(rel)})"
            pre.append(f"{cat}.add({key!r}, {val})")
            return f"{name}: Annotated[Path, {cat}[{key!r}]{prod}]"
        defaulted.add(name)
        if product:
            return f"{name}: Annotated[Path, Product] = {expr(rel, style)}"
        return f"{name}: Path = {expr(rel, style)}"

    for t in tasks:
        args = []
        pre.clear()
        defaulted.clear()
        dk = t.get("depkinds", [])
        pkd = t.get("prodkinds", [])
        for i, dn in enumerate(t.get("dirdeps", [])):
            args.append(f"dd{i}: Annotated[list[Path], DirectoryNode(root_dir={expr(dn[0], 1)}, pattern={dn[1]!r})]")
        for i, dn in enumerate(t.get("dirprods", [])):
            args.append(f"dp{i}: Annotated[Path, DirectoryNode(root_dir={expr(dn[0], 1)}, pattern={dn[1]!r}), Product]")
        for i, d in enumerate(t["deps"]):
            args.append(arg(f"d{i}", d, t['style'][i % len(t['style'])], dk[i] if i < len(dk) else "path", False))
        prods = t["prods"]
        pk = t["prodstyle"]
        if prods:
            if pk == 0:
                for i, p in enumerate(prods):
                    args.append(arg(f"p{i}", p, t['style'][i % len(t['style'])], pkd[i] if i < len(pkd) else "path", True))
            elif pk == 1 and len(prods) == 1:
                args.append(f"produces=({expr(prods[0], 0)})")
            elif pk == 2:
                args.append("produces={" + ", ".join(f"'k{i}': {expr(p, 1)}" for i, p in enumerate(prods)) + "}")
            else:
                args.append("produces=[" + ", ".join(expr(p, 0) for p in prods) + "]")
        L += pre
        # arguments without default must precede those with a default
        args.sort(key=lambda a: a.split(":", 1)[0] in defaulted or a.startswith("produces="))
        L.append(f"def task_{t['name']}({', '.join(args)}):")
        L.append("    raise RuntimeError('clean must never execute a task')")
        L.append("")
    return "\n".join(L)


def gen_patterns(rng, files: list[str], dirs: list[str], root_rel: str) -> list[str]:
    """Exclude patterns of the kinds the property names: literal names, *.ext, dir/*, absolute."""
    out = []
    for _ in range(rng.choice([1, 1, 2, 3])):
        k = rng.random()
        f = rng.choice(files) if files else "a.txt"
        d = rng.choice(dirs) if dirs else "bld"
        fname, dname = f.rsplit("/", 1)[-1], d.rsplit("/", 1)[-1]
        ext = fname.rsplit(".", 1)[-1] if "." in fname else "txt"
        if k < 0.18:
            out.append(fname)
        elif k < 0.32:
            out.append(dname)
        elif k < 0.50:
            out.append(f"*.{ext}")
        elif k < 0.64:
            out.append(f"{dname}/*")
        elif k < 0.70:
            out.append(f"{dname}/*.{ext}")
        elif k < 0.78:
            out.append(f"{{W}}/{root_rel}/{rng.choice([f, d])}")
        elif k < 0.84:
            out.append(f"{{W}}/{root_rel}/{d}/*")
        elif k < 0.88:
            out.append("?." + ext)
        elif k < 0.92:
            out.append("[a-c].*")
        elif k < 0.95:
            out.append(f"*/{fname}")
        elif k < 0.97:
            out.append(f"{dname}/")
        else:
            out.append(f"[!a]*.{ext}")
    # the protocol/TOML keep these as they are; an empty pattern makes pathlib raise (not generated)
    return [p for p in dict.fromkeys(out) if p.replace("/", "").replace(".", "") != ""]


def gen_case(rng, cid: str, stream: str = "cli") -> dict:
    layout = rng.choice(["norepo_cfg", "norepo_cfg", "norepo_nocfg", "repo_root_cfg", "repo_root_cfg", "repo_root_nocfg",
                         "repo_above", "repo_above", "repo_above",
                         # the project is a checkout whose `.git` is a FILE: a linked worktree (`git worktree add`) or a
                         # submodule of the outer repository g; with / without own pytask configuration / with a
                         # pyproject.toml that has no pytask section
                         "linked_cfg", "linked_nocfg", "linked_nocfg", "linked_nosection",
                         # mono-repo: m/pyproject.toml is the pytask configuration (with the exclude patterns), the given path is
                         # the sub-package m/pkg which has a pyproject.toml of its own WITHOUT [tool.pytask.ini_options]
                         # (no [tool] / [tool.pytask] empty / [tool.pytask.<plugin>] only / other tools): the parent's file is
                         # the configuration. `nested_childcfg`: the sub-package's file has ini_options, the parent's must not apply.
                         "nested_parentcfg", "nested_parentcfg", "nested_parentcfg", "nested_childcfg"])
    if stream == "dirnode":
        layout = rng.choice(["norepo_cfg", "repo_root_cfg"])
    link_kind = None
    if layout.startswith("linked"):
        link_kind = rng.choice(["worktree", "submodule"])
        git_top = root_rel = "g/w" if link_kind == "worktree" else "g/s"
    elif layout == "nested_parentcfg":
        root_rel = "m"
        git_top = "m" if rng.random() < 0.4 else None
    elif layout == "nested_childcfg":
        git_top, root_rel = None, "m/pkg"
    elif layout == "repo_above":
        git_top = "g"
        root_rel = rng.choice(["g/r", "g/r", "g/m/r"])
    elif layout.startswith("repo_root"):
        git_top = root_rel = "r"
    else:
        git_top, root_rel = None, "r"
    has_cfg = layout.endswith("cfg") and not layout.endswith("nocfg") or layout == "repo_above"

    tree = gen_tree(rng, rng.randint(2, 22), 3)
    if layout == "nested_parentcfg":
        tree = [["d", "pkg", tree]] + [["f", n] for n in rng.sample(["top.txt", "a.txt", "n.log"], rng.randint(0, 2))]
    files, dirs = flatten(tree)
    case_files: dict[str, str] = {f"{root_rel}/{f}": f"content of {f}\n" for f in files}
    case_dirs = [f"{root_rel}/{d}" for d in dirs] + [root_rel]

    # --- task modules with declared path nodes
    modules: dict[str, dict] = {}
    n_mod = rng.choice([0, 1, 1, 2, 3])
    prod_pool_used: set[str] = set()
    place_dirs = [""] + [d for d in dirs if not any(c.startswith(".") for c in d.split("/")) and d.isascii() and " " not in d]
    for mi in range(n_mod):
        md = rng.choice(place_dirs)
        mod_rel = f"{md}/task_m{mi}.py" if md else f"task_m{mi}.py"
        tasks = []
        for ti in range(rng.choice([1, 1, 2])):
            def pick_node():
                r = rng.random()
                if files and r < 0.55:
                    return rng.choice(files)                      # an existing file becomes known
                base = rng.choice([""] + dirs) if r < 0.9 else rng.choice(["gen", "bld/new", "out2"])
                name = rng.choice(["o1.txt", "o2.dat", "res.csv", "a.txt", "new.tmp"])
                return f"{base}/{name}" if base else name
            deps = list(dict.fromkeys(pick_node() for _ in range(rng.choice([0, 1, 1, 2, 3]))))
            prods = []
            for _ in range(rng.choice([0, 1, 1, 2])):
                p = pick_node()
                if p not in prod_pool_used:
                    prod_pool_used.add(p)
                    prods.append(p)
            # a node path must not be an existing directory nor have an existing file as parent
            ok = lambda p: p not in dirs and not any(p.startswith(f + "/") for f in files)  # noqa: E731
            deps = [d for d in deps if ok(d)]
            prods = [p for p in prods if ok(p)]
            t = {"name": f"m{mi}t{ti}", "deps": deps, "prods": prods, "style": [rng.randint(0, 1) for _ in range(3)],
                 "prodstyle": rng.randint(0, 3),
                 "depkinds": [rng.choice(NODE_KINDS) for _ in deps], "prodkinds": [rng.choice(NODE_KINDS) for _ in prods]}
            tasks.append(t)
        modules[mod_rel] = {"tasks": tasks}
    dirnodes = []
    if stream == "dirnode":
        # a DirectoryNode over existing files: the declared dependency/product is the *pattern*
        dn_dir = rng.choice(dirs) if dirs and rng.random() < 0.7 else "data"
        ext = rng.choice(["csv", "txt", "dat"])
        for nm in ("u1", "u2"):
            case_files[f"{root_rel}/{dn_dir}/{nm}.{ext}"] = "row\n"
        case_files.setdefault(f"{root_rel}/{dn_dir}/other.bin", "o\n")
        if f"{root_rel}/{dn_dir}" not in case_dirs:
            case_dirs.append(f"{root_rel}/{dn_dir}")
        kind = rng.choice(["dirdeps", "dirprods"])
        mod_rel = "task_dn.py"
        modules[mod_rel] = {"tasks": [{"name": "dn", "deps": [], "prods": ["dn_out.txt"] if kind == "dirdeps" else [],
                                       "style": [1], "prodstyle": 0, kind: [[dn_dir, f"*.{ext}"]]}]}
        dirnodes.append({"dir": dn_dir, "pattern": f"*.{ext}", "kind": kind})
    for mod_rel, m in modules.items():
        case_files[f"{root_rel}/{mod_rel}"] = module_text(root_rel, mod_rel, m["tasks"])

    # --- exclude patterns and where they come from
    all_files = sorted(set(files) | set(modules))
    src = rng.choice(["none", "cli", "cli", "cfg", "cfg"]) if has_cfg else rng.choice(["none", "cli", "cli"])
    if layout == "nested_parentcfg":
        src = rng.choice(["cfg", "cfg", "cfg", "cli"])
    if GEN_BOTH_SOURCES and has_cfg and rng.random() < 0.1:
        src = "both"
    pats = gen_patterns(rng, all_files, dirs, root_rel) if src != "none" else []
    cli_pats = pats if src in ("cli", "both") else []
    cfg_pats = (pats if src == "cfg" else gen_patterns(rng, all_files, dirs, root_rel)) if src in ("cfg", "both") else None
    if has_cfg:
        cfg = "[tool.pytask.ini_options]\n"
        if cfg_pats is not None:
            cfg += "exclude = [" + ", ".join(json.dumps(p) for p in cfg_pats) + "]\n"
        case_files[f"{root_rel}/pyproject.toml"] = cfg

    if layout == "linked_nosection":
        case_files[f"{root_rel}/pyproject.toml"] = "[tool.black]\nline-length = 88\n"
    if layout == "nested_parentcfg":
        case_files[f"{root_rel}/pkg/pyproject.toml"] = rng.choice([
            '[project]\nname = "pkg"\nversion = "1"\n',                                  # no [tool] at all
            "[tool.pytask]\n",                                                           # the table of pytask, empty
            '[tool.pytask.someplugin]\nexclude = ["nothing"]\n',                          # only a plugin's table below tool.pytask
            "[tool.black]\nline-length = 88\n\n[tool.pytask.other_plugin]\nx = 1\n",
            '[tool.ruff]\nexclude = ["*.txt"]\n'])
    if layout == "nested_childcfg":   # the parent is a pytask project of its own; its patterns must not reach the sub-package
        case_files["m/pyproject.toml"] = ("[tool.pytask.ini_options]\nexclude = ["
                                          + ", ".join(json.dumps(p) for p in gen_patterns(rng, all_files, dirs, root_rel)) + "]\n")

    # --- outside of the project but inside the repository
    outer = []
    if link_kind:
        for nm in rng.sample(["README.md", "LICENSE", "other/o.txt"], rng.randint(1, 2)):
            case_files[f"g/{nm}"] = "outer\n"
            outer.append(f"g/{nm}")
        if rng.random() < 0.5:      # the outer directory is a pytask project of its own
            case_files["g/pyproject.toml"] = "[tool.pytask.ini_options]\n"
            outer.append("g/pyproject.toml")
    if layout == "repo_above":
        for nm in rng.sample(["README.md", "LICENSE", "other/o.txt", "m/side.txt"], rng.randint(1, 3)):
            case_files[f"g/{nm}"] = "outer\n"
            outer.append(f"g/{nm}")

    # --- git state
    git = None
    if git_top:
        cands = sorted(case_files)
        cands = [c for c in cands if c.startswith(git_top + "/")]
        ignore = rng.sample(["*.log", "*.tmp", "bld/", "*.keep"], rng.randint(0, 2))
        if ignore:
            case_files[f"{git_top}/.gitignore"] = "\n".join(ignore) + "\n"
            cands.append(f"{git_top}/.gitignore")
        p_tr = rng.choice([0.2, 0.5, 0.8])
        tracked = [c for c in cands if rng.random() < p_tr]
        rest = [c for c in cands if c not in tracked]
        staged = [c for c in rest if rng.random() < 0.25]
        modify = {c: "changed after commit\n" for c in tracked if rng.random() < 0.1 and not c.endswith((".py", ".toml"))}
        git = {"top": git_top, "tracked": tracked, "staged": staged, "modify_after": modify}
        if link_kind:
            git.update({"kind": link_kind, "outer": "g", "outer_tracked": [o for o in outer if rng.random() < 0.5]})

    # --- flags and paths
    args = []
    if rng.random() < 0.5:
        args.append(rng.choice(["-d", "--directories"]))
    for p in cli_pats:
        args += [rng.choice(["-e", "--exclude"]), p]
    paths, path_rels = [], None
    r = rng.random()
    sub_ok = layout != "norepo_nocfg"
    cwd_rel = root_rel
    if layout == "nested_parentcfg":                             # the sub-package is what is cleaned
        path_rels = ["pkg"]
        k = rng.random()
        if k < 0.35:
            cwd_rel = f"{root_rel}/pkg"                          # `pytask clean` inside the sub-package
        elif k < 0.7:
            paths = ["pkg"]
        else:
            paths = [f"{{W}}/{root_rel}/pkg"]
    elif r < 0.55 or (not sub_ok and r < 0.8):
        pass                                                     # cwd = root
    elif r < 0.7 or not sub_ok:
        paths, path_rels = [f"{{W}}/{root_rel}"], [""]
    else:
        pool = [d for d in dirs] + [f for f in all_files if rng.random() < 0.3]
        pool = [c for c in pool if not any(ch in c for ch in "*?[")]      # parse_paths globs its arguments
        rng.shuffle(pool)
        chosen: list[str] = []
        for c in pool:
            if len(chosen) >= rng.choice([1, 1, 2]):
                break
            if not any(c == o or c.startswith(o + "/") or o.startswith(c + "/") for o in chosen):
                chosen.append(c)
        if chosen:
            path_rels = chosen
            paths = [c if rng.random() < 0.5 else f"{{W}}/{root_rel}/{c}" for c in chosen]
    inter = rng.random() < 0.12
    steps = [{"mode": rng.choice(["default", "dry-run"])}]
    if inter:
        steps.append({"mode": "interactive", "input": "".join(rng.choice(["y\n", "n\n", "\n"]) for _ in range(60))})
    else:
        steps.append({"mode": "force"})
    return {"id": cid, "stream": stream, "layout": layout, "root": root_rel, "git": git, "cwd": cwd_rel,
            "files": case_files, "dirs": case_dirs, "args": args, "paths": paths, "path_rels": path_rels,
            "steps": steps, "has_cfg": has_cfg, "cfg_pats": cfg_pats, "cli_pats": cli_pats,
            "modules": modules, "dirnodes": dirnodes, "outer": outer}


# ---------------------------------------------------------------------------------------------
# running the real command
# ---------------------------------------------------------------------------------------------

def run_workers(cases: list[dict], nproc: int = 14) -> dict[str, dict]:
    nproc = max(1, min(nproc, len(cases)))
    chunks = [cases[i::nproc] for i in range(nproc)]

    def one(chunk):
        if not chunk:
            return []
        p = subprocess.run([common.PY, str(WORKER)], input=json.dumps(chunk), capture_output=True, text=True, cwd="/",
                           env=dict(os.environ, PYTHONDONTWRITEBYTECODE="1"))
        if p.returncode != 0:
            raise common.InfraError(f"clean worker failed: {p.stderr[-1200:]}")
        return json.loads(p.stdout)

    with ThreadPoolExecutor(max_workers=nproc) as ex:
        res = list(ex.map(one, chunks))
    return {o["id"]: o for r in res for o in r}


# ---------------------------------------------------------------------------------------------
# interpretation of one observation
# ---------------------------------------------------------------------------------------------

def given_paths(case: dict) -> list[str]:
    """Workspace-relative paths of session.config['paths'] (cwd = root when none is given)."""
    if case["path_rels"] is None:
        return [case["root"]]
    return [f"{case['root']}/{c}" if c else case["root"] for c in case["path_rels"]]


def under(p: str, q: str) -> bool:
    return p == q or p.startswith(q + "/")


def resolve_printed(printed: list[str], roots: list[str], snap: dict[str, str]) -> list[str] | None:
    """Invert `relative_to(path, common_ancestor)` (prints `<ancestor name>/<relative path>`): find the ancestor A of the
    given paths for which every printed string names an existing entry and A is the common ancestor of all of them."""
    if not printed:
        return []
    base = os.path.commonpath(["/" + r for r in roots]).lstrip("/")
    cand_a = [base]
    while "/" in cand_a[-1]:
        cand_a.append(cand_a[-1].rsplit("/", 1)[0])
    for a in cand_a:
        name = a.rsplit("/", 1)[-1]
        parent = a.rsplit("/", 1)[0] if "/" in a else ""
        res = []
        for s in printed:
            s = s.rstrip("/")
            if s != name and not s.startswith(name + "/"):
                res = None
                break
            full = f"{parent}/{s}" if parent else s
            if full not in snap and not any(a in snap and "/.git/" in a + "/" for a in ancestors(full)):
                res = None
                break
            res.append(full)
        if res is None:
            continue
        if os.path.commonpath(["/" + x for x in res + roots]).lstrip("/") == a:
            return res
    return None


def ancestors(p: str) -> list[str]:
    parts = p.split("/")
    return ["/".join(parts[:i]) for i in range(1, len(parts))]


def covered(listed: list[str], snap: dict[str, str]) -> set[str]:
    out = set(listed)
    for p in snap:
        if any(p.startswith(l + "/") for l in listed):
            out.add(p)
    return out


def collected_modules(case: dict, roots: list[str]) -> list[str]:
    return [f"{case['root']}/{m}" for m in case["modules"] if any(under(f"{case['root']}/{m}", r) for r in roots)]


def declared_nodes(case: dict, roots: list[str]) -> list[str]:
    out = []
    for m, spec in case["modules"].items():
        if any(under(f"{case['root']}/{m}", r) for r in roots):
            for t in spec["tasks"]:
                out += [f"{case['root']}/{n}" for n in t["deps"] + t["prods"]]
    return sorted(set(out))


def effective_patterns(case: dict) -> list[str]:
    """The user's exclude patterns as pytask sees them. (click 8.5: a config `exclude` key wins over -e.)"""
    if case["cfg_pats"] is not None:
        return list(case["cfg_pats"])
    return list(case["cli_pats"])


def spec_patterns(case: dict) -> list[str]:
    """Patterns in the sense of the property: from the command line and from the configuration file."""
    return list(dict.fromkeys((case["cfg_pats"] or []) + case["cli_pats"]))


def forbidden_categories(case: dict, obs: dict, snap: dict[str, str], roots: list[str]) -> dict[str, set[str]]:
    """The spec, as sets of workspace-relative paths. Independent of the Lean model."""
    root = case["root"]
    cats: dict[str, set[str]] = {}
    cats["task-module"] = set(collected_modules(case, roots))
    cats["declared-node"] = set(declared_nodes(case, roots))
    cats["config"] = {f"{root}/pyproject.toml"} if case["has_cfg"] else set()
    cats["git-tracked"] = set(obs.get("git_ls", []))
    # the `.git` FILE of a linked worktree / submodule is the checkout's connection to its repository
    cats["git-link-file"] = {f"{case['git']['top']}/.git"} if case["git"] and snap.get(f"{case['git']['top']}/.git", "d") != "d" else set()
    cats["pytask-dir"] = {p for p in snap if p.startswith(f"{root}/.pytask/")}
    ex = set()
    pats = [p.replace("{W}", V) for p in spec_patterns(case)]
    for p in snap:
        pp = PurePosixPath(f"{V}/{p}")
        if any(pp.match(pat) for pat in pats):
            ex.add(p)
    cats["exclude-match"] = ex
    # the contents of an excluded directory that is reached from a given path (a path given explicitly *inside* an
    # excluded directory is walked from there: its ancestors are not looked at)
    cats["below-excluded-dir"] = {p for p in snap for r in roots if under(p, r)
                                  for e in ex if snap.get(e) == "d" and p.startswith(e + "/") and under(e, r)}
    cats["outside-paths"] = {p for p in snap if not any(under(p, r) for r in roots)}
    cats["directory-node-match"] = directory_node_matches(case, snap, roots)
    return cats


def directory_node_matches(case: dict, snap: dict[str, str], roots: list[str]) -> set[str]:
    """Files a DirectoryNode(root_dir, pattern) declared by a *collected* task resolves to (patterns generated here
    have one component; the declaring module is `task_dn.py` in the project root)."""
    root = case["root"]
    dn = set()
    if not any(under(f"{root}/{m}", r) for m in case["modules"] if m == "task_dn.py" for r in roots):
        return dn
    for d in case.get("dirnodes", []):
        for p in snap:
            par = f"{root}/{d['dir']}"
            if p.startswith(par + "/") and "/" not in p[len(par) + 1:] and snap[p] != "d" and PurePosixPath(p).match(d["pattern"]):
                dn.add(p)
    return dn


def classify(case: dict, hit_cats: set[str], path: str) -> str | None:
    """Known-finding classes (narrow)."""
    if hit_cats == {"git-tracked"} and case["layout"] == "repo_above" and case["git"] and case["root"] != case["git"]["top"] \
            and under(path, case["root"]):
        return "F9"      # project root strictly below the repository top-level; the path is tracked and nothing else
    if hit_cats == {"directory-node-match"}:
        return "F16"     # the file is only protected by matching a declared DirectoryNode pattern
    return None


def model_line(case: dict, obs: dict, snap: dict[str, str], roots: list[str], mode: str, yes: list[str]) -> str:
    root = case["root"]
    git = case["git"]
    top = git["top"] if git else None
    tracked = [p[len(top) + 1:] for p in obs.get("git_ls", [])] if top else []
    parts = [
        "clean.run", "base=/v", "tree=" + tree_tokens({"ws": "d", **{f"ws/{k}": v for k, v in snap.items()}}, "ws"),
        "roots=" + ",".join(enc_path(f"{V}/{r}") for r in roots),
        "root=" + enc_path(f"{V}/{root}"),
        "config=" + (enc_path(f"{V}/{root}/pyproject.toml") if case["has_cfg"] else "-"),
        "mods=" + ",".join(enc_path(f"{V}/{m}") for m in collected_modules(case, roots)),
        "nodes=" + ",".join(enc_path(f"{V}/{n}") for n in declared_nodes(case, roots)),
        "dnodes=" + ",".join(enc_path(f"{V}/{n}") for n in sorted(directory_node_matches(case, snap, roots))),
        "excl=" + ",".join(enc(p.replace("{W}", V)) for p in effective_patterns(case)),
        "dirs=" + ("1" if any(a in ("-d", "--directories") for a in case["args"]) else "0"),
        "mode=" + mode,
        "yes=" + ",".join(enc_path(f"{V}/{y}") for y in yes),
        "git=1", "top=" + (enc_path(f"{V}/{top}") if top else "-"),
        "tracked=" + ",".join(enc_path(t) for t in tracked),
    ]
    return " ".join(parts)


def strip_v(paths: set[str]) -> set[str]:
    return {p[len(V) + 1:] for p in paths}


def judge(ctx, case: dict, obs: dict, line_sink: list | None = None) -> None:
    """Oracle + model comparison for one observation. Appends to ctx.violations / ctx.disagreements."""
    rp = {"kind": "cli", "case": case}
    if "error" in obs:
        ctx.dist["worker-error"] += 1
        ctx.extra.setdefault("worker_errors", []).append(obs["error"][:200])
        return
    roots = given_paths(case)
    s0 = obs["s0"]
    dry, second = obs["runs"][0], obs["runs"][1]
    s1, s2 = dry["after"], second["after"]
    ctx.dist[f"layout:{case['layout']}"] += 1
    ctx.dist[f"stream:{case['stream']}"] += 1
    ctx.dist["dirs" if "-d" in case["args"] or "--directories" in case["args"] else "files-only"] += 1
    ctx.dist["paths:" + ("cwd" if case["path_rels"] is None else "root" if case["path_rels"] == [""] else "sub")] += 1
    ctx.dist["excl:" + ("cfg" if case["cfg_pats"] is not None else "cli" if case["cli_pats"] else "none")] += 1
    ctx.dist["second:" + second["mode"]] += 1
    if dry["exit"] != 0 or second["exit"] != 0:
        ctx.dist["nonzero-exit"] += 1
        ctx.extra.setdefault("nonzero_exit_samples", [])
        if len(ctx.extra["nonzero_exit_samples"]) < 3:
            ctx.extra["nonzero_exit_samples"].append((dry["tail"] or second["tail"])[-300:])
    if dry["exit"] != 0:
        # the command failed (collection error, crash): nothing may have been removed
        gone = [p for p in s0 if p not in s1]
        if gone:
            ctx.violation(f"dry-run-removed: {gone[:3]} disappeared in a (failing) dry-run, exit {dry['exit']}", rp)
        ctx.case({"c": case["id"], "x": "exit"}, False)
        return
    second_failed = second["exit"] != 0     # the dry-run listing is still judged; the removal is only bounded from above

    # --- the project root: the model takes it as an input (expected from the layout). pytask creates `<root>/.pytask/.gitignore`
    #     at configuration time, which shows where the real code put the root; the model's `findRoot` (built from the stop rules
    #     the translator reads in config_utils.find_project_root_and_config) is asked as well.
    made = sorted(p[:-len("/.pytask/.gitignore")] for p in s1 if p.endswith("/.pytask/.gitignore") and p not in s0)
    if made != [case["root"]]:
        ctx.disagreement(f"root-differs: pytask configured the project root(s) {made}, the layout {case['layout']} makes it "
                         f"{case['root']!r}", rp)
    if ctx.use_model and line_sink is not None:
        common = os.path.commonpath(["/" + r for r in roots]).lstrip("/") if case["path_rels"] is not None else case["cwd"]
        tables = [f"{enc_path(f'{V}/{f}')}|{'.'.join(enc(k) for k in t)}" for f, txt in sorted(case["files"].items())
                  if f.endswith("/pyproject.toml") for t in toml_tables(txt)]
        rline = " ".join(["clean.root", "base=/v", "tree=" + tree_tokens({"ws": "d", **{f"ws/{k}": v for k, v in s0.items()}}, "ws"),
                          "common=" + enc_path(f"{V}/{common}"), "tables=" + ",".join(tables)])
        line_sink.append(("root", case, rline, case["root"], f"{case['root']}/pyproject.toml" if case["has_cfg"] else None))

    # --- oracle 2: dry-run removes / changes nothing (checked first: everything else is read off the dry-run listing)
    for p, k in s0.items():
        if p not in s1:
            ctx.violation(f"dry-run-removed: {p} disappeared in dry-run mode", rp)
            break
        if s1[p] != k and not p.startswith(f"{case['root']}/.pytask/") and "/.git/" not in p:
            ctx.violation(f"dry-run-changed: {p} changed in dry-run mode", rp)
            break

    listed = resolve_printed(dry["would"], roots, {**s0, **s1})
    if listed is None:
        ctx.dist["unresolved-output"] += 1
        ctx.case({"c": case["id"], "x": "unres"}, False)
        return
    cats = forbidden_categories(case, obs, s1, roots)
    cov = covered(listed, s1)

    # --- oracle 1: nothing forbidden is offered (or lies inside an offered directory)
    worst = None
    for p in sorted(cov):
        hit = {c for c, members in cats.items() if p in members}
        if hit:
            fid = classify(case, hit, p)
            key = (fid is not None, p)
            if worst is None or key < worst[0]:
                worst = (key, p, hit, fid)
    if worst is not None:
        _, p, hit, fid = worst
        via = "" if p in listed else " (inside an offered directory)"
        ctx.violation(f"offered-{'+'.join(sorted(hit))}: 'pytask clean' offers {p}{via}; layout={case['layout']}", rp, finding=fid)
        # all remaining hits of other classes must still be seen
        for q in sorted(cov):
            hq = {c for c, members in cats.items() if q in members}
            if hq and classify(case, hq, q) != fid:
                ctx.violation(f"offered-{'+'.join(sorted(hq))}: 'pytask clean' offers {q}; layout={case['layout']}", rp,
                              finding=classify(case, hq, q))
                break

    # --- oracle 3: force removes exactly what dry-run lists; interactive exactly the confirmed ones
    gone = {p for p in s1 if p not in s2}
    if second_failed:
        more = sorted(gone - cov)
        if more:
            ctx.violation(f"force-removed-more: a failing {second['mode']} run (exit {second['exit']}) removed {more[:3]} which dry-run did not list", rp)
        ctx.case({"c": case["id"], "x": "exit2"}, False)
        return
    if second["mode"] == "force":
        rem = resolve_printed(second["removed"], roots, s1)
        if rem is not None and set(rem) != set(listed):
            ctx.violation(f"force-printed-differs: dry-run lists {sorted(set(listed) ^ set(rem))[:3]} differently from force", rp)
        if gone != cov:
            more, less = sorted(gone - cov), sorted(cov - gone)
            fid = None
            if more:
                ctx.violation(f"force-removed-more: force mode removed {more[:3]} which dry-run did not list", rp)
            else:
                ctx.violation(f"force-removed-less: force mode left {less[:3]} which dry-run listed", rp, finding=fid)
        yes = []
    else:
        asked = resolve_printed(second["asked"], roots, s1)
        answers = [a for a in second_input_answers(case)]
        yes = []
        if asked is not None:
            if set(asked) != set(listed):
                ctx.violation(f"interactive-asked-differs: asked {sorted(set(asked) ^ set(listed))[:3]}", rp)
            yes = [p for p, a in zip(asked, answers) if a]
            if gone != covered(yes, s1):
                ctx.violation(f"interactive-removed-differs: removed {sorted(gone ^ covered(yes, s1))[:3]} vs confirmed", rp)
    for p in s2:
        if p in s1 and s2[p] != s1[p] and not p.startswith(f"{case['root']}/.pytask/") and "/.git/" not in p:
            ctx.violation(f"force-changed: {p} changed", rp)
            break

    nontrivial = bool(listed) and any(cats[c] & {p for p in s1 if any(under(p, r) for r in roots)}
                                      for c in ("task-module", "declared-node", "git-tracked", "exclude-match", "config"))
    canon = {"files": sorted(case["files"]), "dirs": sorted(case["dirs"]), "args": case["args"], "paths": case["path_rels"],
             "git": case["git"], "cfg": case["cfg_pats"], "mods": case["modules"], "second": second["mode"]}
    ctx.case(canon, nontrivial, {"id": case["id"], "layout": case["layout"], "args": case["args"], "listed": listed[:6]})

    # --- model
    if ctx.use_model:
        mode = "force" if second["mode"] == "force" else "inter"
        line = model_line(case, obs, s1, roots, mode, yes)
        if line_sink is not None:
            line_sink.append((case, obs, line, listed, s2))


def toml_tables(text: str) -> list[tuple[str, ...]]:
    """Paths of all tables of a TOML document (the harness's own reading of the file, by the standard parser)."""
    import tomllib
    try:
        doc = tomllib.loads(text.replace("{W}", V))
    except tomllib.TOMLDecodeError:
        return []
    out: list[tuple[str, ...]] = []

    def walk(d: dict, pre: tuple[str, ...]):
        for k, v in d.items():
            if isinstance(v, dict):
                out.append(pre + (k,))
                walk(v, pre + (k,))

    walk(doc, ())
    return out


def second_input_answers(case: dict) -> list[bool]:
    inp = case["steps"][1].get("input") or ""
    return [l.strip().lower() == "y" for l in inp.split("\n")[:-1]]


def compare_model(ctx, pending: list) -> None:
    if not pending:
        return
    answers = ctx.driver().batch([p[2] for p in pending])
    for item, ans in zip(pending, answers):
        if item[0] == "root":
            _, case, _, want_root, want_cfg = item
            a = parse_answer(ans)
            got_root = dec(a.get("root", "?"))[len(V) + 1:]
            got_cfg = None if a.get("config", "-") == "-" else dec(a["config"])[len(V) + 1:]
            ctx.traces_validated += 1
            if (got_root, got_cfg) != (want_root, want_cfg):
                ctx.disagreement(f"model-root-differs: findRoot gives {got_root!r} / {got_cfg!r}, the layout {case['layout']} makes it "
                                 f"{want_root!r} / {want_cfg!r}", {"kind": "cli", "case": case})
            continue
        case, obs, line, listed, s2 = item
        rp = {"kind": "cli", "case": case}
        a = parse_answer(ans)
        if "listed" not in a:
            ctx.disagreement(f"model-bad-answer: {ans[:80]}", rp)
            continue
        ctx.traces_validated += 1
        m_listed = strip_v(dec_paths(a["listed"]))
        if m_listed != set(listed):
            ctx.disagreement(f"listing-differs: model lists {sorted(m_listed - set(listed))[:3]} extra, "
                             f"misses {sorted(set(listed) - m_listed)[:3]} (layout={case['layout']})", rp)
            continue
        m_tree = {dec(x.split(":", 1)[1])[len(V) + 1:] for x in a["tree"].split(",") if x} - {""}
        if m_tree != set(s2):
            ctx.disagreement(f"tree-after-differs: {sorted(m_tree ^ set(s2))[:4]}", rp)


# ---------------------------------------------------------------------------------------------
# exhaustive small scope on _RecursivePathNode
# ---------------------------------------------------------------------------------------------

def shapes(n: int):
    """All forests with exactly n entries (ordered, files are leaves); names f<i>/d<i> by pre-order index."""
    def forests(k):
        if k == 0:
            yield []
            return
        # first tree has size s (1..k), rest is a forest of size k-s
        for s in range(1, k + 1):
            for first in trees(s):
                for rest in forests(k - s):
                    yield [first] + rest

    def trees(s):
        if s == 1:
            yield ["f"]
        for kids in forests(s - 1):
            yield ["d", kids]

    return forests(n)


def label(forest, pre="t", counter=None):
    counter = counter if counter is not None else [0]
    out = []
    for t in forest:
        i = counter[0]
        counter[0] += 1
        if t[0] == "f":
            out.append(["f", f"n{i}"])
        else:
            out.append(["d", f"n{i}", label(t[1], pre, counter)])
    return out


def run_exh(jobs: list[dict], nproc: int = 12) -> list[dict]:
    nproc = max(1, min(nproc, len(jobs)))
    chunks = [jobs[i::nproc] for i in range(nproc)]

    def one(chunk):
        if not chunk:
            return []
        p = subprocess.run([common.PY, str(EXH_WORKER)], input=json.dumps(chunk), capture_output=True, text=True, cwd="/")
        if p.returncode != 0:
            raise common.InfraError(f"clean exh worker failed: {p.stderr[-800:]}")
        return json.loads(p.stdout)

    with ThreadPoolExecutor(max_workers=nproc) as ex:
        res = list(ex.map(one, chunks))
    out: list = [None] * len(jobs)
    for i, r in enumerate(res):
        for j, o in enumerate(r):
            if i + j * nproc < len(jobs):
                out[i + j * nproc] = o
    if any(o is None for o in out):
        first = next((o for r in res for o in r), {"unavailable": "no result"})
        return [first] * len(jobs)
    return out


def exh_assignments(files: list[str], entries: list[str], rng=None, limit: int | None = None):
    ks = [list(c) for r in range(len(files) + 1) for c in itertools.combinations(files, r)]
    es = [list(c) for r in range(len(entries) + 1) for c in itertools.combinations(entries, r)]
    combos = [(k, e, d) for k in ks for e in es for d in (0, 1)]
    if limit is not None and len(combos) > limit:
        combos = rng.sample(combos, limit)
    return combos


def exh_campaign(ctx, max_n: int, sample_n: int, sample_per_shape: int) -> None:
    jobs = []
    for n in range(0, max_n + 1):
        for sh in shapes(n):
            tree = [["d", "top", label(sh)]]
            files, dirs = flatten(tree)
            entries = files + dirs
            jobs.append({"tree": tree, "assign": exh_assignments(files, entries)})
    if sample_n > max_n:
        for sh in shapes(sample_n):
            tree = [["d", "top", label(sh)]]
            files, dirs = flatten(tree)
            jobs.append({"tree": tree, "assign": exh_assignments(files, files + dirs, ctx.rng, sample_per_shape)})
    results = run_exh(jobs)
    if results and results[0].get("unavailable"):
        ctx.extra["exh_stream"] = "skipped: " + results[0]["unavailable"]
        return
    ctx.extra["exh_stream"] = f"{len(jobs)} trees"
    exh_judge(ctx, jobs, results)


def exh_judge(ctx, jobs: list[dict], results: list[dict]) -> None:
    lines, meta = [], []
    for job, res in zip(jobs, results):
        files, dirs = flatten(job["tree"])
        snap = {**{f: "f" for f in files}, **{d: "d" for d in dirs}}
        toks = tree_tokens(snap, "top")
        for (k, e, d), got in zip(job["assign"], res["listed"]):
            # independent oracle: nothing known (file) or excluded is offered or lies inside an offered directory
            cov = covered(got, snap)
            bad = [p for p in cov if p in e or (snap[p] == "f" and p in k)]
            below_ex = [p for p in cov if any(p.startswith(x + "/") for x in e)]
            rp = {"kind": "exh", "tree": job["tree"], "known": k, "excluded": e, "dirs": d}
            if bad or below_ex:
                ctx.violation(f"node-offered-known-or-excluded: {sorted(bad + below_ex)[:3]} offered with known={k} excluded={e} dirs={d}", rp)
            if not d and any(snap[p] == "d" for p in got):
                ctx.violation(f"node-directory-without-flag: {got} listed without --directories", rp)
            ctx.case({"t": toks, "k": k, "e": e, "d": d}, bool(got) and bool(k or e))
            if ctx.use_model:
                lines.append("clean.list base=/v tree=" + toks + " roots=/v/top known=" + ",".join("/v/" + x for x in k)
                             + " exclpaths=" + ",".join("/v/" + x for x in e) + " excl= dirs=" + str(d))
                meta.append((rp, got))
    ctx.dist["exh-evaluations"] += sum(len(j["assign"]) for j in jobs)
    if ctx.use_model and lines:
        answers = ctx.driver().batch(lines)
        for (rp, got), ans in zip(meta, answers):
            a = parse_answer(ans)
            m = {p[len("/v/"):] for p in dec_paths(a.get("listed", ""))} if "listed" in a else None
            ctx.traces_validated += 1
            if m is None or m != set(got):
                ctx.disagreement(f"node-listing-differs: impl {sorted(got)} model {sorted(m) if m is not None else ans[:60]}", rp)
                if len(ctx.disagreements) > 20:
                    break


# ---------------------------------------------------------------------------------------------
# pmatch vs PurePosixPath.match
# ---------------------------------------------------------------------------------------------

ATOMS = ["a", "b", ".", "*", "?", "[ab]", "[!a]", "[a-b]", "/", "]", "[", "-", "!", "^", "[+-z]"]   # [+-z] spans the code of "/" but not of the newline that stands for it in pathlib._lines
PM_PATHS = ["/a", "/b", "/a/b", "/b/a", "/a/a", "/ab", "/a/ab", "/ab/b", "/a.b", "/.a", "/a/-", "/a/]", "/a/[a]", "/a/!", "/a/^b",
            "/a/b/a", "/b/.b", "/a/[", "/a/a-b"]


def py_match(path: str, pat: str):
    import warnings
    with warnings.catch_warnings():
        warnings.simplefilter("ignore")
        try:
            return PurePosixPath(path).match(pat)
        except ValueError:
            return None           # empty pattern


def pmatch_pairs(ctx, max_len: int, n_random: int):
    pats = []
    for k in range(1, max_len + 1):
        for combo in itertools.product(ATOMS, repeat=k):
            pats.append("".join(combo))
    for _ in range(n_random):
        pats.append("".join(ctx.rng.choice(ATOMS + ["c", "ab", "*.", "/*", "[!", "[]"]) for _ in range(ctx.rng.randint(4, 8))))
    pats = list(dict.fromkeys(pats))
    for pat in pats:
        if pat.startswith("//") and not pat.startswith("///"):
            continue              # POSIX "//" root: not modelled
        for path in PM_PATHS:
            yield path, pat


def pmatch_campaign(ctx, max_len: int, n_random: int) -> None:
    pairs, lines = [], []
    for path, pat in pmatch_pairs(ctx, max_len, n_random):
        want = py_match(path, pat)
        if want is None:
            continue
        pairs.append((path, pat, want))
        lines.append(f"clean.pmatch path={enc_path(path)} pat={enc(pat)}")
    ctx.dist["pmatch-pairs"] += len(pairs)
    if not ctx.use_model:
        return
    answers = ctx.driver().batch(lines)
    bad = 0
    for (path, pat, want), ans in zip(pairs, answers):
        ctx.evaluations += 1
        if want:
            ctx.nontrivial.add(common.digest(["pm", path, pat]))
        if ans != ("1" if want else "0"):
            bad += 1
            if bad <= 5:
                ctx.disagreement(f"pmatch-differs: PurePosixPath({path!r}).match({pat!r}) = {want}, model = {ans}",
                                 {"kind": "pmatch", "path": path, "pat": pat})
    ctx.traces_validated += len(pairs)


# ---------------------------------------------------------------------------------------------
# file names that are not valid UTF-8 (byte-level stream; implementation and oracle only, the model has abstract names)
# ---------------------------------------------------------------------------------------------

# surrogate-escaped spellings (os.fsdecode) of byte names: latin-1 "café.txt", a lone continuation byte, 0xff, a latin-1
# directory name; the worker creates them through os.fsencode, i.e. as the bytes b"caf\xe9.txt", b"\x80x.dat", …
BYTE_FILES = ["caf\udce9.txt", "\udc80x.dat", "a\udcff", "sub/na\udcefve.txt", "d\udce9p/in\udce4.csv", "d\udce9p/plain.txt",
              "sub/deep/\udcfcber.log"]
PLAIN_FILES = ["junk.txt", "sub/keep.txt", "sub/deep/x.tmp", "notes.md"]


def gen_bytes_case(rng, cid: str) -> dict:
    root = "r"
    names = rng.sample(BYTE_FILES, rng.randint(1, 4)) + rng.sample(PLAIN_FILES, rng.randint(1, 3))
    files = {f"{root}/{n}": f"content of {i}\n" for i, n in enumerate(names)}
    has_cfg = rng.random() < 0.6
    if has_cfg:
        files[f"{root}/pyproject.toml"] = "[tool.pytask.ini_options]\n"
    cands = sorted(files)
    tracked = [c for c in cands if rng.random() < 0.5]
    staged = [c for c in cands if c not in tracked and rng.random() < 0.4]
    dirs = sorted({root} | {f.rsplit("/", 1)[0] for f in files})
    args = ["-d"] if rng.random() < 0.4 else []
    return {"id": cid, "stream": "bytes", "layout": "repo_root_cfg" if has_cfg else "repo_root_nocfg", "root": root, "cwd": root,
            "git": {"top": root, "tracked": tracked, "staged": staged, "modify_after": {}}, "files": files, "dirs": dirs,
            "args": args, "paths": [], "path_rels": None, "steps": [{"mode": "dry-run"}, {"mode": "force"}], "has_cfg": has_cfg,
            "cfg_pats": None, "cli_pats": [], "modules": {}, "dirnodes": [], "outer": [], "runner": "subprocess"}


def lossy_spellings(rel: str) -> set[str]:
    """How a program that does not keep the bytes may print the name."""
    b = os.fsencode(rel)
    return {rel, b.decode("utf-8", "replace"), b.decode("utf-8", "ignore"), b.decode("utf-8", "backslashreplace"),
            b.decode("latin-1"), b.decode("utf-8", "replace").replace("\ufffd", "?")}


def judge_bytes(ctx, case: dict, obs: dict) -> None:
    """Names are compared as bytes (surrogate-escaped strings are a faithful spelling of bytes): no file of git's index may be
    offered or removed. An abort (non-zero exit) that removed nothing tracked is accepted and counted."""
    rp = {"kind": "cli", "case": case}
    if "error" in obs:
        ctx.dist["worker-error"] += 1
        ctx.extra.setdefault("worker_errors", []).append(obs["error"][:200])
        return
    ctx.dist["stream:bytes"] += 1
    tracked = set(obs.get("git_ls", []))
    bad_tracked = {t for t in tracked if not _valid_utf8(t)}
    s0 = obs["s0"]
    dry, force = obs["runs"]
    s1, s2 = dry["after"], force["after"]
    ctx.dist["bytes:" + ("abort" if dry["exit"] != 0 or force["exit"] != 0 else "completed")] += 1
    ctx.dist["bytes:" + ("tracked-malformed-name" if bad_tracked else "only-untracked-malformed")] += 1
    gone1 = [p for p in s0 if p not in s1]
    if gone1:
        ctx.violation(f"dry-run-removed: {ascii(gone1[:3])} disappeared in dry-run mode (byte-level names)", rp)
    gone2 = {p for p in s1 if p not in s2}
    hit = sorted(p for p in gone2 if p in tracked or any(t.startswith(p + "/") for t in tracked))
    if hit:
        ctx.violation(f"removed-git-tracked: force mode removed {ascii(hit[:3])}, in git's index under exactly these bytes; "
                      f"exit codes {dry['exit']}/{force['exit']}", rp)
    offered = [w.rstrip("/") for w in dry["would"] + force["removed"]]
    for t in sorted(tracked):
        rel = t[len(case["root"]) + 1:]
        names = {x for x in lossy_spellings(rel)} | {f"{case['root']}/{x}" for x in lossy_spellings(rel)}
        if any(o in names or any(o.endswith("/" + n) for n in names) for o in offered):
            ctx.violation(f"offered-git-tracked: 'pytask clean' offers {ascii(t)} (a name that is not valid UTF-8 is in git's index "
                          f"as these bytes)", rp)
            break
    for p, k in s0.items():
        if p in s1 and s1[p] != k and not p.startswith(f"{case['root']}/.pytask/") and "/.git/" not in p:
            ctx.violation(f"dry-run-changed: {ascii(p)} changed in dry-run mode", rp)
            break
    ctx.case({"files": sorted(ascii(f) for f in case["files"]), "git": [sorted(map(ascii, case["git"]["tracked"])),
                                                                          sorted(map(ascii, case["git"]["staged"]))], "args": case["args"]},
             bool(bad_tracked), {"id": case["id"], "stream": "bytes", "tracked": [ascii(t) for t in sorted(bad_tracked)][:4],
                                 "exit": [dry["exit"], force["exit"]]})


def _valid_utf8(s: str) -> bool:
    try:
        os.fsencode(s).decode("utf-8")
        return True
    except UnicodeDecodeError:
        return False


BYTES_WITNESS = {
    "id": "corpus-bytes", "stream": "bytes", "layout": "repo_root_nocfg", "root": "r", "cwd": "r",
    "git": {"top": "r", "tracked": ["r/caf\udce9.txt"], "staged": ["r/sub/na\udcefve.txt"], "modify_after": {}},
    "files": {"r/caf\udce9.txt": "c\n", "r/sub/na\udcefve.txt": "s\n", "r/junk.txt": "j\n"}, "dirs": ["r", "r/sub"], "args": [], "paths": [],
    "path_rels": None, "steps": [{"mode": "dry-run"}, {"mode": "force"}], "has_cfg": False, "cfg_pats": None, "cli_pats": [],
    "modules": {}, "dirnodes": [], "outer": [], "runner": "subprocess",
}


def bytes_campaign(ctx, n: int) -> None:
    cases = [BYTES_WITNESS] + [gen_bytes_case(ctx.rng, f"b{i}") for i in range(n)]
    obs = run_workers(cases, nproc=12)
    for c in cases:
        judge_bytes(ctx, c, obs[c["id"]])


# ---------------------------------------------------------------------------------------------
# the campaign
# ---------------------------------------------------------------------------------------------

F9_WITNESS = {
    "id": "corpus-F9", "stream": "cli", "layout": "repo_above", "root": "g/r", "cwd": "g/r",
    "git": {"top": "g", "tracked": ["g/r/data/tracked.txt", "g/r/pyproject.toml"], "staged": [], "modify_after": {}},
    "files": {"g/r/pyproject.toml": "[tool.pytask.ini_options]\n", "g/r/data/tracked.txt": "t\n", "g/r/data/untracked.txt": "u\n"},
    "dirs": ["g/r", "g/r/data"], "args": [], "paths": [], "path_rels": None,
    "steps": [{"mode": "dry-run"}, {"mode": "force"}], "has_cfg": True, "cfg_pats": None, "cli_pats": [], "modules": {},
    "dirnodes": [], "outer": [],
}
F16_WITNESS = {
    "id": "corpus-F16", "stream": "dirnode", "layout": "norepo_cfg", "root": "r", "cwd": "r", "git": None,
    "files": {"r/pyproject.toml": "[tool.pytask.ini_options]\n", "r/data/u1.csv": "1\n", "r/data/u2.csv": "2\n",
              "r/task_dn.py": module_text("r", "task_dn.py", [{"name": "dn", "deps": [], "prods": ["dn_out.txt"], "style": [1],
                                                                "prodstyle": 0, "dirdeps": [["data", "*.csv"]]}])},
    "dirs": ["r", "r/data"], "args": [], "paths": [], "path_rels": None, "steps": [{"mode": "dry-run"}, {"mode": "force"}],
    "has_cfg": True, "cfg_pats": None, "cli_pats": [],
    "modules": {"task_dn.py": {"tasks": [{"name": "dn", "deps": [], "prods": ["dn_out.txt"], "style": [1], "prodstyle": 0,
                                          "dirdeps": [["data", "*.csv"]]}]}},
    "dirnodes": [{"dir": "data", "pattern": "*.csv", "kind": "dirdeps"}], "outer": [],
}


def load_corpus() -> list[dict]:
    out = [F9_WITNESS, F16_WITNESS]
    d = common.VERIF / "corpus" / "C11"
    if d.is_dir():
        for f in sorted(d.glob("*.json")):
            try:
                obj = json.loads(f.read_text())
                if obj.get("kind", "cli") == "cli" and "case" in obj:
                    out.append(obj["case"])
            except (OSError, ValueError):
                pass
    return out


def campaign(ctx) -> None:
    # 1. corpus (known witnesses must still be detected: self-test of the oracle)
    corpus = load_corpus()
    n_cli = ctx.scale(360, 6000)
    n_dn = ctx.scale(30, 300)
    cases = list(corpus)
    cases += [gen_case(ctx.rng, f"c{i}") for i in range(n_cli)]
    cases += [gen_case(ctx.rng, f"dn{i}", "dirnode") for i in range(n_dn)]
    # file names that are not valid UTF-8, tracked / staged / untracked (byte-level oracle, real subprocess): same worker pool
    bcases = [BYTES_WITNESS] + [gen_bytes_case(ctx.rng, f"b{i}") for i in range(ctx.scale(8, 150))]
    step = max(1, len(cases) // len(bcases))
    mixed = []
    for i, c in enumerate(cases):          # spread the (slow) subprocess cases over the worker chunks
        if i % step == 0 and bcases:
            mixed.append(bcases.pop())
        mixed.append(c)
    mixed += bcases
    obs = run_workers(mixed)
    pending: list = []
    before = len(ctx.violations)
    for c in mixed:
        if c["stream"] == "bytes":
            judge_bytes(ctx, c, obs[c["id"]])
            continue
        judge(ctx, c, obs[c["id"]], pending)
        if c["id"] == "corpus-F9":
            hit = [v for v in ctx.violations[before:] if v["finding"] == "F9"]
            ctx.extra["selftest_F9_witness_detected"] = bool(hit)
        if c["id"] == "corpus-F16":
            ctx.extra["selftest_F16_witness_detected"] = any(v["finding"] == "F16" for v in ctx.violations)
    compare_model(ctx, pending)
    total = max(1, len(mixed))
    fresh_now = [v for v in ctx.violations if not v["finding"]]
    if not fresh_now and (ctx.dist["unresolved-output"] + ctx.dist["worker-error"]) * 10 > total:
        raise common.InfraError(f"too many uninterpretable runs: {dict(ctx.dist)} {ctx.extra.get('worker_errors', [])[:2]}")
    if not fresh_now and ctx.dist["nonzero-exit"] * 5 > total:
        raise common.InfraError(f"too many failing clean runs ({ctx.dist['nonzero-exit']}/{total}): "
                                f"{ctx.extra.get('nonzero_exit_samples')}")

    # 2. exhaustive small scope on the node class
    exh_campaign(ctx, max_n=3 if not ctx.thorough else 4, sample_n=4 if not ctx.thorough else 5,
                 sample_per_shape=ctx.scale(60, 400))
    ctx.exhaustive = True

    # 3. pmatch
    pmatch_campaign(ctx, max_len=3 if not ctx.thorough else 4, n_random=ctx.scale(300, 3000))

    # 4. self-test of the oracle (DESIGN §3): a witness recorded as `known` must still be flagged. Only decisive when
    #    nothing else is wrong (a violation / disagreement / broken proof is reported by the pipeline instead).
    known_ids = {e["id"] for e in common.load_known("C11") if e.get("status") == "known"}
    fresh = [v for v in ctx.violations if not v["finding"]]
    proof_ok = ctx.lean is None or getattr(ctx.lean, "proof_ok", True)
    if not fresh and not ctx.disagreements and proof_ok:
        for fid in ("F9", "F16"):
            if fid in known_ids and not ctx.extra.get(f"selftest_{fid}_witness_detected"):
                raise common.InfraError(f"known finding {fid}: its corpus witness is no longer flagged by the oracle - either the oracle "
                                        f"is broken or the defect was repaired (then record it as fixed in known_findings.json)")
