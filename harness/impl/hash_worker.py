#!/venv/bin/python
"""Runs the REAL fingerprint code of the tree under check (C12). stdin: one JSON request, stdout: one JSON answer.

modes
  pool    {"values":[jv,…]}                       -> [{"r": str(hash_value(v)), "k": "int"|"str"|"err:<Exc>"} …]
  pyint   {"ints":["123",…]}                      -> [str(hash(int)), …]                (CPython itself)
  sigs    {"decls":[{"kind":…,…},…]}              -> [signature | "err:<Exc>", …]
  ops     {"root": dir, "ops":[…]}                -> one observation per "state" op     (fresh process = empty memo)
          ops: write / utime / remove of file f; symlink (link l -> file f); state of file f spelled sp, or through link l
  collect {"root": dir, "base": dir, "decls":[…]} -> [{"path": collected path | None, "sig": …}|{"err":…}, …]
  pystate {"values":[jv,…]}                       -> [PythonNode(value=v, hash=True).state(), …]
  pywrap  {"values":[jv,…], "flags":[bool,…]}     -> [{"w": state of the collected dependency, "n": state of the node}, …]
  build   {"root": dir[, "cwd": dir, "paths": [spelling…]]} -> {"exit": int, "outcomes": {task name: outcome name}}
  tasksigs {"cwd": dir, "paths": [spelling…]}     -> {"exit": int, "tasks": {task name: {"sig", "path"}}}   (dry run)

jv (JSON value): {"t":"none"} {"t":"bool","v":true} {"t":"int","v":"12"} {"t":"float","v":"0x1.8p+0"}
  {"t":"str","v":[code points]} {"t":"bytes","v":[0-255]} {"t":"path","v":"a/b"} {"t":"tuple","v":[jv…]} {"t":"list","v":[jv…]}
"""
import json
import os
import sys
from pathlib import Path


def dejson(j):
    t = j["t"]
    if t == "none":
        return None
    if t == "bool":
        return bool(j["v"])
    if t == "int":
        return int(j["v"])
    if t == "float":
        return float.fromhex(j["v"])
    if t == "str":
        return "".join(chr(c) for c in j["v"])
    if t == "bytes":
        return bytes(j["v"])
    if t == "path":
        return Path(j["v"])
    if t == "tuple":
        return tuple(dejson(x) for x in j["v"])
    if t == "list":
        return [dejson(x) for x in j["v"]]
    raise ValueError(t)


def content_bytes(c):
    """File content of an op: a list of byte values, or a compact descriptor
    {"gen": [size, seed], "patch": [[offset, delta], ...]} = a seed-dependent periodic pattern with single bytes changed."""
    if isinstance(c, dict):
        size, seed = c["gen"]
        pat = bytes((seed * 7 + j * 13) % 256 for j in range(256))
        data = bytearray((pat * (size // 256 + 1))[:size])
        for off, delta in c.get("patch", []):
            data[off] = (data[off] + 1 + delta % 255) % 256
        return bytes(data)
    return bytes(c)


def _f():  # a task function with retrievable source
    pass


def mode_pool(req):
    from _pytask._hashlib import hash_value
    out = []
    for j in req["values"]:
        try:
            r = hash_value(dejson(j))
            out.append({"r": str(r), "k": "int" if type(r) is int else ("str" if type(r) is str else type(r).__name__)})
        except Exception as e:  # noqa: BLE001
            out.append({"r": "", "k": f"err:{type(e).__name__}"})
    return out


def mode_pystate(req):
    from _pytask.nodes import PythonNode
    out = []
    for j in req["values"]:
        try:
            out.append(PythonNode(name="n", value=dejson(j), hash=True).state())
        except Exception as e:  # noqa: BLE001
            out.append(f"err:{type(e).__name__}")
    return out


def mode_pywrap(req):
    """A PythonNode(hash=flag) without value is declared as a dependency (collect_dependency wraps it), then the producer
    saves the value: state() of the collected dependency and of the node itself."""
    from _pytask.collect_utils import collect_dependency
    from _pytask.models import NodeInfo
    from _pytask.nodes import PythonNode
    from _pytask.session import Session
    from _pytask.pluginmanager import get_plugin_manager
    root = Path("/verif-nonexistent-root")
    session = Session.from_config({"check_casing_of_paths": False, "paths": (root,), "root": root, "pm": get_plugin_manager()})
    out = []
    for j, flag in zip(req["values"], req["flags"]):
        try:
            node = PythonNode(name="shared", hash=flag)
            ni = NodeInfo(arg_name="v", path=(), value=node, task_path=root / "task_m.py", task_name="task_use")
            dep = collect_dependency(session, root, "task_use", ni)
            node.save(dejson(j))
            out.append({"w": dep.state(), "n": node.state(), "same_obj": dep is node})
        except Exception as e:  # noqa: BLE001
            out.append({"err": type(e).__name__})
    return out


def mk_node(d):
    from _pytask.models import NodeInfo
    from _pytask.nodes import DirectoryNode, PathNode, PickleNode, PythonNode, Task, TaskWithoutPath
    k = d["kind"]
    if k == "path":
        return PathNode(name=d.get("name", "n"), path=Path(d["p"]))
    if k == "pickle":
        return PickleNode(name=d.get("name", "n"), path=Path(d["p"]))
    if k == "task":
        return Task(base_name=d["base"], path=Path(d["p"]), function=_f)
    if k == "taskw":
        return TaskWithoutPath(name=d["name"], function=_f)
    if k == "dir":
        return DirectoryNode(name=d.get("name", "n"), root_dir=None if d["root"] is None else Path(d["root"]), pattern=d["pattern"])
    if k == "python":
        ni = NodeInfo(arg_name=d["arg"], path=tuple(d["tp"]), task_path=None if d["tpath"] is None else Path(d["tpath"]),
                      task_name=d["tname"], value=None)
        return PythonNode(name=d.get("name", "n"), value=d.get("value", 0), node_info=ni)
    raise ValueError(k)


def mode_sigs(req):
    out = []
    for d in req["decls"]:
        try:
            out.append(mk_node(d).signature)
        except Exception as e:  # noqa: BLE001
            out.append(f"err:{type(e).__name__}")
    return out


def mode_ops(req):
    from _pytask.nodes import PathNode, PickleNode, Task
    root = Path(req["root"])
    root.mkdir(parents=True, exist_ok=True)
    (root / "sub").mkdir(exist_ok=True)
    os.chdir(root)
    obs = []

    def fname(i):
        return f"f{i}.bin"

    def lname(k):
        return f"l{k}.lnk"

    def spelled_link(k, sp):
        # the file is named through a symbolic link: absolute / relative / dotted spelling of the link itself
        if sp % 3 == 0:
            return root / lname(k)
        if sp % 3 == 1:
            return Path(lname(k))
        return root / "sub" / ".." / lname(k)

    def spelled(i, sp):
        if sp == 0:
            return root / fname(i)
        if sp == 1:
            return Path(fname(i))
        if sp == 2:
            return Path("sub") / ".." / fname(i)
        if sp == 3:
            return root / "sub" / ".." / fname(i)
        raise ValueError(sp)

    for op in req["ops"]:
        o = op["op"]
        if o == "write":
            p = root / fname(op["f"])
            p.write_bytes(content_bytes(op["content"]))
            os.utime(p, ns=(op["mtime_ns"], op["mtime_ns"]))
        elif o == "utime":
            os.utime(root / fname(op["f"]), ns=(op["mtime_ns"], op["mtime_ns"]))
        elif o == "remove":
            (root / fname(op["f"])).unlink(missing_ok=True)
        elif o == "symlink":          # (re)point link k to file f; "rel": relative target. The target need not exist.
            lp = root / lname(op["l"])
            if lp.is_symlink() or lp.exists():
                lp.unlink()
            lp.symlink_to(fname(op["f"]) if op.get("rel") else root / fname(op["f"]))
            if op.get("lmtime_ns") is not None:   # the link's own (lstat) time, independent of the target's
                os.utime(lp, ns=(op["lmtime_ns"], op["lmtime_ns"]), follow_symlinks=False)
        elif o == "state":
            p = spelled_link(op["l"], op["sp"]) if op.get("l") is not None else spelled(op["f"], op["sp"])
            if op["kind"] == "upath":       # the same file named by a protocol UPath (stat() gives a UPathStatResult)
                from upath import UPath
                p = UPath("file://" + os.path.abspath(p))
                node = PathNode(name="n", path=p)
            elif op["kind"] == "path":
                node = PathNode(name="n", path=p)
            elif op["kind"] == "pickle":
                node = PickleNode(name="n", path=p)
            else:
                node = Task(base_name="task_t", path=p, function=_f)
            try:
                st = node.state()
                try:
                    mt = p.stat().st_mtime
                    obs.append({"state": st, "path": str(p), "mh": str(hash(mt)), "mtime": mt.hex()})
                except FileNotFoundError:
                    obs.append({"state": st, "path": str(p), "mh": None, "mtime": None})
            except Exception as e:  # noqa: BLE001
                obs.append({"state": f"err:{type(e).__name__}", "path": str(p), "mh": None, "mtime": None})
        else:
            raise ValueError(o)
    return obs


def mode_collect(req):
    from _pytask.collect import pytask_collect_node
    from _pytask.models import NodeInfo
    from _pytask.nodes import DirectoryNode, PathNode, PickleNode
    from _pytask.session import Session
    root, base = Path(req["root"]), Path(req["base"])
    session = Session.from_config({"check_casing_of_paths": False, "paths": (root,), "root": root})
    out = []
    for d in req["decls"]:
        sp = Path(d["sp"])
        form = d["form"]
        if form == "plain":
            val = sp
        elif form == "pathnode":
            val = PathNode(path=sp)
        elif form == "picklenode":
            val = PickleNode(path=sp)
        elif form == "dirnode":
            val = DirectoryNode(root_dir=sp, pattern=d["pattern"])
        else:
            raise ValueError(form)
        ni = NodeInfo(arg_name="dep", path=(), value=val, task_path=base / "task_m.py", task_name="task_x")
        try:
            node = pytask_collect_node(session, base, ni)
            path = getattr(node, "root_dir", None) if form == "dirnode" else getattr(node, "path", None)
            out.append({"path": None if path is None else str(path), "sig": node.signature, "cls": type(node).__name__})
        except Exception as e:  # noqa: BLE001
            out.append({"err": type(e).__name__})
    return out


def mode_tasksigs(req):
    """Collect (dry run: nothing executes, nothing is recorded) with the `paths` argument as spelled, from the working directory
    `cwd`: identity (signature, module path) of every collected task."""
    import pytask
    os.chdir(req["cwd"])
    s = pytask.build(paths=[Path(p) for p in req["paths"]], dry_run=True)
    tasks = {}
    for t in s.tasks:
        tasks[t.name.rsplit("::", 1)[-1]] = {"sig": t.signature, "path": str(getattr(t, "path", None))}
    res = {"exit": int(s.exit_code), "tasks": tasks}
    if req.get("pynodes"):      # identity of every PythonNode among the dependencies / products: (module file, function, argument, tree path)
        from _pytask.nodes import PythonNode
        from _pytask.tree_util import tree_leaves
        nodes = []
        for t in s.tasks:
            for side, tree in (("dep", t.depends_on), ("prod", t.produces)):
                for arg, sub in tree.items():
                    for leaf in tree_leaves(sub):
                        if isinstance(leaf, PythonNode):
                            ni = leaf.node_info
                            nodes.append({"dir": os.path.relpath(Path(t.path).parent, req["cwd"]) if getattr(t, "path", None) else "", "module": Path(t.path).name if getattr(t, "path", None) else None, "func": t.base_name if hasattr(t, "base_name") else t.name,
                                          "side": side, "arg": arg, "tp": [str(x) for x in (ni.path if ni else ())], "hash": bool(leaf.hash), "has_info": ni is not None,
                                          "sig": leaf.signature})
        res["pynodes"] = nodes
    return res


def mode_build(req):
    import pytask
    root = Path(req["root"])
    os.chdir(req.get("cwd", root))
    s = pytask.build(paths=[Path(p) for p in req["paths"]] if req.get("paths") else [root])
    outcomes, by_module = {}, {}
    for r in s.execution_reports:
        outcomes[r.task.name.rsplit("::", 1)[-1]] = r.outcome.name
        mod = os.path.relpath(r.task.path, root) if getattr(r.task, "path", None) else "-"
        by_module[mod + "::" + r.task.name.rsplit("::", 1)[-1]] = r.outcome.name
    return {"exit": int(s.exit_code), "outcomes": outcomes, "by_module": by_module}


def main():
    req = json.loads(sys.stdin.read())
    mode = req["mode"]
    if mode == "pyint":
        res = [str(hash(int(s))) for s in req["ints"]]
    else:
        res = {"pool": mode_pool, "sigs": mode_sigs, "ops": mode_ops, "collect": mode_collect,
               "pystate": mode_pystate, "build": mode_build, "pywrap": mode_pywrap, "tasksigs": mode_tasksigs}[mode](req)
    real_stdout = sys.__stdout__
    real_stdout.write("\n@@RESULT@@" + json.dumps(res) + "\n")


if __name__ == "__main__":
    main()
