"""C18 campaign: projects with directory-pattern (DirectoryNode) dependencies / products and task generators, run on the
REAL pytask through the build servers, replayed in the Lean model M7 (`prov.*` driver commands).

spec = {
  "pats":    {pid: {"dir": d, "kind": "f"|"g"|"all"}},     # DirectoryNode(root_dir=data/d<d>, pattern=f*.txt|g*.txt|*.txt)
  "tasks":   [{"id", "cnt": node|None, "deps": [node], "pdeps": [pid], "prods": [node], "pprods": [pid], "gen": bool,
               "fails": bool, "parent": gen id|None, "pstyle": "param"|"return", "dstyle": "default"|"annotated"}],
  "perfile": {gen id: base},                               # generator defines one copy task `base+n` per received file n
  "inputs":  {node: content},
}
Files: static node n -> data/n<n>.txt; the files a pattern can match are node ids 1000+20*d+o (o<5: f<o>.txt, 5<=o<10:
g<o-5>.txt) in data/d<d>/.  The Lean model sees a pattern as the id interval it can match.
"""
from __future__ import annotations

import copy
import hashlib
import shutil
from concurrent.futures import ThreadPoolExecutor
from pathlib import Path

import common
from impl import builder, project
from impl.project import F  # noqa: F401  (same arithmetic as Driver.bodyF)

KINDS = {"f": ("f*.txt", 0, 5), "g": ("g*.txt", 5, 5), "all": ("*.txt", 0, 12)}     # offsets 10, 11 are the dot-files .h0.txt, .h1.txt
KIND_IDX = {"f": 0, "g": 1, "all": 2}
PAT_NODE0 = 500000
SRC_NODE = 9000

RT = r'''
"""runtime helper imported by generated C18 task modules (not a task module itself)"""
import os
import re
from pathlib import Path
M61 = 2305843009213693951
ROOT = Path(__file__).resolve().parent
LOG = ROOT / ".verif_log"
DATANAME = "data"
DIRNAMES = {}
D = ROOT / DATANAME

def fname(o):
    return f"f{o}.txt" if o < 5 else (f"g{o - 5}.txt" if o < 10 else f".h{o - 10}.txt")

def log(line):
    with open(LOG, "a") as f:
        f.write(line + "\n")

def F(t, i, src, ds):
    h = 17
    for d in ds:
        h = (h * 31 + ((d + 7) if d is not None else 3)) % M61
    return (((t * 1000003 + i) * 1000003 + (src or 0)) * 1000003 + h) % M61

def nid(p):
    p = Path(p)
    m = re.match(r"d(\d+)", p.parent.name)
    if m and p.parent.parent == D:
        d = int(m.group(1)); nm = p.name
        k = int(nm.lstrip(".")[1])
        return 1000 + 20 * d + (k if nm[0] == "f" else 5 + k if nm[0] == "g" else 10 + k)
    return int(p.stem[1:])

def npath(n):
    if 1000 <= n < 2000:
        d, o = divmod(n - 1000, 20)
        return D / DIRNAMES.get(d, f"d{d}") / fname(o)
    return D / f"n{n}.txt"

def fmt(ls):
    return "|".join(".".join(map(str, l)) for l in ls) or "-"

def start(t, pdeps):
    """pdeps: [(received paths, dir, pattern)] -> sorted received ids per argument; logs them next to the body's own glob"""
    log(f"S {t}")
    got = [sorted(nid(p) for p in lst) for (lst, d, pat) in pdeps]
    seen = [sorted(nid(p) for p in Path(d).glob(pat)) for (lst, d, pat) in pdeps]
    cont = []
    for l in seen:
        for n in l:
            try:
                cont.append(f"{n}:{int(npath(n).read_text())}")
            except (OSError, ValueError):
                cont.append(f"{n}:?")
    log(f"R {t} {fmt(got)} {fmt(seen)} {','.join(cont) or '-'}")
    return got

def body(t, src, cnt, deps, pdeps, prods, pprods, fails):
    got = start(t, pdeps)
    try:
        ds = [int(Path(p).read_text()) for p in deps] + [int(npath(n).read_text()) for l in got for n in l]
        c = int(Path(cnt).read_text()) if cnt is not None else None
        if fails and fails != "late":
            raise RuntimeError(f"task {t} fails")
    except BaseException:
        log(f"X {t}")
        raise
    for i, p in enumerate(prods):
        Path(p).parent.mkdir(parents=True, exist_ok=True)
        Path(p).write_text(str(F(t, i, src, ds)))
    for j, (dirp, lo, ln) in enumerate(pprods):
        n = (c if c is not None else ln) % (ln + 1)
        for o in range(ln):
            p = npath(lo + o)
            if o < n:
                p.parent.mkdir(parents=True, exist_ok=True)
                p.write_text(str(F(t, 1000 * (j + 1) + o, src, ds)))
            elif p.exists():
                p.unlink()
    if fails == "late":
        log(f"X {t}")
        raise RuntimeError(f"task {t} fails after writing its products")
    log(f"E {t}")

def gen_start(t, pdeps, fails, prods=(), src=0):
    """fails: False | True (raises before writing anything) | "late" (writes its products, then raises)"""
    got = start(t, pdeps)
    if fails and fails != "late":
        log(f"X {t}")
        raise RuntimeError(f"generator {t} fails")
    for i, p in enumerate(prods):
        Path(p).parent.mkdir(parents=True, exist_ok=True)
        Path(p).write_text(str(F(t, i, src, [])))
    if fails == "late":
        log(f"X {t}")
        raise RuntimeError(f"generator {t} fails late")
    return [n for l in got for n in l]

def copy_body(base, src, path, produces):
    n = nid(path)
    t = base + n
    log(f"S {t}")
    log(f"R {t} - - -")
    try:
        ds = [int(Path(path).read_text())]
    except BaseException:
        log(f"X {t}")
        raise
    Path(produces).parent.mkdir(parents=True, exist_ok=True)
    Path(produces).write_text(str(F(t, 0, src, ds)))
    log(f"E {t}")
'''


# ------------------------------------------------------------------------------------------------
# geometry
# ------------------------------------------------------------------------------------------------

def pat_id(d: int, kind: str) -> int:
    return 3 * d + KIND_IDX[kind]


def geom(p):
    glob, off, ln = KINDS[p["kind"]]
    return glob, 1000 + 20 * p["dir"] + off, ln


def pat_node(pid) -> int:
    return PAT_NODE0 + int(pid)


def data_name(spec=None) -> str:
    """name of the directory holding all node files (may contain glob metacharacters: it is a literal directory name)"""
    return (spec or {}).get("dataname") or "data"


def dir_name(spec, d) -> str:
    """name of pattern directory d: `d<d>` plus an optional suffix with glob metacharacters"""
    return ((spec or {}).get("dirnames") or {}).get(str(d)) or f"d{d}"


def file_name(o: int) -> str:
    return f"f{o}.txt" if o < 5 else (f"g{o - 5}.txt" if o < 10 else f".h{o - 10}.txt")


def npath(root: Path, n: int, spec=None) -> Path:
    if 1000 <= n < 2000:
        d, o = divmod(n - 1000, 20)
        return root / data_name(spec) / dir_name(spec, d) / file_name(o)
    return root / data_name(spec) / f"n{n}.txt"


def runtime_text(spec) -> str:
    names = {int(d): nm for d, nm in ((spec or {}).get("dirnames") or {}).items()}
    return RT.replace('DATANAME = "data"', f"DATANAME = {data_name(spec)!r}").replace("DIRNAMES = {}", f"DIRNAMES = {names!r}")


def tname(t: int) -> str:
    return f"task_t{t:02d}x"


def pat_of(spec, pid):
    return spec["pats"][str(pid)]


def pat_range(spec, pid):
    _, lo, ln = geom(pat_of(spec, pid))
    return range(lo, lo + ln)


# ------------------------------------------------------------------------------------------------
# rendering
# ------------------------------------------------------------------------------------------------

def task_mod(spec, t) -> int:
    """module of a task: 0 = task_m0.py in the project root, 1 = sub/task_m1.py; a defined task lives in its generator's module"""
    byid = {u["id"]: u for u in spec["tasks"]}
    while t.get("parent") is not None:
        t = byid[t["parent"]]
    return int(t.get("mod") or 0)


def root_dir_expr(spec, d, style, mod) -> str:
    """spelling of the `root_dir` of a DirectoryNode for directory d: absolute, or relative to the directory of the task's
    OWN module (plain, with `./`, with `..` components) — all denote the same directory (collect.py joins and normalises)"""
    dn, dd = data_name(spec), dir_name(spec, d)
    up = "" if mod == 0 else "../"
    if style == "rel":
        return f"Path({up + dn + '/' + dd!r})"
    if style == "dot":
        return f"Path({'./' + up + dn + '/' + dd!r})"
    if style == "dotdot":
        return f"Path({(up + dn + '/../' + dn + '/' + dd) if mod == 0 else ('../sub/../' + dn + '/' + dd)!r})"
    return f"D / {dd!r}"


def _dirnode(spec, pid, name=None, style=None, mod=0) -> str:
    """`name` = a custom `name=` of the DirectoryNode (a label: the node's identity is (root_dir, pattern) only)."""
    p = pat_of(spec, pid)
    nm = f"name={name!r}, " if name else ""
    return f"DirectoryNode({nm}root_dir={root_dir_expr(spec, p['dir'], style, mod)}, pattern={geom(p)[0]!r})"


def after_idents(t):
    """idents of an after-EXPRESSION (string form)"""
    return list(t.get("after") or [])


def after_tasks(t):
    """ids of static tasks named by the function / list form `after=task_x` / `after=[task_x, task_y]`"""
    return list(t.get("after_tasks") or [])


def after_ids(spec, t):
    """ids of all tasks — static, defined by generators, or potentially defined per file — whose name an ident of
    `@task(after="<ident> or <ident> …")` is a substring of (KeywordMatcher: case-insensitive substring of the task name)."""
    idents = after_idents(t)
    if not idents:
        return sorted(set(after_tasks(t)) - {t["id"]})
    cand = {u["id"] for u in spec["tasks"]}
    for g, base in spec.get("perfile", {}).items():
        cand.update(int(base) + n for n in range(1000, 1000 + 20 * 4))
    return sorted({c for c in cand if c != t["id"] and any(i.lower() in tname(c) for i in idents)} | (set(after_tasks(t)) - {t["id"]}))


def _render_task(spec, t, ind: str, kid: bool) -> list[str]:
    L = []
    nodef, params = [], []
    pp_args, pd_args = [], []
    ret_ann = None
    ret_style = (t.get("pstyle") == "return" and len(t["pprods"]) == 1 and not t["prods"])

    def dn(j, kind):
        return f"dir_{kind}{j}_of_t{t['id']}" if t.get("dname") else None
    rs, md = t.get("rstyle"), task_mod(spec, t)
    for j, pid in enumerate(t["pprods"]):
        p = pat_of(spec, pid)
        _, lo, ln = geom(p)
        if ret_style:
            ret_ann = f"Annotated[None, {_dirnode(spec, pid, dn(j, 'p'), rs, md)}]"
            pp_args.append(f"(D / {dir_name(spec, p['dir'])!r}, {lo}, {ln})")
        else:
            nodef.append(f"pp{j}: Annotated[Path, {_dirnode(spec, pid, dn(j, 'p'), rs, md)}, Product]")
            pp_args.append(f"(pp{j}, {lo}, {ln})")
    for j, pid in enumerate(t["pdeps"]):
        p = pat_of(spec, pid)
        if t.get("dstyle") == "annotated":
            nodef.append(f"q{j}: Annotated[list, {_dirnode(spec, pid, dn(j, 'q'), rs, md)}]")
        else:
            params.append(f"q{j}={_dirnode(spec, pid, dn(j, 'q'), rs, md)}")
        pd_args.append(f"(q{j}, D / {dir_name(spec, p['dir'])!r}, {geom(p)[0]!r})")
    cnt = "None"
    if t.get("cnt") is not None:
        params.append(f"cnt: Path = D / 'n{t['cnt']}.txt'")
        cnt = "cnt"
    dep_names = []
    for n in t["deps"]:
        params.append(f"d{n}: Path = D / 'n{n}.txt'")
        dep_names.append(f"d{n}")
    prod_names = []
    if len(t["prods"]) == 1 and not t["pprods"]:
        params.append(f"produces: Path = D / 'n{t['prods'][0]}.txt'")
        prod_names.append("produces")
    else:
        for i, n in enumerate(t["prods"]):
            params.append(f"p{i}: Annotated[Path, Product] = D / 'n{n}.txt'")
            prod_names.append(f"p{i}")
    if t.get("persist"):
        L.append(f"{ind}@pytask.mark.persist")
    deco = []
    if kid:
        # `alias`: the defined task takes the name of an existing task (6571c4f: the generator must fail)
        deco.append(f"name={tname(t['alias'] if t.get('alias') is not None else t['id'])!r}")
    if t.get("gen"):
        deco.append("is_generator=True")
    if after_idents(t):
        deco.append("after=" + repr(" or ".join(after_idents(t))))
    elif after_tasks(t):
        at = after_tasks(t)
        deco.append("after=" + (tname(at[0]) if len(at) == 1 and t.get("after_style") != "list" else "[" + ", ".join(tname(a) for a in at) + "]"))
    if t.get("try_first"):
        L.append(f"{ind}@pytask.mark.try_first")
    for mk in {"pos": ["skipif(False, reason='never')"], "kw": ["skipif(condition=False, reason='never')"],
               "zero": ["skipif(0, reason='never')"], "multi": ["skipif(False, reason='no')", "skipif(condition=0, reason='never')"]
               }.get(t.get("skipif_false"), []):
        L.append(f"{ind}@pytask.mark.{mk}")       # a skipif mark whose condition is false: the task is NOT skipped
    if t.get("uncollectable"):
        # both priority marks: pytask_collect_task_protocol reports FAIL for this task (it cannot be collected)
        L.append(f"{ind}@pytask.mark.try_first")
        L.append(f"{ind}@pytask.mark.try_last")
    if deco:
        L.append(f"{ind}@task({', '.join(deco)})")
    fname = f"_k{t['id']}" if kid else tname(t["id"])
    sig = ", ".join(nodef + params)
    L.append(f"{ind}def {fname}({sig})" + (f" -> {ret_ann}:" if ret_ann else ":"))
    if t.get("gen"):
        if t["prods"] or t.get("fails") == "late":
            L.append(f"{ind}    files = rt.gen_start({t['id']}, [{', '.join(pd_args)}], {t.get('fails')!r}, [{', '.join(prod_names)}], SRC)")
        else:
            L.append(f"{ind}    files = rt.gen_start({t['id']}, [{', '.join(pd_args)}], {bool(t.get('fails'))!r})")
        for k in [u for u in spec["tasks"] if u.get("parent") == t["id"]]:
            L.extend(_render_task(spec, k, ind + "    ", kid=True))
        base = spec.get("perfile", {}).get(str(t["id"]))
        if base is not None:
            L.append(f"{ind}    for n in files:")
            L.append(f"{ind}        @task(name=rt_tname({base} + n))")
            L.append(f"{ind}        def _c(path: Path = rt.npath(n), produces: Path = D / ('n%d.txt' % ({base} + n))):")
            L.append(f"{ind}            return rt.copy_body({base}, SRC, path, produces)")
        L.append(f"{ind}    rt.log('E {t['id']}')")
    else:
        L.append(f"{ind}    return rt.body({t['id']}, SRC, {cnt}, [{', '.join(dep_names)}], [{', '.join(pd_args)}], "
                 f"[{', '.join(prod_names)}], [{', '.join(pp_args)}], {(t.get('fails') if t.get('fails') == 'late' else bool(t.get('fails')))!r})")
    L.append("")
    return L


def modules(spec):
    return sorted({task_mod(spec, t) for t in spec["tasks"]})


def module_file(root: Path, mod: int) -> Path:
    return root / "task_m0.py" if mod == 0 else root / "sub" / "task_m1.py"


def src_node(mod: int) -> int:
    return SRC_NODE + mod


def render_module(spec, src_value=None, mod=0) -> str:
    L = [
        f"# C18 module {mod} version {spec.get('version', 0)}",
        "from __future__ import annotations",
        "from pathlib import Path",
        "from typing import Annotated",
        "import pytask",
        "from pytask import DirectoryNode, Product, task",
        "import _verif_prt as rt",
        f"D = Path(__file__).resolve().parent{'.parent' if mod else ''} / {data_name(spec)!r}",
        f"SRC = {module_content(spec, mod) if src_value is None else src_value}",
        "def rt_tname(t):",
        "    return 'task_t%02dx' % t",
        "",
    ]
    for t in spec["tasks"]:
        if t.get("parent") is None and task_mod(spec, t) == mod:
            L.extend(_render_task(spec, t, "", kid=False))
    return "\n".join(L) + "\n"


def module_content(spec, mod=0) -> int:
    txt = render_module(spec, src_value="@@", mod=mod)
    return int(hashlib.sha1(txt.encode()).hexdigest()[:12], 16) + 1


def materialise(root: Path, spec, clock):
    root.mkdir(parents=True, exist_ok=True)
    (root / "pyproject.toml").write_text("[tool.pytask.ini_options]\n")
    (root / "_verif_prt.py").write_text(runtime_text(spec))
    (root / data_name(spec)).mkdir(exist_ok=True)
    for mod in modules(spec):
        project.write_file(module_file(root, mod), render_module(spec, mod=mod), clock)
    for n, c in spec.get("inputs", {}).items():
        project.write_file(npath(root, int(n), spec), str(c), clock)


def all_nodes(spec, extra=()):
    nodes = set(int(k) for k in spec.get("inputs", {}))
    for t in spec["tasks"]:
        nodes.update(t["deps"])
        nodes.update(t["prods"])
        if t.get("cnt") is not None:
            nodes.add(t["cnt"])
    for pid in spec["pats"]:
        nodes.update(pat_range(spec, pid))
    nodes.update(extra)
    return nodes


def snapshot(root: Path, spec):
    """contents of every modelled file that exists (static nodes, pattern intervals, copy products)."""
    out = {}
    cand = set(all_nodes(spec))
    import re
    data = root / data_name(spec)
    for p in data.iterdir():
        m = re.fullmatch(r"n(\d+)\.txt", p.name)
        if m:
            cand.add(int(m.group(1)))
        md = re.match(r"d(\d+)", p.name)
        if md and p.is_dir():
            for q in p.iterdir():
                mf = re.fullmatch(r"(f|g|\.h)(\d)\.txt", q.name)
                if mf:
                    cand.add(1000 + 20 * int(md.group(1)) + {"f": 0, "g": 5, ".h": 10}[mf.group(1)] + int(mf.group(2)))
    for n in sorted(cand):
        p = npath(root, n, spec)
        try:
            out[n] = int(p.read_text())
        except FileNotFoundError:
            continue
        except (OSError, ValueError):
            out[n] = -1
    return out


def read_log(root: Path):
    p = root / ".verif_log"
    if not p.exists():
        return []
    return [tuple(l.split()) for l in p.read_text().splitlines() if l.strip()]


# ------------------------------------------------------------------------------------------------
# model side
# ------------------------------------------------------------------------------------------------

def _slots(spec, pids):
    out = []
    for pid in pids:
        _, lo, ln = geom(pat_of(spec, pid))
        out.append(f"{pat_node(pid)}:{lo}:{ln}")
    return ",".join(out)


def model_lines(spec):
    lines = ["prov.reset"]
    for t in spec["tasks"]:
        lines.append(
            f"prov.task id={t['alias'] if t.get('alias') is not None else t['id']} src={src_node(task_mod(spec, t))} cnt={'none' if t.get('cnt') is None else t['cnt']} "
            f"deps={','.join(map(str, t['deps']))} pdeps={_slots(spec, t['pdeps'])} prods={','.join(map(str, t['prods']))} "
            f"pprods={_slots(spec, t['pprods'])} after={','.join(map(str, after_ids(spec, t)))} gen={1 if t.get('gen') else 0} fails={1 if t.get('fails') and t.get('fails') != 'late' else 0} late={1 if t.get('fails') == 'late' and not t.get('gen') else 0} "
            f"parent={'none' if t.get('parent') is None else t['parent']} unc={1 if t.get('uncollectable') else 0}")
    for g, base in spec.get("perfile", {}).items():
        lines.append(f"prov.perfile gen={g} base={base}")
    return lines


def name_to_id(name: str):
    base = name.split("::")[-1]
    if base.startswith("task_t") and base.endswith("x"):
        try:
            return int(base[6:-1])
        except ValueError:
            return None
    return None


def derive_picks(obs):
    picks = []
    for r in obs.get("reports", []):
        t = name_to_id(r[0])
        if not picks or picks[-1] != t:
            picks.append(t)
    started = [int(x[1]) for x in obs["log"] if x[0] == "S"]
    extra = [t for t in started if t not in picks]
    return picks + extra[:1]


def parse_recv(s: str):
    out = []
    for e in s.split(";"):
        if not e:
            continue
        t, got, seen = e.split("/")
        out.append((t, got or "-", seen or "-"))
    return out


def replay_in_model(drv, hist, records):
    out = []
    spec = hist["spec"]
    for ln in model_lines(spec):
        if drv.ask(ln) != "ok":
            return [(0, "model rejects the project description", ln, "bad-op")]
    drv.ask("prov.clearfs")
    drv.ask("prov.cleardb")
    sets = [f"{n}:{c}" for n, c in spec["inputs"].items()] + [f"{src_node(m)}:{module_content(spec, m)}" for m in modules(spec)]
    drv.ask(f"prov.fs set={','.join(sets)} del=")
    for i, rec in enumerate(records):
        step = rec["step"]
        if step[0] == "build":
            obs = rec["obs"]
            picks = derive_picks(obs)
            if obs.get("raised") or obs.get("died") or obs.get("timeout") or any(p is None for p in picks):
                out.append((i, "build() raised, did not terminate, or unknown task names", obs.get("raised") or ("timeout" if obs.get("timeout") else obs.get("reports")), None))
                break
            ans = drv.ask(f"prov.build picks={','.join(map(str, picks))}")
            if not ans.startswith("ok "):
                out.append((i, "model rejects the observed schedule", f"picks={picks}", ans))
                break
            kv = dict(p.split("=", 1) for p in ans[3:].split(" "))
            impl_reports = ",".join(f"{name_to_id(r[0])}:{r[1]}" for r in obs["reports"])
            impl_log = ",".join(x[1] for x in obs["log"] if x[0] == "S")
            impl_recv = [(x[1], x[2], x[3]) for x in obs["log"] if x[0] == "R"]
            impl_tasks = ",".join(map(str, sorted(name_to_id(n) for n in obs.get("collected", []))))
            if kv["exit"] != str(obs["exit"]):
                out.append((i, "exit code", obs["exit"], kv["exit"]))
            if kv["reports"] != impl_reports:
                out.append((i, "outcomes", impl_reports, kv["reports"]))
            if kv["log"] != impl_log:
                out.append((i, "executed bodies", impl_log, kv["log"]))
            if parse_recv(kv["recv"]) != impl_recv:
                out.append((i, "file lists received / seen by the bodies", impl_recv, parse_recv(kv["recv"])))
            if kv["tasks"] != impl_tasks:
                out.append((i, "collected tasks (static + generated)", impl_tasks, kv["tasks"]))
            if kv["complete"] != "1":
                out.append((i, "model expects more picks (build loop ended early in the implementation)", impl_reports, ans))
            mfs = dict(e.split(":") for e in kv["fs"].split(",") if e)
            for m in (0, 1):
                mfs.pop(str(src_node(m)), None)
            ifs = {str(n): str(c) for n, c in rec["post"].items()}
            if mfs != ifs:
                diff = sorted(set(mfs.items()) ^ set(ifs.items()))[:4]
                out.append((i, "file contents after the build", diff, None))
            if out:
                break
        elif step[0] == "write":
            drv.ask(f"prov.fs set={step[1]}:{step[2]} del=")
        elif step[0] == "delete":
            drv.ask(f"prov.fs set= del={step[1]}")
        elif step[0] == "touch":
            pass
        else:
            raise ValueError(step[0])
    return out


# ------------------------------------------------------------------------------------------------
# running a history on the real code
# ------------------------------------------------------------------------------------------------

BUILD_TIMEOUT = 30.0     # a build of these projects takes well under a second; a build that never ends is an observation


class TimedServer(builder.BuildServer):
    """BuildServer whose builds have a deadline: a build that does not terminate (e.g. tasks handed out again and again)
    is reported as {"timeout": True}; the server (own process group, with the forked build) is killed and restarted."""

    def __init__(self, hashseed: int):
        self.hashseed = hashseed
        self.lock = __import__("threading").Lock()
        self._start()

    def _start(self):
        import os
        import subprocess
        env = dict(os.environ, PYTHONHASHSEED=str(self.hashseed), PYTHONDONTWRITEBYTECODE="1")
        self.p = subprocess.Popen([common.PY, str(builder.SERVER)], stdin=subprocess.PIPE, stdout=subprocess.PIPE, text=True,
                                  env=env, cwd="/", start_new_session=True)

    def build(self, root, kw=None, env=None, **opts):
        import json
        import os
        import select
        import signal
        job = {"root": str(root), "kw": kw or {}, "env": env or {}}
        job.update(opts)
        with self.lock:
            self.p.stdin.write(json.dumps(job) + "\n")
            self.p.stdin.flush()
            ready, _, _ = select.select([self.p.stdout], [], [], BUILD_TIMEOUT)
            if not ready:
                try:
                    os.killpg(self.p.pid, signal.SIGKILL)
                except OSError:
                    pass
                self.p.wait()
                self._start()
                return {"timeout": True, "reports": [], "exit": None, "collected": []}
            line = self.p.stdout.readline()
        if not line:
            raise common.InfraError("build server died")
        res = json.loads(line)
        if "harness_error" in res:
            raise common.InfraError("build child harness error: " + res["harness_error"])
        return res

    def close(self):
        import os
        import signal
        try:
            self.p.stdin.close()
            self.p.wait(timeout=10)
        except Exception:
            try:
                os.killpg(self.p.pid, signal.SIGKILL)
            except OSError:
                pass


class TimedPool:
    def __init__(self, hashseeds):
        self.servers = [TimedServer(h) for h in hashseeds]

    def pick(self, i):
        return self.servers[i % len(self.servers)]

    def close(self):
        for s in self.servers:
            s.close()


def run_history(server, hist, keep=False):
    root = common.scratch_dir("prov")
    clock = project.Clock()
    spec = copy.deepcopy(hist["spec"])
    records = []
    try:
        materialise(root, spec, clock)
        for step in hist["steps"]:
            kind = step[0]
            rec = {"step": step}
            if kind == "build":
                (root / ".verif_log").unlink(missing_ok=True)
                pre = snapshot(root, spec)
                obs = server.build(root, dict(hist.get("kw") or {}))
                obs["log"] = read_log(root)
                rec.update({"obs": obs, "pre": pre, "post": snapshot(root, spec), "hashseed": server.hashseed})
                if obs.get("timeout"):
                    records.append(rec)
                    break
            elif kind == "write":
                project.write_file(npath(root, step[1], spec), str(step[2]), clock)
            elif kind == "touch":
                p = npath(root, step[1], spec)
                if p.exists():
                    project.write_file(p, p.read_text(), clock)
            elif kind == "delete":
                npath(root, step[1], spec).unlink(missing_ok=True)
            else:
                raise ValueError(kind)
            records.append(rec)
        return records
    finally:
        if not keep:
            shutil.rmtree(root, ignore_errors=True)


# ------------------------------------------------------------------------------------------------
# generation of specs and histories
# ------------------------------------------------------------------------------------------------

def gen_spec(rng, *, overlap_p=0.08, fail_p=0.06):
    ndirs = rng.randint(1, 2)
    pats = {}
    tasks = []
    inputs = {}
    perfile = {}
    next_node = [100]
    next_tid = [1]

    def new_node(content=None):
        n = next_node[0]
        next_node[0] += 1
        if content is not None:
            inputs[str(n)] = content
        return n

    def new_tid():
        t = next_tid[0]
        next_tid[0] += 1
        return t

    def use_pat(d, kind):
        pid = pat_id(d, kind)
        pats[str(pid)] = {"dir": d, "kind": kind}
        return pid

    produced = []          # pattern ids that have a producer
    cover = {}             # dir -> kinds produced
    for d in range(ndirs):
        r = rng.random()
        kinds = ["f"] if r < 0.45 else (["all"] if r < 0.7 else (["f", "g"] if r < 0.9 else []))
        if kinds and rng.random() < overlap_p:
            kinds = ["f", "all"]      # overlapping producers: the re-created DAG has a node with two producers
        for kind in kinds:
            pid = use_pat(d, kind)
            t = {"id": new_tid(), "cnt": new_node(rng.randint(0, 6)) if rng.random() < 0.9 else None,
                 "deps": [new_node(rng.randint(1, 50))] if rng.random() < 0.5 else [], "pdeps": [],
                 "prods": [new_node()] if rng.random() < 0.25 else [], "pprods": [pid], "gen": False,
                 "fails": rng.choice([True, "late"]) if rng.random() < fail_p else False, "parent": None,
                 "pstyle": rng.choice(["param", "return"]), "dstyle": "default"}
            tasks.append(t)
            produced.append(pid)
        cover[d] = kinds

    def some_pat():
        d = rng.randrange(ndirs)
        if cover[d] and rng.random() < 0.75:
            kind = rng.choice(cover[d] + (["all"] if rng.random() < 0.2 else []))
        else:
            kind = rng.choice(["f", "g", "all"])
        return use_pat(d, kind)

    def consumer(parent=None):
        pd = [some_pat()]
        if rng.random() < 0.2:
            q = some_pat()
            if q not in pd:
                pd.append(q)
        stat = [p for t in tasks for p in t["prods"] if t.get("parent") is None and not t["pdeps"]]
        deps = []
        if rng.random() < 0.3:
            deps.append(new_node(rng.randint(1, 50)))
        if stat and rng.random() < 0.2:
            deps.append(rng.choice(stat))
        return {"id": new_tid(), "cnt": None, "deps": deps, "pdeps": pd, "prods": [new_node() for _ in range(rng.choice([1, 1, 1, 2, 0]))],
                "pprods": [], "gen": False, "fails": rng.choice([True, "late"]) if rng.random() < fail_p else False, "parent": parent, "pstyle": "param",
                "dstyle": rng.choice(["default", "annotated"])}

    for _ in range(rng.choice([1, 1, 2, 2, 3])):
        tasks.append(consumer())
    # a plain task downstream of a consumer
    cons_prods = [p for t in tasks for p in t["prods"] if t["pdeps"]]
    if cons_prods and rng.random() < 0.4:
        tasks.append({"id": new_tid(), "cnt": None, "deps": [rng.choice(cons_prods)], "pdeps": [], "prods": [new_node()], "pprods": [],
                      "gen": False, "fails": False, "parent": None, "pstyle": "param", "dstyle": "default"})
    for gi in range(rng.choice([0, 1, 1, 1, 2])):
        g = {"id": new_tid(), "cnt": None, "deps": [new_node(rng.randint(1, 50))] if rng.random() < 0.2 else [],
             "pdeps": [some_pat()] if rng.random() < 0.85 else [], "prods": [], "pprods": [], "gen": True,
             "fails": rng.random() < fail_p, "parent": None, "pstyle": "param", "dstyle": rng.choice(["default", "annotated"])}
        tasks.append(g)
        kinds = rng.choice(["per", "per", "fixed", "both"]) if g["pdeps"] else "fixed"
        if kinds in ("per", "both"):
            perfile[str(g["id"])] = 20000 + 2000 * gi
        if kinds in ("fixed", "both"):
            for _ in range(rng.randint(1, 2)):
                if rng.random() < 0.5:
                    k = consumer(parent=g["id"])
                else:
                    # a plain defined task; it may depend on a product of a collected task (which may have failed before it is defined)
                    up = [p for t in tasks for p in t["prods"] if t.get("parent") is None and not t["gen"]]
                    k = {"id": new_tid(), "cnt": None,
                         "deps": ([rng.choice(up)] if up and rng.random() < 0.45 else []) + ([new_node(rng.randint(1, 50))] if rng.random() < 0.5 else []), "pdeps": [],
                         "prods": [new_node()], "pprods": [], "gen": False, "fails": False, "parent": g["id"], "pstyle": "param",
                         "dstyle": "default"}
                if rng.random() < 0.1:
                    k["uncollectable"] = True     # collection of this defined task fails: the generator itself must FAIL (f1fcb9a)
                elif rng.random() < 0.08:
                    k["alias"] = rng.choice([t["id"] for t in tasks if t.get("parent") is None])   # name of an existing task (6571c4f)
                tasks.append(k)
    # a custom `name=` on the DirectoryNodes of some tasks (a label only: producer and consumer still share one node)
    for t in tasks:
        if (t["pdeps"] or t["pprods"]) and rng.random() < 0.3:
            t["dname"] = True
    # a task ordered ONLY by `after=` — expression (matching static tasks and / or tasks a generator defines during the build),
    # function or list form; its targets include tasks whose only product is a directory pattern; it does not depend on the pattern
    if rng.random() < 0.55:
        style = rng.choice(["expr", "expr", "func", "list"])
        statics = [t for t in tasks if t.get("parent") is None and not t["gen"] and (t["prods"] or t["pprods"])]
        producers = [t for t in statics if t["pprods"] and not t["prods"]]
        idents, targets = [], []
        if style == "expr":
            for g in [t for t in tasks if t["gen"]]:
                if str(g["id"]) in perfile and rng.random() < 0.8:
                    idents.append(f"task_t{(perfile[str(g['id'])] + 1000) // 100}")      # all copy tasks of that generator
                for k in [u for u in tasks if u.get("parent") == g["id"] and u["prods"]]:
                    if rng.random() < 0.6:
                        idents.append(tname(k["id"]))
            for c in statics:
                if rng.random() < (0.5 if c in producers else 0.2):
                    idents.append(tname(c["id"]))
            rng.shuffle(idents)
            idents = idents[:3]
        elif statics:
            pool = producers if producers and rng.random() < 0.7 else statics
            targets = sorted({u["id"] for u in rng.sample(pool, 1 if style == "func" else min(len(pool), rng.randint(1, 2)))})
        if idents or targets:
            cons_prods = [p for t in tasks for p in t["prods"] if t["pdeps"] and t.get("parent") is None]
            x = {"id": new_tid(), "cnt": None, "deps": [rng.choice(cons_prods)] if cons_prods and rng.random() < 0.4 else [],
                 "pdeps": [], "prods": [new_node()], "pprods": [], "gen": False, "fails": False, "parent": None,
                 "pstyle": "param", "dstyle": "default", "try_first": rng.random() < 0.5}
            if idents:
                x["after"] = idents
            else:
                x["after_tasks"], x["after_style"] = targets, style
            tasks.append(x)
    # a skipif mark whose condition is FALSE (positional, keyword, 0, several marks) on producers / upstream tasks: they are not
    # skipped, and neither are their descendants
    for t in tasks:
        if t.get("parent") is None and not t.get("after_tasks") and rng.random() < (0.3 if t["pprods"] or t["prods"] else 0.1):
            t["skipif_false"] = rng.choice(["pos", "kw", "zero", "multi"])
    # task modules in two directories (project root and sub/) and different spellings of one root_dir: absolute, relative to the
    # task's own module (plain, `./`, with `..`) — producer and consumer of a directory share ONE node however it is spelled
    if rng.random() < 0.6:
        pinned = {i for t in tasks for i in ([t["id"]] + list(t.get("after_tasks") or [])) if t.get("after_tasks")}
        pinned |= {i for t in tasks if t.get("alias") is not None for i in (t["alias"], t["parent"])}
        for t in tasks:
            if t.get("parent") is None and t["id"] not in pinned and rng.random() < 0.5:
                t["mod"] = 1
        for t in tasks:
            if (t["pdeps"] or t["pprods"]) and rng.random() < 0.75:
                t["rstyle"] = rng.choice(["rel", "dot", "dotdot", "abs"])
    spec = {"pats": pats, "tasks": tasks, "perfile": perfile, "inputs": inputs, "version": 0}
    # directory names with glob metacharacters (literal names: DirectoryNode globs the pattern below root_dir only)
    names = {str(d): f"d{d}" + rng.choice(["[x]", "[ab]", " q?", "*", "[!a]b"]) for d in range(ndirs) if rng.random() < 0.3}
    if names:
        spec["dirnames"] = names
    if rng.random() < 0.12:
        spec["dataname"] = rng.choice(["data[1]", "da*ta", "data?"])
    return spec


def gen_steps(rng, spec, rounds=(2, 5)):
    """build, then rounds of edits + build: counts grow / shrink, contents change, files dropped in / removed by hand."""
    steps = []
    produced = {pid for t in spec["tasks"] for pid in t["pprods"]}
    for pid in spec["pats"]:
        if int(pid) not in produced and rng.random() < 0.8:
            for n in rng.sample(list(pat_range(spec, pid)), rng.randint(1, 3)):
                steps.append(["write", n, rng.randint(1, 9)])
    steps.append(["build"])
    cnts = [t["cnt"] for t in spec["tasks"] if t.get("cnt") is not None]
    others = [int(n) for n in spec["inputs"] if int(n) not in cnts]
    ranges = sorted({n for pid in spec["pats"] for n in pat_range(spec, pid)})
    dirs = sorted({p["dir"] for p in spec["pats"].values()})
    allfiles = [1000 + 20 * d + o for d in dirs for o in list(range(10)) + [10, 10, 11]]
    for _ in range(rng.randint(*rounds)):
        r = rng.random()
        edits = []
        if r < 0.12:
            pass                                    # nothing changes
        else:
            for _ in range(rng.choice([1, 1, 1, 2, 3])):
                k = rng.random()
                if k < 0.3 and cnts:
                    edits.append(["write", rng.choice(cnts), rng.randint(0, 6)])
                elif k < 0.4 and others:
                    edits.append(["write", rng.choice(others), rng.randint(1, 50)])
                elif k < 0.6:
                    edits.append(["write", rng.choice(allfiles), rng.randint(1, 9)])     # drop in / modify by hand
                elif k < 0.85:
                    edits.append(["delete", rng.choice(allfiles if rng.random() < 0.7 else ranges)])
                elif k < 0.92:
                    edits.append(["touch", rng.choice(allfiles)])
                else:
                    prods = [p for t in spec["tasks"] for p in t["prods"]]
                    if prods:
                        edits.append(["delete", rng.choice(prods)])
        steps += edits
        steps.append(["build"])
    return steps
