#!/venv/bin/python
"""Runs pytask's optree wrappers (`_pytask.tree_util`) and the two `PyTreeSpec` methods `execute.py` uses on JSON-encoded
trees and prints canonical observations, one JSON list on stdout.

stdin: JSON list of cases  {"id":…, "kind":"info", "t":<tree>} | {"id":…, "kind":"pair", "s":<tree>, "o":<tree>}
<tree> ::= ["leaf", label] | ["none"] | ["list", [<tree>…]] | ["tuple", [<tree>…]] | ["dict", [[key, <tree>]…]]   (dict items in insertion order)

Canonical text of a tree (shared with the Lean driver): `*tok` · `L[…]` · `U[…]` · `D[k:t,…]` with items sorted by key.
"""
import json
import sys


class Lf:
    """marker for a leaf produced by the harness (never a container for optree)."""
    __slots__ = ("s",)

    def __init__(self, s):
        self.s = s


def build(t):
    k = t[0]
    if k == "leaf":
        return Lf(str(t[1]))
    if k == "none":
        return None
    if k == "list":
        return [build(c) for c in t[1]]
    if k == "tuple":
        return tuple(build(c) for c in t[1])
    if k == "dict":
        return {key: build(c) for key, c in t[1]}
    raise ValueError(k)


def key_tok(k):
    return f"i{k}" if isinstance(k, int) else f"s{k}"


def enc(o, leaf=lambda x: x.s if isinstance(x, Lf) else "N"):
    if isinstance(o, list):
        return "L[" + ",".join(enc(c, leaf) for c in o) + "]"
    if isinstance(o, tuple):
        return "U[" + ",".join(enc(c, leaf) for c in o) + "]"
    if isinstance(o, dict):
        return "D[" + ",".join(f"{key_tok(k)}:{enc(o[k], leaf)}" for k in sorted(o)) + "]"
    return "*" + leaf(o)


def path_txt(tree, path):
    """canonical text of an optree path, told apart by walking the tree: `#i` sequence index, `i<k>`/`s<k>` dict key."""
    out, cur = [], tree
    for step in path:
        if isinstance(cur, dict):
            out.append(key_tok(step))
        else:
            out.append(f"#{step}")
        cur = cur[step]
    return ("/".join(out) if out else "."), cur


def main():
    from _pytask import tree_util as tu
    import optree
    cases = json.load(sys.stdin)
    res = []
    for c in cases:
        if c["kind"] == "info":
            t = build(c["t"])
            leaves = tu.tree_leaves(t)
            spec = tu.tree_structure(t)
            paths_leaves, _ = None, None
            flat = tu.tree_flatten_with_path(t)
            paths = list(flat[0])
            wp = tu.tree_map_with_path(lambda p, x: Lf(path_txt(t, p)[0] + "@" + (x.s if isinstance(x, Lf) else "N")), t)
            at_ok = len(paths) == len(leaves) and all(path_txt(t, p)[1] is l for p, l in zip(paths, leaves)) and list(flat[1]) == leaves
            try:
                back = enc(spec.unflatten(leaves))
            except Exception:  # noqa: BLE001
                back = "none"
            struct = enc(spec.unflatten([Lf("")] * spec.num_leaves))
            mapped = enc(tu.tree_map(lambda x: Lf("m" + (x.s if isinstance(x, Lf) else "N")), t))
            res.append({"id": c["id"],
                        "obs": f"wf=1 leaves={','.join(l.s if isinstance(l, Lf) else 'N' for l in leaves)} struct={struct} "
                               f"paths={';'.join(path_txt(t, p)[0] for p in paths)} mapwp={enc(wp)} unflat={back} at={1 if at_ok else 0}",
                        "mapped": mapped})
        elif c["kind"] == "pair":
            s, o = build(c["s"]), build(c["o"])
            ss, so = tu.tree_structure(s), tu.tree_structure(o)
            pre = ss.is_prefix(so, strict=bool(c.get("strict", False)))
            try:
                vals = ss.flatten_up_to(o)
                flat = ";".join(enc(v) for v in vals) if vals else "empty"
            except ValueError:
                flat = "none"
            res.append({"id": c["id"], "obs": f"prefix={1 if pre else 0} flat={flat}"})
        elif c["kind"] == "unflatten":
            s = build(c["s"])
            try:
                back = enc(tu.tree_structure(s).unflatten([Lf(x) for x in c["l"]]))
            except ValueError:
                back = "none"
            res.append({"id": c["id"], "obs": back})
    json.dump(res, sys.stdout)


if __name__ == "__main__":
    main()
