"""End-to-end engine campaigns: generated projects × histories of builds and edits on the REAL pytask,
replayed step by step in the Lean engine model (M6), with property oracles that only look at
implementation observations.

A *history* is a spec plus a list of steps; a step is ("build", cfg) or an edit. Every real build runs in a fresh
forked child of a build server (its own interpreter state), under that server's PYTHONHASHSEED.
"""
from __future__ import annotations

import copy
import shutil
from concurrent.futures import ThreadPoolExecutor
from pathlib import Path

import common
from impl import builder, project

OUTCOMES_NOT_RUN = {"SKIP", "SKIP_UNCHANGED", "SKIP_PREVIOUS_FAILED", "PERSISTENCE", "WOULD_BE_EXECUTED"}


# ------------------------------------------------------------------------------------------------
# spec generation
# ------------------------------------------------------------------------------------------------

def gen_spec(rng, *, nt=(2, 6), marks=(), behs=("ok",), after_p=0.3, nomods=(1, 3), prodless_p=0.15,
             multi_prod_p=0.25, dens=0.5, user_markers=False, styles=("default", "annotated", "kwargs", "return"),
             after_needs_prods=False, marks_below_p=0.0, link_p=0.0, dirprod_p=0.0, hashed_p=0.0, bag_p=0.0, subdir_p=0.0, pygroup_p=0.0, kwsplit_p=0.0):
    n = rng.randint(*nt)
    nmods = rng.randint(*nomods)
    tasks = []
    next_node = 100
    inputs = {}
    for _ in range(rng.randint(1, 3)):
        inputs[next_node] = rng.randint(1, 50)
        next_node += 1
    produced = []   # (node, producer)
    for tid in range(n):
        deps = []
        pool = list(inputs) + [p for p, _ in produced]
        for nd in pool:
            if rng.random() < dens / max(1, len(pool) ** 0.5):
                deps.append(nd)
        if not deps and rng.random() < 0.7:
            deps.append(rng.choice(pool))
        prods = []
        if rng.random() >= prodless_p:
            for _ in range(2 if rng.random() < multi_prod_p else 1):
                prods.append(next_node)
                next_node += 1
        after = []
        cands = [u["id"] for u in tasks if u["prods"] or not after_needs_prods]
        if cands and rng.random() < after_p:
            after = rng.sample(cands, rng.randint(1, min(2, len(cands))))
        t = {"id": tid, "module": rng.randrange(nmods), "deps": sorted(set(deps)), "prods": prods, "after": sorted(after),
             "after_style": rng.choice(["func", "list", "expr"]), "marks": [], "beh": "ok", "style": rng.choice(styles)}
        for mk, p in marks:
            if rng.random() < p:
                t["marks"].append(mk)
        if "try_first" in t["marks"] and "try_last" in t["marks"]:
            t["marks"].remove("try_last")
        if user_markers:
            for mk in ("markone", "marktwo"):
                if rng.random() < 0.3:
                    t["marks"].append(mk)
        b = rng.choice(behs)
        if b == "omit":
            b = f"omit:{rng.randrange(len(prods))}" if prods else "early"
        t["beh"] = b
        if marks_below_p and t["marks"] and rng.random() < marks_below_p:
            t["marks_below"] = True
        if t["style"] == "return" and (b not in ("ok", "early") or not prods):
            t["style"] = "default"
        tasks.append(t)
        for p in prods:
            produced.append((p, tid))
    spec = {"tasks": tasks, "versions": {str(m): 0 for m in range(nmods)}, "inputs": {str(k): v for k, v in inputs.items()}}
    # optional features (off by default, the extra random draws only happen when a feature is requested)
    if link_p:
        spec["links"] = [k for k in inputs if rng.random() < link_p]          # inputs that are symlinks, edited through the target
    if dirprod_p:
        aftered = {a for t in tasks for a in t["after"]}
        for t in tasks:
            if t["prods"] and t["id"] not in aftered and t["beh"] == "ok" and rng.random() < dirprod_p:
                t["dirprod"] = rng.choice(["a", "z"])                          # DirectoryNode product before / after the file products
    if hashed_p:
        for t in tasks:
            if rng.random() < hashed_p:
                t["hashed"] = True                                             # constant hashed PythonNode dependency
    if bag_p:
        for t in tasks:
            if t["deps"] and t["beh"] == "ok" and rng.random() < bag_p:
                k = rng.randint(1, len(t["deps"]))
                t["bag"] = {"kind": rng.choice(["dict", "list", "tuple"]), "deps": sorted(rng.sample(t["deps"], k))}   # deps inside a container with plain values
    if kwsplit_p:
        for t in tasks:
            if t["style"] == "kwargs" and len(t["deps"]) >= 2 and rng.random() < kwsplit_p:
                t["kw_split"] = rng.randint(1, len(t["deps"]) - 1)             # some dependencies in @task(kwargs=…), the rest as defaults
    if pygroup_p:
        for t in tasks:
            if not (t["prods"] and t["beh"] == "ok" and rng.random() < pygroup_p):
                continue
            k = rng.randint(2, 3)
            bagged = (t.get("bag") or {}).get("deps", [])
            cand = [d for d in t["deps"] if d in inputs and d not in bagged]
            while len(cand) < k:                      # not enough input dependencies: give the task further inputs
                free = [n for n in inputs if n not in t["deps"]]
                if free:
                    n = rng.choice(free)
                else:
                    n = max([x for u in tasks for x in u["deps"] + u["prods"]] + list(inputs)) + 1
                    inputs[n] = rng.randint(1, 50)
                    spec["inputs"][str(n)] = inputs[n]
                t["deps"] = sorted(set(t["deps"]) | {n})
                cand.append(n)
            t["pyhash_group"] = {"kind": rng.choice(["tuple", "list", "grid"]), "deps": rng.sample(cand, k)}   # order = order inside the value
            spec["nodelete"] = sorted(set(spec.get("nodelete", [])) | set(t["pyhash_group"]["deps"]))        # read at import time: never deleted
            for n in t["pyhash_group"]["deps"]:       # three-digit contents (as every later write): the digit strings of a group cannot be cut in two
                inputs[n] = rng.randint(100, 999)     # ways, i.e. the separator-less join of finding F3 (C12) is not hit by chance; F3 is replayed apart
                spec["inputs"][str(n)] = inputs[n]
    if subdir_p:
        sd = {str(m): f"pkg{m}" for m in sorted({t["module"] for t in tasks}) if rng.random() < subdir_p}
        if sd:
            spec["subdirs"] = sd                                               # modules in sub-directories with a section-less pyproject.toml
    return spec


def vary_decorators(rng, spec, p=0.35):
    """Decorator stacks: for a share of the marked tasks, put the markers below / above @task(...) and add a functools.wraps
    pass-through decorator at the top, in the middle or at the bottom of the stack (all orders are legal pytask)."""
    for t in spec["tasks"]:
        if t.get("marks") and not t.get("gen") and rng.random() < p:
            t["wrap"] = rng.choice(["top", "mid", "bottom"])
            t["marks_below"] = rng.random() < 0.5
            t["force_decorator"] = rng.random() < 0.7
    return spec


# ------------------------------------------------------------------------------------------------
# spec-level graph helpers (independent of pytask and of the Lean model)
# ------------------------------------------------------------------------------------------------

def spec_task_edges(spec):
    """u -> t when t consumes a product of u, or t declares after=u."""
    prod_of = {}
    for t in spec["tasks"]:
        for p in t["prods"]:
            prod_of.setdefault(p, []).append(t["id"])
    edges = set()
    for t in spec["tasks"]:
        for d in t["deps"]:
            for u in prod_of.get(d, []):
                edges.add((u, t["id"]))
        for a in t.get("after", []):
            if a != t["id"]:
                edges.add((a, t["id"]))
        for a in t.get("mem_in", []):          # optional: consumes the in-memory product of task a
            edges.add((a, t["id"]))
        for a in t.get("dirdep", []):          # optional: consumes the DirectoryNode product (`dirprod`) of task a
            edges.add((a, t["id"]))
    return edges


def closure(edges, start, forward=True):
    adj = {}
    for a, b in edges:
        if forward:
            adj.setdefault(a, set()).add(b)
        else:
            adj.setdefault(b, set()).add(a)
    seen, stack = set(), list(adj.get(start, ()))
    while stack:
        x = stack.pop()
        if x in seen:
            continue
        seen.add(x)
        stack.extend(adj.get(x, ()))
    return seen


def f1_edges(spec):
    """after-edges whose target has no products (finding F1: such an edge is ignored by `_modify_dag`)."""
    byid = {t["id"]: t for t in spec["tasks"]}
    return {(a, t["id"]) for t in spec["tasks"] for a in t.get("after", []) if a in byid and not byid[a]["prods"] and a != t["id"]}


def scratch_contents(spec, inputs):
    """What a from-scratch build leaves: evaluate F along the product DAG (None if something upstream is missing)."""
    byprod = {}
    for t in spec["tasks"]:
        for i, p in enumerate(t["prods"]):
            byprod[p] = (t, i)
    memo = {}

    def val(n, depth=0):
        if n in memo:
            return memo[n]
        if depth > 200:
            return None
        if n in byprod:
            t, i = byprod[n]
            ds = [val(d, depth + 1) for d in t["deps"]]
            if any(d is None for d in ds) or t.get("beh", "ok") != "ok":
                v = None
            else:
                v = project.F(t["id"], i, project.module_content(spec, t["module"]), ds)
        else:
            v = inputs.get(n)
        memo[n] = v
        return v

    return {p: val(p) for p in byprod}


# ------------------------------------------------------------------------------------------------
# running one history
# ------------------------------------------------------------------------------------------------

def name_to_id(name: str):
    # task_t03x -> 3
    base = name.split("::")[-1]
    if base.startswith("task_t") and base.endswith("x"):
        try:
            return int(base[6:-1])
        except ValueError:
            return None
    return None


def derive_picks(obs):
    """Order in which protocols ran = order of reports; a crashed protocol (no report) is the last body started."""
    picks = [name_to_id(r[0]) for r in obs.get("reports", [])]
    started = [int(x[1]) for x in obs["log"] if x[0] == "S"]
    extra = [t for t in started if t not in picks]
    return picks + extra[:1], bool(extra)


def run_history(server, hist, ctx=None, keep=False, servers=None):
    """Executes hist on the real code. Returns list of records (one per step).
    servers: optional list of build servers (distinct PYTHONHASHSEEDs) to rotate through for the successive builds."""
    nbuild = 0
    extra_dirs = []
    root = common.scratch_dir("eng")
    clock = project.Clock()
    spec = copy.deepcopy(hist["spec"])
    records = []
    try:
        project.materialise(root, spec, clock)
        contents = {int(k): v for k, v in spec["inputs"].items()}
        for step in hist["steps"]:
            kind = step[0]
            rec = {"step": step}
            if kind == "build":
                cfg = step[1]
                project.clear_log(root)
                project.write_config_file(root, cfg)      # options this build takes from the config file (cfg["maxfail_src"])
                pre = project.snapshot_nodes(root, spec)
                if servers:
                    server = servers[nbuild % len(servers)]
                    nbuild += 1
                opts = {"paths": [cfg["sub"]]} if cfg.get("sub") else {}           # build restricted to one sub-directory of the project
                if cfg.get("via") == "rel":      # the same project addressed as ../<name> from a sibling working directory
                    side = root.parent / (root.name + "_cwd")
                    side.mkdir(exist_ok=True)
                    extra_dirs.append(side)
                    opts = {"cwd": str(side), "raw_paths": [f"../{root.name}"]}
                elif cfg.get("via") == "link":   # ... or through a symbolic link to the project directory
                    alias = root.parent / (root.name + "_alias")
                    if not alias.is_symlink():
                        alias.symlink_to(root, target_is_directory=True)
                    extra_dirs.append(alias)
                    opts = {"raw_paths": [str(alias)]}
                if hist.get("as_tasks"):         # the programmatic interface: build(tasks=[every task function of the project])
                    opts = {"as_tasks": True}
                obs = server.build(root, builder.cfg_to_kw(cfg), env=step[2] if len(step) > 2 else None, **opts)
                obs["log"] = project.read_log(root)
                post = project.snapshot_nodes(root, spec)
                rec.update({"cfg": cfg, "obs": obs, "pre": pre, "post": post, "spec": copy.deepcopy(spec), "hashseed": server.hashseed})
            elif kind == "write":      # ("write", node, content)
                project.write_file(project.node_path(root, step[1]), str(step[2]), clock)
            elif kind == "touch":      # same bytes, new mtime
                p = project.node_path(root, step[1])
                if p.exists():
                    project.write_file(p, p.read_text(), clock)
            elif kind == "flag":       # ("flag", task, 0|1): untracked failure switch read by the task body
                f = root / "flags" / f"t{step[1]}"
                if step[2]:
                    f.parent.mkdir(exist_ok=True)
                    f.write_text("1")
                else:
                    f.unlink(missing_ok=True)
            elif kind == "delete":
                p = project.node_path(root, step[1])
                (p.resolve() if p.is_symlink() else p).unlink(missing_ok=True)   # a link stays, its target goes
            elif kind == "bump":       # ("bump", module)
                m = str(step[1])
                spec["versions"][m] = spec["versions"].get(m, 0) + 1
                project.rewrite_modules(root, spec, clock, only={step[1]})
            elif kind == "setver":     # ("setver", module, version)  (revert)
                spec["versions"][str(step[1])] = step[2]
                project.rewrite_modules(root, spec, clock, only={step[1]})
            elif kind == "setbeh":     # ("setbeh", task, beh)  toggles a failure without touching the module text? no: module text changes
                for t in spec["tasks"]:
                    if t["id"] == step[1]:
                        t["beh"] = step[2]
                project.rewrite_modules(root, spec, clock)
            elif kind == "respec":     # ("respec", newspec) structural edit: add/remove/rewire tasks
                newspec = copy.deepcopy(step[1])
                newspec["versions"] = newspec.get("versions", {}) | spec["versions"]   # current versions win
                spec = newspec
                project.rewrite_modules(root, spec, clock)
                for n, c in spec.get("inputs", {}).items():
                    p = project.node_path(root, int(n))
                    if not p.exists():
                        project.write_file(p, str(c), clock)
            else:
                raise ValueError(kind)
            rec["spec_after"] = copy.deepcopy(spec) if kind != "build" else None
            records.append(rec)
        return records
    finally:
        if not keep:
            shutil.rmtree(root, ignore_errors=True)
        for d in extra_dirs:
            if d.is_symlink():
                d.unlink(missing_ok=True)
            else:
                shutil.rmtree(d, ignore_errors=True)


# ------------------------------------------------------------------------------------------------
# model replay
# ------------------------------------------------------------------------------------------------

def cfg_model_args(cfg, spec, sel_eval):
    mf = "inf" if cfg.get("maxfail") is None else str(int(cfg["maxfail"]))
    selk = "none"
    selm = "none"
    if cfg.get("k"):
        selk = ",".join(map(str, sel_eval("k", cfg["k"], spec)))
    if cfg.get("m"):
        selm = ",".join(map(str, sel_eval("m", cfg["m"], spec)))
    return f"force={1 if cfg.get('force') else 0} dry={1 if cfg.get('dry') else 0} maxfail={mf} selk={selk} selm={selm}"


def replay_in_model(drv, hist, records, sel_eval=None):
    """Feeds the same history to the Lean engine; returns list of (step index, what, impl, model) disagreements."""
    out = []
    spec = hist["spec"]
    flagged = set()      # tasks whose untracked failure switch is on: the body raises early, module content unchanged
    for ln in project.model_lines(spec):
        drv.ask(ln)
    drv.ask(project.model_fs_line(spec, {int(k): v for k, v in spec["inputs"].items()}))
    drv.ask("engine.cleardb")
    for i, rec in enumerate(records):
        step = rec["step"]
        kind = step[0]
        if kind == "build":
            obs = rec["obs"]
            spec = rec["spec"]
            picks, crashed = derive_picks(obs)
            if obs.get("raised") or obs.get("died") or any(p is None for p in picks):
                out.append((i, "build() raised or unknown task names", obs.get("raised"), None))
                break
            for t in spec["tasks"]:
                if t["id"] in flagged:
                    for ln in project.model_lines({**spec, "tasks": [{**t, "beh": "early"}]})[1:]:
                        drv.ask(ln)
            outside = []
            if rec["cfg"].get("sub"):
                sd = spec.get("subdirs", {})
                outside = [t for t in spec["tasks"] if sd.get(str(t["module"])) != rec["cfg"]["sub"]]
                for t in outside:
                    drv.ask(f"engine.rmtask id={t['id']}")
            # sync the model's view of files with what is on disk before the build (edits were mirrored below)
            ans = drv.ask(f"engine.build {cfg_model_args(rec['cfg'], spec, sel_eval)} picks={','.join(map(str, picks))}")
            if outside:      # put the tasks that were not collected back (the world is untouched by this)
                keep = {t["id"] for t in outside}
                for ln in project.model_lines({**spec, "tasks": [t for t in spec["tasks"] if t["id"] in keep]})[1:]:
                    drv.ask(ln)
            impl_reports = ",".join(f"{name_to_id(r[0])}:{r[1]}" for r in obs["reports"])
            impl_log = ",".join(x[1] for x in obs["log"] if x[0] == "S")
            nodes = sorted(rec["post"])
            if not ans.startswith("ok "):
                out.append((i, "model rejects the observed schedule", f"picks={picks}", ans))
                break
            kv = dict(p.split("=", 1) for p in ans[3:].split(" "))
            mfs = dict(e.split(":") for e in kv["fs"].split(",") if e)
            if kv["exit"] != str(obs["exit"]):
                out.append((i, "exit code", obs["exit"], kv["exit"]))
            if kv["reports"] != impl_reports:
                out.append((i, "outcomes", impl_reports, kv["reports"]))
            if kv["log"] != impl_log:
                out.append((i, "executed bodies", impl_log, kv["log"]))
            if kv["complete"] != "1":
                out.append((i, "model expects more picks (build loop ended early in the implementation)", impl_reports, ans))
            for n in nodes:
                iv = rec["post"][n]
                mv = mfs.get(str(n))
                if (None if iv is None else str(iv)) != mv:
                    out.append((i, f"content of node {n}", iv, mv))
                    break
            if out:
                break
        else:
            sa = rec["spec_after"]
            if kind in ("write",):
                drv.ask(f"engine.fs set={step[1]}:{step[2]} del=")
            elif kind == "touch":
                pass
            elif kind == "flag":
                if step[2]:
                    flagged.add(step[1])
                else:
                    flagged.discard(step[1])
                    for t in spec["tasks"]:
                        if t["id"] == step[1]:
                            for ln in project.model_lines({**spec, "tasks": [t]})[1:]:
                                drv.ask(ln)
            elif kind == "delete":
                drv.ask(f"engine.fs set= del={step[1]}")
            elif kind in ("bump", "setver", "setbeh", "respec"):
                for ln in project.model_lines(sa)[1:]:
                    drv.ask(ln)
                ids = {t["id"] for t in sa["tasks"]}
                for t in spec["tasks"]:
                    if t["id"] not in ids:
                        drv.ask(f"engine.rmtask id={t['id']}")
                newin = {int(k): v for k, v in sa.get("inputs", {}).items()} if kind == "respec" else {}
                # only set inputs that do not exist yet in the model: ask world
                if newin:
                    w = drv.ask("engine.world")
                    have = {e.split(":")[0] for e in w.split(" ")[0][3:].split(",") if e}
                    newin = {k: v for k, v in newin.items() if str(k) not in have}
                drv.ask(project.model_fs_line(sa, newin))
                spec = sa
    return out


# ------------------------------------------------------------------------------------------------
# campaign driver
# ------------------------------------------------------------------------------------------------

def run_campaign(ctx, histories, oracle, kinds=None, sel_eval=None, nseeds=None, nontrivial=None, compare_model=True, rotate_seeds=False):
    """histories: list of dicts {"spec", "steps", "tag"}. oracle(hist, records) -> list[(kind, msg, finding|None)]."""
    rng = ctx.rng
    nseeds = nseeds or (8 if not ctx.thorough else 16)
    hashseeds = [rng.randrange(1, 4_000_000_000) for _ in range(nseeds)]
    ctx.extra["hash_seeds"] = hashseeds
    pool = builder.Pool(hashseeds)
    try:
        def one(args):
            i, h = args
            if rotate_seeds:   # successive builds of one history run under different PYTHONHASHSEEDs (fresh process each anyway)
                return run_history(pool.pick(i), h, servers=[pool.pick(i + k) for k in range(len(hashseeds))])
            return run_history(pool.pick(i), h)
        with ThreadPoolExecutor(max_workers=nseeds) as ex:
            all_records = list(ex.map(one, enumerate(histories)))
    finally:
        pool.close()
    drv = ctx.driver() if (ctx.use_model and compare_model) else None
    for h, recs in zip(histories, all_records):
        builds = [r for r in recs if r["step"][0] == "build"]
        canon = [h["spec"], h["steps"]]
        nt = nontrivial(h, recs) if nontrivial else len(builds) >= 1
        sample = None
        if nt:
            sample = {"tasks": [{k: t[k] for k in ("id", "deps", "prods", "after", "marks", "beh") if t.get(k)} for t in h["spec"]["tasks"]],
                      "steps": [s[:2] if s[0] != "respec" else ["respec"] for s in h["steps"]][:8],
                      "first_build": {"exit": builds[0]["obs"].get("exit"), "reports": builds[0]["obs"].get("reports")} if builds else None}
        ctx.case(canon, nt, sample)
        ctx.dist[f"tasks={len(h['spec']['tasks'])}"] += 1
        ctx.dist[f"builds={len(builds)}"] += 1
        for b in builds:
            for r in b["obs"].get("reports", []):
                ctx.dist["outcome=" + r[1]] += 1
            ctx.dist[f"exit={b['obs'].get('exit')}"] += 1
        for kind, msg, finding in oracle(h, recs):
            if kinds is None or kind in kinds:
                ctx.violation(f"{kind}: {msg}", {"history": h, "layer": "engine-e2e"}, finding=finding)
        if drv is not None:
            dis = replay_in_model(drv, h, recs, sel_eval)
            ctx.traces_validated += 1
            for (i, what, iv, mv) in dis[:1]:
                ctx.disagreement(f"engine model, step {i} ({h['steps'][i][0]}): {what}: implementation {iv!r}, model {mv!r}",
                                 {"history": h, "step": i, "what": what, "impl": iv, "model": mv, "layer": "engine-e2e"})
    return all_records


# ------------------------------------------------------------------------------------------------
# selection semantics from the spec (independent of pytask)
# ------------------------------------------------------------------------------------------------

def task_keywords(t):
    """names KeywordMatcher sees, restricted to what the generated expressions use: the task's function name, its module
    file name, and its (user) marker names."""
    from impl import project as _p
    names = {_p.tname(t["id"]), f"task_m{t['module']}.py::" + _p.tname(t["id"])}
    for mk in t.get("marks", []):
        names.add("skipif" if mk.startswith("skipif") else mk)
    return names


def task_marknames(t):
    return {("skipif" if mk.startswith("skipif") else mk) for mk in t.get("marks", [])}


def sel_eval(kind, expr, spec):
    from impl import selexpr
    out = []
    for t in spec["tasks"]:
        if kind == "k":
            names = [n.lower() for n in task_keywords(t)]
            ok = selexpr.evaluate(expr, lambda ident: any(ident.lower() in n for n in names))
        else:
            names = task_marknames(t)
            ok = selexpr.evaluate(expr, lambda ident: ident in names)
        if ok:
            out.append(t["id"])
    return out


def eligible(spec, cfg):
    """selected tasks plus everything they depend on transitively (product chains and after declarations)."""
    edges = spec_task_edges(spec)
    allt = {t["id"] for t in spec["tasks"]}
    el = set(allt)
    for kind in ("k", "m"):
        if cfg.get(kind):
            sel = set(sel_eval(kind, cfg[kind], spec))
            cl = set(sel)
            for t in sel:
                cl |= closure(edges, t, forward=False)
            el &= cl
    return el


def user_skipped_closure(spec):
    edges = spec_task_edges(spec)
    s = {t["id"] for t in spec["tasks"] if {"skip", "skipif_true", "skipif_true_e", "skipif_true_kw"} & set(t.get("marks", []))}
    out = set(s)
    for t in s:
        out |= closure(edges, t, forward=True)
    return out


def executed(obs):
    return [int(e[1]) for e in obs["log"] if e[0] == "S"]


def outcomes(obs):
    return {name_to_id(r[0]): r[1] for r in obs.get("reports", [])}
