"""optree-level campaign for C07: pytask's optree wrappers vs the Lean model M5 + an independent positional oracle.

Trees are JSON: ["leaf", label] | ["none"] | ["list", [...]] | ["tuple", [...]] | ["dict", [[key, tree], ...]] (insertion order).
"""
from __future__ import annotations

import itertools
import json
import os
import subprocess
from concurrent.futures import ThreadPoolExecutor
from pathlib import Path

import common

WORKER = Path(__file__).resolve().parent / "tree_worker.py"
LEAF = ["leaf", ""]
STR_KEYS = {1: ["a"], 2: ["b", "a"], 3: ["b", "C", "a"]}          # insertion order ≠ sorted order; "C" < "a" < "b"
INT_KEYS = {1: [7], 2: [10, 2], 3: [10, -1, 2]}                   # numeric order ≠ order of the decimal strings


# ---------------------------------------------------------------------------------------------
# generators
# ---------------------------------------------------------------------------------------------

def shapes(depth: int, width: int):
    """All unlabelled trees of height ≤ depth whose containers have ≤ width children
    (list, tuple, dict with str keys, dict with int keys; the three empty containers)."""
    if depth == 0:
        return [LEAF]
    sub = shapes(depth - 1, width)
    out = [LEAF, ["list", []], ["tuple", []], ["dict", []]]
    for n in range(1, width + 1):
        for combo in itertools.product(sub, repeat=n):
            out.append(["list", list(combo)])
            out.append(["tuple", list(combo)])
            out.append(["dict", [[k, c] for k, c in zip(STR_KEYS[n], combo)]])
            out.append(["dict", [[k, c] for k, c in zip(INT_KEYS[n], combo)]])
    return out


def label(t, counter=None, none_at=frozenset(), prefix="x"):
    """Fresh copy with leaves labelled x0, x1, … in insertion order; positions in `none_at` become None."""
    if counter is None:
        counter = [0]
    k = t[0]
    if k in ("leaf", "none"):
        i = counter[0]
        counter[0] += 1
        return ["none"] if (i in none_at or k == "none") else ["leaf", f"{prefix}{i}"]
    if k == "dict":
        return ["dict", [[key, label(c, counter, none_at, prefix)] for key, c in t[1]]]
    return [k, [label(c, counter, none_at, prefix) for c in t[1]]]


def nleaves(t):
    k = t[0]
    if k in ("leaf", "none"):
        return 1
    if k == "dict":
        return sum(nleaves(c) for _, c in t[1])
    return sum(nleaves(c) for c in t[1])


def height(t):
    k = t[0]
    if k in ("leaf", "none"):
        return 0
    cs = [c for _, c in t[1]] if k == "dict" else t[1]
    return 1 + max([height(c) for c in cs], default=0)


def random_tree(rng, depth, width, leaf_p=0.3):
    if depth == 0 or rng.random() < leaf_p:
        return ["none"] if rng.random() < 0.15 else LEAF
    kind = rng.choice(["list", "tuple", "dictS", "dictI"])
    n = rng.randint(0, width)
    cs = [random_tree(rng, depth - 1, width, leaf_p) for _ in range(n)]
    if kind == "dictS":
        keys = rng.sample(["a", "b", "C", "d", "aa", "Z", "k1", "k10", "k2"], n)
        return ["dict", [[k, c] for k, c in zip(keys, cs)]]
    if kind == "dictI":
        keys = rng.sample([0, 1, 2, 10, 11, -1, -10, 100, 7], n)
        return ["dict", [[k, c] for k, c in zip(keys, cs)]]
    return [kind, cs]


def internal_positions(t, path=()):
    """paths (as tuples of child indexes in insertion order) of all container nodes."""
    k = t[0]
    if k in ("leaf", "none"):
        return []
    cs = [c for _, c in t[1]] if k == "dict" else t[1]
    out = [path]
    for i, c in enumerate(cs):
        out += internal_positions(c, path + (i,))
    return out


def leaf_positions(t, path=()):
    k = t[0]
    if k in ("leaf", "none"):
        return [path]
    cs = [c for _, c in t[1]] if k == "dict" else t[1]
    out = []
    for i, c in enumerate(cs):
        out += leaf_positions(c, path + (i,))
    return out


def replace_at(t, pos, f):
    if not pos:
        return f(t)
    k = t[0]
    i = pos[0]
    if k == "dict":
        return ["dict", [[key, replace_at(c, pos[1:], f) if j == i else c] for j, (key, c) in enumerate(t[1])]]
    return [k, [replace_at(c, pos[1:], f) if j == i else c for j, c in enumerate(t[1])]]


def misfits(rng, s):
    """Return values derived from the annotation shape `s`: (tag, tree) pairs — fitting and non-fitting."""
    out = [("equal", s)]
    lp, ip = leaf_positions(s), internal_positions(s)
    if lp:
        deeper = s
        for p in lp:
            if rng.random() < 0.6:
                sub = random_tree(rng, 2, 2, 0.4)
                deeper = replace_at(deeper, p, lambda _t, sub=sub: sub)
        out.append(("deeper", deeper))
    if ip:
        p = rng.choice(ip)
        out.append(("shallow", replace_at(s, p, lambda _t: LEAF)))
        p = rng.choice(ip)

        def wrong(t):
            k = t[0]
            if k == "list":
                return ["tuple", t[1]]
            if k == "tuple":
                return ["list", t[1]]
            return [rng.choice(["list", "tuple"]), [c for _, c in t[1]]]
        out.append(("wrong-container", replace_at(s, p, wrong)))
        p = rng.choice(ip)

        def more(t):
            k = t[0]
            if k == "dict":
                used = {key for key, _ in t[1]}
                ints = bool(t[1]) and isinstance(t[1][0][0], int)
                new = next(x for x in ([5, 6, 8, 9] if ints else ["e", "f", "g", "h"]) if x not in used)
                items = t[1] + [[new, LEAF]]
                rng.shuffle(items)
                return ["dict", items]
            cs = list(t[1])
            cs.insert(rng.randint(0, len(cs)), LEAF)
            return [k, cs]
        out.append(("extra", replace_at(s, p, more)))
        nonempty = [q for q in ip if _children(s, q)]
        if nonempty:
            p = rng.choice(nonempty)

            def fewer(t):
                k = t[0]
                cs = list(t[1])
                del cs[rng.randrange(len(cs))]
                return [k, cs]
            out.append(("missing", replace_at(s, p, fewer)))
        dicts = [q for q in ip if _node(s, q)[0] == "dict" and len(_node(s, q)[1]) >= 1]
        if dicts:
            p = rng.choice(dicts)

            def permute(t):
                items = list(t[1])
                rng.shuffle(items)
                if len(items) >= 2 and items == t[1]:
                    items.reverse()
                return ["dict", items]
            out.append(("permuted", replace_at(s, p, permute)))
            p = rng.choice(dicts)

            def rename(t):
                items = [list(x) for x in t[1]]
                j = rng.randrange(len(items))
                k = items[j][0]
                items[j][0] = str(k) if isinstance(k, int) else (k + "x")
                return ["dict", items]
            # str(k) for an int key gives a mixed-type dict only when other int keys remain: keep single-type
            cand = replace_at(s, p, rename)
            if _single_type(cand):
                out.append(("renamed-key", cand))

            def swap_values(t):
                items = [list(x) for x in t[1]]
                if len(items) >= 2:
                    items[0][1], items[1][1] = items[1][1], items[0][1]
                return ["dict", items]
            out.append(("swapped-values", replace_at(s, p, swap_values)))
    return out


def _node(t, pos):
    for i in pos:
        t = t[1][i][1] if t[0] == "dict" else t[1][i]
    return t


def _children(t, pos):
    return _node(t, pos)[1]


def _single_type(t):
    k = t[0]
    if k in ("leaf", "none"):
        return True
    if k == "dict":
        if len({type(key) for key, _ in t[1]}) > 1:
            return False
        return all(_single_type(c) for _, c in t[1])
    return all(_single_type(c) for c in t[1])


# ---------------------------------------------------------------------------------------------
# canonical text (harness side; same format as the Lean driver prints)
# ---------------------------------------------------------------------------------------------

def key_tok(k):
    return f"i{k}" if isinstance(k, int) else f"s{k}"


def enc(t, leaf=None):
    k = t[0]
    if k == "leaf":
        return "*" + (str(t[1]) if leaf is None else leaf(t))
    if k == "none":
        return "*" + ("N" if leaf is None else leaf(t))
    if k == "list":
        return "L[" + ",".join(enc(c, leaf) for c in t[1]) + "]"
    if k == "tuple":
        return "U[" + ",".join(enc(c, leaf) for c in t[1]) + "]"
    items = sorted(t[1], key=lambda kv: kv[0])
    return "D[" + ",".join(f"{key_tok(kk)}:{enc(c, leaf)}" for kk, c in items) + "]"


# ---------------------------------------------------------------------------------------------
# independent oracle: written from the property ("the value at the same position"), not from the model
# ---------------------------------------------------------------------------------------------

def positions(t, path=()):
    """[(path, subtree)] of the leaves, visiting dict items by ascending key."""
    k = t[0]
    if k in ("leaf", "none"):
        return [(path, t)]
    out = []
    if k == "dict":
        for key, c in sorted(t[1], key=lambda kv: kv[0]):
            out += positions(c, path + (key_tok(key),))
    else:
        for i, c in enumerate(t[1]):
            out += positions(c, path + (f"#{i}",))
    return out


def sub_at(t, path):
    """The subtree of `t` at a position, or None when the position does not exist."""
    for step in path:
        k = t[0]
        if step.startswith("#"):
            if k not in ("list", "tuple") or int(step[1:]) >= len(t[1]):
                return None
            t = t[1][int(step[1:])]
        else:
            if k != "dict":
                return None
            hit = [c for key, c in t[1] if key_tok(key) == step]
            if not hit:
                return None
            t = hit[0]
    return t


def fits(s, o):
    """`o` has, at every container of `s`, a container of the same type with the same length / key set."""
    ks = s[0]
    if ks in ("leaf", "none"):
        return True
    if o[0] != ks:
        return False
    if ks == "dict":
        if sorted(key_tok(k) for k, _ in s[1]) != sorted(key_tok(k) for k, _ in o[1]):
            return False
        od = {key_tok(k): c for k, c in o[1]}
        return all(fits(c, od[key_tok(k)]) for k, c in s[1])
    return len(s[1]) == len(o[1]) and all(fits(a, b) for a, b in zip(s[1], o[1]))


def tok(t):
    return "N" if t[0] == "none" else str(t[1])


def ptxt(p):
    return "/".join(p) if p else "."


def expect_info(t):
    pos = positions(t)
    struct = enc(t, leaf=lambda _l: "")
    by_id = {id(l): ptxt(p) for p, l in pos}
    mapwp = enc(t, leaf=lambda l: by_id[id(l)] + "@" + tok(l))
    return (f"wf=1 leaves={','.join(tok(l) for _, l in pos)} struct={struct} paths={';'.join(ptxt(p) for p, _ in pos)} "
            f"mapwp={mapwp} unflat={enc(t)} at=1")


def expect_pair(s, o, strict=False):
    ok = fits(s, o)
    if ok:
        vals = [sub_at(o, p) for p, _ in positions(s)]
        flat = ";".join(enc(v) for v in vals) if vals else "empty"
    else:
        flat = "none"
    pre = ok and not (strict and enc(s, leaf=lambda _l: "") == enc(o, leaf=lambda _l: ""))
    return f"prefix={1 if pre else 0} flat={flat}"


# ---------------------------------------------------------------------------------------------
# running the real code
# ---------------------------------------------------------------------------------------------

def run_worker(cases, nproc=4):
    chunks = [cases[i::nproc] for i in range(nproc)]

    def one(chunk):
        if not chunk:
            return []
        p = subprocess.run([common.PY, str(WORKER)], input=json.dumps(chunk), capture_output=True, text=True,
                           env=dict(os.environ), cwd="/")
        if p.returncode != 0:
            raise common.InfraError(f"tree worker failed: {p.stderr[-800:]}")
        return json.loads(p.stdout)

    with ThreadPoolExecutor(max_workers=nproc) as ex:
        res = list(ex.map(one, chunks))
    return {r["id"]: r for chunk in res for r in chunk}


def model_line(c):
    if c["kind"] == "info":
        return f"tree.info t={enc(c['t'])}"
    return f"tree.pair s={enc(c['s'])} o={enc(c['o'])} strict={1 if c.get('strict') else 0}"


def check_cases(ctx, cases, obs):
    drv = ctx.driver() if ctx.use_model else None
    answers = drv.batch([model_line(c) for c in cases]) if drv is not None else [None] * len(cases)
    for c, model in zip(cases, answers):
        o = obs.get(c["id"])
        if o is None:
            raise common.InfraError(f"no observation for {c['id']}")
        got = o["obs"]
        if c["kind"] == "info":
            want = expect_info(c["t"])
            nontrivial = nleaves(c["t"]) >= 2 and height(c["t"]) >= 1
            canon = ["info", enc(c["t"])]
            sample = {"tree": enc(c["t"]), "observed": got}
        else:
            want = expect_pair(c["s"], c["o"], c.get("strict", False))
            nontrivial = height(c["s"]) >= 1 and height(c["o"]) >= 1
            canon = ["pair", enc(c["s"]), enc(c["o"]), bool(c.get("strict"))]
            sample = {"annotation": enc(c["s"]), "returned": enc(c["o"]), "observed": got}
            ctx.dist["pair:" + c.get("tag", "?") + (":fits" if "prefix=1" in want else ":misfit")] += 1
        ctx.case(canon, nontrivial, sample)
        if got != want and not c.get("strict"):
            ctx.violation(f"optree-{c['kind']}: positions not preserved on {canon[1:]}: expected {want!r}, pytask's tree functions gave {got!r}",
                          {"layer": "optree", "case": c})
        if model is not None:
            if model != got:
                ctx.disagreement(f"tree model: {model_line(c)!r}: implementation {got!r}, model {model!r}",
                                 {"layer": "optree", "case": c, "impl": got, "model": model})
            ctx.traces_validated += 1


def campaign(ctx):
    rng = ctx.rng
    cases = []
    n = 0

    def add(kind, **kw):
        nonlocal n
        n += 1
        cases.append({"id": n, "kind": kind, **kw})

    d2 = shapes(2, 3)
    ctx.extra["exhaustive_scope_trees"] = f"all {len(d2)} trees of height ≤2 / width ≤3 over leaf, list, tuple, dict(str keys), dict(int keys), (), [], {{}}"
    pool = d2
    for s in pool:
        add("info", t=label(s))
        k = nleaves(s)
        if k:
            none_at = frozenset(i for i in range(k) if rng.random() < 0.4) or frozenset([rng.randrange(k)])
            add("info", t=label(s, none_at=none_at))
    for _ in range(ctx.scale(800, 20000)):
        add("info", t=label(random_tree(rng, 3, 3, 0.25)))
    # pairs
    d1 = shapes(1, 3)
    for s in d1:
        for o in d1:
            add("pair", s=label(s, prefix="a"), o=label(o, prefix="r"), tag="all-d1")
            add("pair", s=label(s, prefix="a"), o=label(o, prefix="r"), strict=True, tag="all-d1-strict")
    d2w2 = shapes(2, 2)
    ctx.extra["exhaustive_scope_pairs"] = (f"all {len(d1)}² (annotation, return) pairs of height ≤1 / width ≤3 (strict and non-strict); "
                                           f"{'all' if ctx.thorough else 'a sample of the'} {len(d2w2)}² pairs of height ≤2 / width ≤2")
    if ctx.thorough and ctx.budget == 1.0:
        for s in d2w2:
            for o in d2w2:
                add("pair", s=s if False else label(s, prefix="a"), o=label(o, prefix="r"), tag="all-d2w2")
    else:
        for _ in range(ctx.scale(3000, 0)):
            add("pair", s=label(rng.choice(d2w2), prefix="a"), o=label(rng.choice(d2w2), prefix="r"), tag="rand-d2w2")
    base = d2 + [random_tree(rng, 3, 3, 0.25) for _ in range(ctx.scale(300, 3000))]
    for s in rng.sample(base, min(len(base), ctx.scale(700, 12000))):
        for tag, o in misfits(rng, s):
            none_at = frozenset(i for i in range(nleaves(o)) if rng.random() < 0.1)
            add("pair", s=label(s, prefix="a"), o=label(o, prefix="r", none_at=none_at), tag=tag)
    obs = run_worker(cases, nproc=8 if ctx.thorough else 4)
    check_cases(ctx, cases, obs)
