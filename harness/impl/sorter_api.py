"""API-level campaign on the real TopologicalSorter vs the Lean model M2 + an independent oracle."""
from __future__ import annotations

import itertools
import json
import os
import subprocess
from concurrent.futures import ThreadPoolExecutor
from pathlib import Path

import common

WORKER = Path(__file__).resolve().parent / "sorter_worker.py"


# ---------------------------------------------------------------------------------------------
# generators
# ---------------------------------------------------------------------------------------------

def exhaustive_cases(max_tasks: int, prios=(-1, 0, 1)):
    """All task-only DAGs on ≤ max_tasks labelled tasks (edges i<j), all priority maps, n∈{1,2,3}."""
    cid = 0
    for k in range(1, max_tasks + 1):
        pairs = [(i, j) for i in range(k) for j in range(i + 1, k)]
        for mask in range(1 << len(pairs)):
            edges = [list(p) for b, p in enumerate(pairs) if mask >> b & 1]
            for pr in itertools.product(prios, repeat=k):
                for n in (1, 2, 3):
                    for pol in ("all", "one"):
                        cid += 1
                        yield {"id": f"ex{cid}", "nodes": list(range(k)), "tasks": list(range(k)), "edges": edges,
                               "prio": {str(i): p for i, p in enumerate(pr)}, "seed": cid, "ns": [n], "policy": pol}


def random_graph(rng, nt: int, nn: int, dens: float, with_direct: bool):
    """Bipartite task/node DAG (+ optional direct task→task edges) that is acyclic by construction:
    a random topological rank over all vertices, edges only upwards."""
    tasks = list(range(nt))
    nodes = list(range(100, 100 + nn))
    allv = tasks + nodes
    rank = {v: rng.random() for v in allv}
    edges = []
    producers = {}
    for nd in nodes:
        # at most one producer (unique products), any number of consumers
        lower = [t for t in tasks if rank[t] < rank[nd]]
        if lower and rng.random() < 0.8:
            p = rng.choice(lower)
            producers[nd] = p
            edges.append([p, nd])
        for t in tasks:
            if rank[t] > rank[nd] and rng.random() < dens:
                edges.append([nd, t])
    if with_direct:
        for a in tasks:
            for b in tasks:
                if rank[a] < rank[b] and rng.random() < dens / 3:
                    edges.append([a, b])
    # node → node edges occur in real DAGs (a PythonNode product of one task wrapped by the dependency node of another task:
    # task → node → wrapper node → task); the scheduler must look through chains of nodes
    if nn >= 2 and rng.random() < 0.5:
        for a in nodes:
            for b in nodes:
                if rank[a] < rank[b] and rng.random() < dens / 2:
                    edges.append([a, b])
    return allv, tasks, edges, rank


def random_case(rng, cid, with_grow: bool):
    nt = rng.randint(2, 12)
    nn = rng.randint(0, 10)
    allv, tasks, edges, rank = random_graph(rng, nt, nn, rng.choice([0.1, 0.25, 0.5]), rng.random() < 0.4)
    prio = {str(t): rng.choice([-1, 0, 0, 1]) for t in tasks}
    c = {"id": f"r{cid}", "nodes": allv, "tasks": tasks, "edges": edges, "prio": prio, "seed": rng.randrange(1 << 30),
         "ns": [rng.randint(1, 5) for _ in range(rng.randint(1, 3))], "policy": rng.choice(["all", "one", "rand", "rand"])}
    if with_grow and rng.random() < 0.6:
        # the graph grows mid-build: new tasks hang below existing vertices (what a generator/provisional node does)
        grows = []
        nodes2, tasks2, edges2 = list(allv), list(tasks), [list(e) for e in edges]
        nxt = max(tasks) + 1
        for at in sorted(rng.sample(range(1, 8), rng.randint(1, 2))):
            for _ in range(rng.randint(1, 3)):
                t = nxt
                nxt += 1
                nodes2.append(t)
                tasks2.append(t)
                for v in rng.sample(nodes2[:-1], min(len(nodes2) - 1, rng.randint(0, 2))):
                    edges2.append([v, t])
                prio[str(t)] = rng.choice([-1, 0, 1])
            grows.append({"at": at, "nodes": list(nodes2), "tasks": list(tasks2), "edges": [list(e) for e in edges2], "prio": dict(prio)})
        c["grow"] = grows
    return c


def cyclic_case(rng, cid):
    c = random_case(rng, cid, False)
    k = rng.randint(1, 4)
    vs = rng.sample(c["nodes"], min(k, len(c["nodes"])))
    for a, b in zip(vs, vs[1:] + vs[:1]):
        c["edges"].append([a, b])
    c["id"] = f"cy{cid}"
    c["cyclic"] = True
    return c


# ---------------------------------------------------------------------------------------------
# running the real code
# ---------------------------------------------------------------------------------------------

def run_workers(cases, hashseeds):
    """Split cases over worker processes, each with its own PYTHONHASHSEED."""
    chunks = [[] for _ in hashseeds]
    for i, c in enumerate(cases):
        chunks[i % len(hashseeds)].append(c)

    def one(args):
        hs, chunk = args
        if not chunk:
            return []
        env = dict(os.environ, PYTHONHASHSEED=str(hs))
        p = subprocess.run([common.PY, str(WORKER)], input=json.dumps(chunk), capture_output=True, text=True, env=env, cwd="/")
        if p.returncode != 0:
            raise common.InfraError(f"sorter worker failed: {p.stderr[-800:]}")
        return json.loads(p.stdout)

    with ThreadPoolExecutor(max_workers=min(16, len(hashseeds))) as ex:
        res = list(ex.map(one, zip(hashseeds, chunks)))
    return {t["id"]: t for r in res for t in r}


# ---------------------------------------------------------------------------------------------
# independent oracle (own graph search; knows nothing about the Lean model)
# ---------------------------------------------------------------------------------------------

def ancestors(edges, v):
    preds = {}
    for a, b in edges:
        preds.setdefault(b, set()).add(a)
    seen, stack = set(), list(preds.get(v, ()))
    while stack:
        x = stack.pop()
        if x in seen:
            continue
        seen.add(x)
        stack.extend(preds.get(x, ()))
    return seen


def has_cycle(nodes, edges):
    return any(v in ancestors(edges, v) for v in nodes)


def oracle(case, tr):
    """Returns list of (kind, message). kind ∈ {'order','once','prio','size','live','cycle'}."""
    bad = []
    nodes, tasks, edges, prio = case["nodes"], set(case["tasks"]), case["edges"], case["prio"]
    cyc = has_cycle(nodes, edges)
    if "err" in tr["new"]:
        if tr["new"]["err"] != "cycle" or not cyc:
            bad.append(("cycle", f"from_dag error {tr['new']['err']} on cyclic={cyc}"))
        return bad
    if cyc:
        bad.append(("cycle", "cyclic graph accepted by from_dag"))
        return bad
    done, handed, processing = set(), [], set()
    for op in tr["ops"]:
        if op[0] == "recreate":
            g = op[1]
            nodes, tasks, edges, prio = g["nodes"], set(g["tasks"]), g["edges"], g["prio"]
            if "err" in op[2]:
                if not has_cycle(nodes, edges):
                    bad.append(("cycle", "recreate raised on acyclic graph"))
                return bad
        elif op[0] == "ready":
            n, got = op[1], op[2]
            if got is None:
                if n >= 1:
                    bad.append(("size", f"get_ready({n}) raised"))
                continue
            avail = [t for t in tasks if t not in done and t not in processing and all(a in done for a in ancestors(edges, t) if a in tasks)]
            for x in got:
                missing = [a for a in ancestors(edges, x) if a in tasks and a not in done]
                if missing:
                    bad.append(("order", f"task {x} handed out while ancestors {sorted(missing)} are not done"))
                if x in handed:
                    bad.append(("once", f"task {x} handed out twice"))
                if x not in tasks:
                    bad.append(("order", f"{x} is not a task"))
            if len(set(got)) != len(got):
                bad.append(("once", f"duplicate in batch {got}"))
            if len(got) != min(n, len(avail)):
                bad.append(("size", f"get_ready({n}) returned {len(got)} of {len(avail)} ready tasks"))
            left = [y for y in avail if y not in got]
            for x in got:
                for y in left:
                    if prio.get(str(y), 0) > prio.get(str(x), 0):
                        bad.append(("prio", f"task {y} (prio {prio.get(str(y),0)}) left waiting while {x} (prio {prio.get(str(x),0)}) was handed out"))
            pr = [prio.get(str(x), 0) for x in got]
            if pr != sorted(pr):
                bad.append(("prio", f"batch {got} not ascending by priority {pr}"))
            handed.extend(got)
            processing.update(got)
        elif op[0] == "done":
            done.update(op[1])
            processing.difference_update(op[1])
    if tr.get("stuck"):
        bad.append(("live", "sorter active but nothing ready and nothing processing"))
    elif "final" in tr and not tr["final"]["active"]:
        rest = [t for t in tasks if t not in done]
        if rest:
            bad.append(("live", f"sorter inactive but tasks {rest} never done"))
    return bad


# ---------------------------------------------------------------------------------------------
# model replay
# ---------------------------------------------------------------------------------------------

def _g(nodes, tasks, edges, prio):
    return (f"nodes={','.join(map(str, nodes))} edges={','.join(f'{a}>{b}' for a, b in edges)} "
            f"tasks={','.join(map(str, tasks))} prio={','.join(f'{k}:{v}' for k, v in prio.items() if v)}")


def model_lines(case, tr):
    """Request lines + expected answers derived from the implementation trace."""
    lines, expect = [], []

    def st(s):
        return (f"nodes={','.join(map(str, s['nodes']))} processing={','.join(map(str, s['processing']))} "
                f"done={','.join(map(str, s['done']))}")

    lines.append("sorter.new " + _g(case["nodes"], case["tasks"], case["edges"], case["prio"]))
    if "err" in tr["new"]:
        expect.append("err:" + tr["new"]["err"])
        return lines, expect
    s = tr["new"]
    expect.append(f"ok nodes={','.join(map(str, s['nodes']))} edges={','.join(f'{a}>{b}' for a, b in s['edges'])}")
    for op in tr["ops"]:
        if op[0] == "ready":
            if op[2] is None:
                lines.append(f"sorter.ready n={op[1]} got=")
                expect.append("err:badN")
                continue
            lines.append(f"sorter.ready n={op[1]} got={','.join(map(str, op[2]))}")
            expect.append("legal")
            lines.append("sorter.state")
            expect.append("~" + st(op[3]))
        elif op[0] == "done":
            lines.append(f"sorter.done xs={','.join(map(str, op[1]))}")
            expect.append("ok")
            lines.append("sorter.state")
            expect.append("~" + st(op[2]))
        elif op[0] == "recreate":
            g = op[1]
            lines.append("sorter.recreate " + _g(g["nodes"], g["tasks"], g["edges"], g["prio"]))
            if "err" in op[2]:
                expect.append("err:" + op[2]["err"])
            else:
                s = op[2]
                expect.append(f"ok nodes={','.join(map(str, s['nodes']))} edges={','.join(f'{a}>{b}' for a, b in s['edges'])}")
    return lines, expect


def check_traces(ctx, cases, traces, kinds):
    """Oracle + model on every trace. `kinds` = oracle failure kinds that belong to this property."""
    drv = ctx.driver() if ctx.use_model else None
    for c in cases:
        tr = traces.get(c["id"])
        if tr is None:
            raise common.InfraError(f"no trace for {c['id']}")
        nready = sum(1 for op in tr["ops"] if op[0] == "ready" and op[2])
        canon = [c["nodes"], c["tasks"], sorted(map(tuple, c["edges"])), sorted(c["prio"].items()), c["ns"], c["policy"],
                 [op[:3] if op[0] != "recreate" else "recreate" for op in tr["ops"]]]
        prios = {c["prio"].get(str(t), 0) for t in c["tasks"]}
        ctx.case(canon, nontrivial=nready >= 2 and (len(prios) >= 2 or len(c["edges"]) >= 1),
                 sample={"graph": {k: c[k] for k in ("tasks", "edges", "prio")}, "ops": [op[:3] for op in tr["ops"] if op[0] != "recreate"][:8]})
        ctx.dist[f"tasks={len(c['tasks'])}"] += 1
        ctx.dist[f"policy={c['policy']}"] += 1
        if c.get("grow"):
            ctx.dist["with-recreate"] += 1
        if "err" in tr["new"]:
            ctx.dist["rejected-cycle"] += 1
        for kind, msg in oracle(c, tr):
            if kind in kinds:
                ctx.violation(f"{kind}: {msg}", {"case": c, "trace_ops": [op[:3] for op in tr["ops"]], "layer": "sorter-api"})
        if drv is not None:
            lines, expect = model_lines(c, tr)
            answers = drv.batch(lines)
            for ln, ex, an in zip(lines, expect, answers):
                ok = an.startswith(ex[1:]) if ex.startswith("~") else an == ex
                if not ok:
                    ctx.disagreement(f"sorter model: request {ln!r}: implementation {ex!r}, model {an!r}",
                                     {"case": c, "line": ln, "impl": ex, "model": an, "layer": "sorter-api"})
                    break
            ctx.traces_validated += 1


def campaign(ctx, kinds, quick_random=300, thorough_random=6000):
    rng = ctx.rng
    cases = []
    ex_tasks = 4 if ctx.thorough else 3
    ex = list(exhaustive_cases(ex_tasks))
    cases += ex
    if not ctx.thorough:
        # sample of the 4-task space
        four = [c for c in exhaustive_cases(4) if len(c["tasks"]) == 4]
        cases += rng.sample(four, min(len(four), ctx.scale(1500, 0)))
    nrand = ctx.scale(quick_random, thorough_random)
    base = len(cases)
    for i in range(nrand):
        cases.append(random_case(rng, base + i, with_grow=True))
    for i in range(max(10, nrand // 15)):
        cases.append(cyclic_case(rng, base + nrand + i))
    nseeds = 16 if ctx.thorough else 8
    hashseeds = [rng.randrange(1, 4_000_000_000) for _ in range(nseeds)]
    ctx.extra["hash_seeds"] = hashseeds
    traces = run_workers(cases, hashseeds)
    check_traces(ctx, cases, traces, kinds)
    ctx.extra["exhaustive_scope"] = f"all task DAGs on ≤{ex_tasks} tasks × priorities {{-1,0,1}}^k × n∈{{1,2,3}} × completion policy ∈ {{all, one}}"
