"""Pool of build servers (one per PYTHONHASHSEED) + helpers to run real builds."""
from __future__ import annotations

import json
import os
import subprocess
import threading
from pathlib import Path

import common

SERVER = Path(__file__).resolve().parent / "build_server.py"


class BuildServer:
    def __init__(self, hashseed: int, extra_env: dict | None = None):
        env = dict(os.environ, PYTHONHASHSEED=str(hashseed), PYTHONDONTWRITEBYTECODE="1")
        if extra_env:
            env.update(extra_env)
        self.hashseed = hashseed
        self.p = subprocess.Popen([common.PY, str(SERVER)], stdin=subprocess.PIPE, stdout=subprocess.PIPE, text=True, env=env, cwd="/")
        self.lock = threading.Lock()

    def build(self, root, kw=None, env=None, **opts) -> dict:
        job = {"root": str(root), "kw": kw or {}, "env": env or {}}
        job.update(opts)
        with self.lock:
            self.p.stdin.write(json.dumps(job) + "\n")
            self.p.stdin.flush()
            line = self.p.stdout.readline()
        if not line:
            raise common.InfraError("build server died")
        res = json.loads(line)
        if "harness_error" in res:
            raise common.InfraError("build child harness error: " + res["harness_error"])
        return res

    def close(self):
        try:
            self.p.stdin.close()
            self.p.wait(timeout=10)
        except Exception:
            self.p.kill()


class Pool:
    """N servers with distinct hash seeds; `pick(i)` round-robins."""

    def __init__(self, hashseeds, extra_env=None):
        self.servers = [BuildServer(h, extra_env) for h in hashseeds]

    def pick(self, i: int) -> BuildServer:
        return self.servers[i % len(self.servers)]

    def close(self):
        for s in self.servers:
            s.close()


def cfg_to_kw(cfg: dict) -> dict:
    kw = {}
    if cfg.get("force"):
        kw["force"] = True
    if cfg.get("dry"):
        kw["dry_run"] = True
    if cfg.get("maxfail") is not None:
        # where the failure limit comes from (optional cfg["maxfail_src"]): keyword argument max_failures (default), keyword argument
        # stop_after_first_failure (limit 1), the project's config file (written by project.write_config_file), or both
        src = cfg.get("maxfail_src", "kwarg")
        if src in ("kwarg", "both"):
            kw["max_failures"] = cfg["maxfail"]
        elif src == "kwarg_stop":
            kw["stop_after_first_failure"] = True
    if cfg.get("k"):
        kw["expression"] = cfg["k"]
    if cfg.get("m"):
        kw["marker_expression"] = cfg["m"]
    return kw
