"""Worker: materialise generated projects in scratch directories and run the REAL `pytask clean` on them.

stdin: JSON list of cases (see clean_api.py); stdout: JSON list of observations. One process handles many cases;
`storage.create()` + sys.modules/sys.path restoration between invocations (what the repo's own test-suite runner does).
Behaviour only is recorded: exit codes, the paths in "Would remove"/"Remove" lines, file-tree snapshots.
"""
from __future__ import annotations

import hashlib
import json
import os
import shutil
import subprocess
import sys
import tempfile
from pathlib import Path

os.environ["COLUMNS"] = "4000"        # rich must not wrap the path lines
os.environ["LINES"] = "50"
os.environ.pop("PYTASK_VERIF", None)
sys.dont_write_bytecode = True

from click.testing import CliRunner  # noqa: E402
from pytask import cli, storage  # noqa: E402

GIT_ENV = dict(os.environ, GIT_CONFIG_NOSYSTEM="1", GIT_CONFIG_GLOBAL="/dev/null", GIT_TERMINAL_PROMPT="0",
               GIT_AUTHOR_NAME="v", GIT_AUTHOR_EMAIL="v@v", GIT_COMMITTER_NAME="v", GIT_COMMITTER_EMAIL="v@v")


def git(cwd: Path, *args: str) -> str:
    r = subprocess.run(("git", *args), cwd=cwd, env=GIT_ENV, capture_output=True)
    if r.returncode != 0:
        raise RuntimeError(f"git {' '.join(args)!r} failed: {r.stderr.decode(errors='replace')[-300:]}")
    return os.fsdecode(r.stdout)       # file names are bytes: undecodable ones come back as surrogate escapes, like os.listdir's


def snapshot(ws: Path) -> dict[str, str]:
    """rel posix path -> 'd' | 'f:<sha1>' | 'o' (other). Below `.git` only the direct children are recorded, unhashed."""
    out: dict[str, str] = {}

    def walk(d: Path, rel: str, in_git: bool):
        try:
            names = sorted(os.listdir(d))
        except OSError:
            return
        for n in names:
            p = d / n
            r = f"{rel}/{n}" if rel else n
            if p.is_symlink():
                out[r] = "o"
            elif p.is_dir():
                out[r] = "d"
                if not in_git:
                    walk(p, r, n == ".git")
            elif p.is_file():
                if in_git:
                    out[r] = "f:-"
                else:
                    out[r] = "f:" + hashlib.sha1(p.read_bytes()).hexdigest()[:12]
            else:
                out[r] = "o"

    walk(ws, "", False)
    return out


def parse_output(text: str) -> dict:
    lines = text.splitlines()
    would = [l[len("Would remove "):] for l in lines if l.startswith("Would remove ")]
    removed = [l[len("Remove "):] for l in lines if l.startswith("Remove ")]
    return {"would": would, "removed": removed, "asked": []}


def invoke_subprocess(args: list[str], cwd: Path, inp: str | None):
    """The command in an interpreter of its own (`python -m pytask clean …`), output taken as bytes: used for file names
    that are not valid UTF-8, which an in-process runner's text streams could not carry."""
    env = dict(os.environ, COLUMNS="4000", LINES="50", PYTHONDONTWRITEBYTECODE="1")
    r = subprocess.run([sys.executable, "-m", "pytask", *args], cwd=cwd, env=env, capture_output=True,
                       input=inp.encode() if inp else None, timeout=300)
    text = os.fsdecode(r.stdout)
    out = parse_output(text)
    out.update({"exit": r.returncode, "tail": "" if r.returncode == 0 else (text + os.fsdecode(r.stderr))[-600:], "exc": ""})
    return out


def invoke(args: list[str], cwd: Path, inp: str | None):
    os.chdir(cwd)
    storage.create()
    saved_modules = sys.modules.copy()
    saved_path, saved_meta = sys.path.copy(), sys.meta_path.copy()
    try:
        r = CliRunner().invoke(cli, args, input=inp)
    finally:
        sys.modules.clear()
        sys.modules.update(saved_modules)
        sys.path[:], sys.meta_path[:] = saved_path, saved_meta
        os.chdir("/")
    lines = r.output.splitlines()
    would = [l[len("Would remove "):] for l in lines if l.startswith("Would remove ")]
    removed = [l[len("Remove "):] for l in lines if l.startswith("Remove ")]
    asked = []
    for l in lines:
        # click.confirm prompt (interactive mode); several prompts may share a line when input is piped
        parts = l.split("Would you like to remove ")
        for part in parts[1:]:
            asked.append(part.split("? [y/N]")[0])
    tail = "" if r.exit_code == 0 else r.output[-600:]
    exc = repr(r.exception) if r.exception is not None and not isinstance(r.exception, SystemExit) else ""
    return {"exit": r.exit_code, "would": would, "removed": removed, "asked": asked, "tail": tail, "exc": exc}


def run_case(case: dict, base: str | None) -> dict:
    W = Path(tempfile.mkdtemp(prefix="pvc11-", dir=base)).resolve()
    ws = W / "ws"
    obs: dict = {"id": case["id"]}
    try:
        ws.mkdir()
        g0 = case.get("git") or {}
        if g0.get("kind") in ("worktree", "submodule"):
            # the outer repository first; the project directory is created by git as a checkout whose `.git` is a file
            outer = ws / g0["outer"]
            outer.mkdir(parents=True)
            git(outer, "init", "-q", "--template=", ".")
            git(outer, "commit", "-q", "--allow-empty", "-m", "outer")
            rel = os.path.relpath(ws / g0["top"], outer)
            if g0["kind"] == "worktree":
                git(outer, "worktree", "add", "-q", "-b", "wt", rel)
            else:
                srcrepo = ws / "_submodule_src"
                srcrepo.mkdir()
                git(srcrepo, "init", "-q", "--template=", ".")
                git(srcrepo, "commit", "-q", "--allow-empty", "-m", "src")
                git(outer, "-c", "protocol.file.allow=always", "submodule", "add", "-q", "../_submodule_src", rel)
            if not (ws / g0["top"] / ".git").is_file():
                raise RuntimeError("the checkout's .git is not a file")
        for d in case.get("dirs", []):
            (ws / d).mkdir(parents=True, exist_ok=True)
        for rel, text in case["files"].items():
            p = ws / rel
            p.parent.mkdir(parents=True, exist_ok=True)
            p.write_text(text.replace("{W}", ws.as_posix()))
        g = case.get("git")
        obs["git_ls"] = []
        if g:
            top = ws / g["top"]
            if not g.get("kind"):
                git(top, "init", "-q", "--template=", ".")
            elif g.get("outer_tracked"):
                git(ws / g["outer"], "add", "-f", "--", *[os.path.relpath(ws / t, ws / g["outer"]) for t in g["outer_tracked"]])
                git(ws / g["outer"], "commit", "-q", "-m", "outer files")
            git(top, "config", "user.name", "v")
            git(top, "config", "user.email", "v@v")
            if g.get("tracked"):
                git(top, "add", "-f", "--", *[os.path.relpath(ws / t, top) for t in g["tracked"]])
                git(top, "commit", "-q", "-m", "c")
            if g.get("staged"):
                git(top, "add", "-f", "--", *[os.path.relpath(ws / t, top) for t in g["staged"]])
            for rel, text in g.get("modify_after", {}).items():
                (ws / rel).write_text(text)
            ls = git(top, "ls-files", "--full-name", "-z")
            obs["git_ls"] = sorted((Path(g["top"]) / x).as_posix() for x in ls.split("\0") if x)
        sub = lambda s: s.replace("{W}", ws.as_posix())  # noqa: E731
        cwd = ws / case["cwd"]
        common = [sub(a) for a in case["args"]]
        paths = [sub(a) for a in case["paths"]]
        obs["s0"] = snapshot(ws)
        runs = []
        for step in case["steps"]:
            mode = step["mode"]
            args = ["clean", *common]
            if mode != "default":
                args += ["--mode", mode]
            r = (invoke_subprocess if case.get("runner") == "subprocess" else invoke)(args + paths, cwd, step.get("input"))
            r["mode"] = mode
            r["after"] = snapshot(ws)
            runs.append(r)
        obs["runs"] = runs
        obs["ws"] = ws.as_posix()
    except Exception as e:  # infrastructure problem of this case (reported, not a violation)
        obs["error"] = f"{type(e).__name__}: {e}"
    finally:
        os.chdir("/")
        shutil.rmtree(W, ignore_errors=True)
    return obs


def main() -> int:
    cases = json.loads(sys.stdin.read())
    base = os.environ.get("VERIF_SCRATCH") or None
    out = [run_case(c, base) for c in cases]
    real_stdout.write(json.dumps(out))
    real_stdout.flush()
    return 0


if __name__ == "__main__":
    real_stdout = sys.stdout
    sys.exit(main())
