#!/venv/bin/python
"""C18, in-process stream: the SAME user task objects (`pytask.Task` with a `DirectoryNode` dependency / product) are passed to
`pytask.build(tasks=[...])` several times in ONE process while the matching files change between the builds.

stdin: one JSON job {"root": dir, "steps": [["build"] | ["write", name, content] ...], "producer": bool}
stdout: one JSON line {"builds": [{"exit", "outcomes": {task: outcome}, "got": [...], "seen": [...], "kinds": {...}}, ...]}
"""
import json
import os
import sys
from pathlib import Path


def main():
    job = json.loads(sys.stdin.readline())
    root = Path(job["root"])
    dn = os.open(os.devnull, os.O_RDWR)
    real_out = os.dup(1)
    os.dup2(dn, 1)
    os.dup2(dn, 2)
    os.chdir(root)
    (root / "pyproject.toml").write_text("[tool.pytask.ini_options]\n")
    d = root / "dd"
    d.mkdir(exist_ok=True)
    (root / "inproc.py").write_text("# the module the task objects claim to come from (its state is the tasks' own state)\n")
    import pytask
    from pytask import DirectoryNode, PathNode, Task
    calls = []

    def consume(files, produces):
        got = sorted(p.name for p in files)
        seen = sorted(p.name for p in d.glob("*.txt"))
        calls.append({"task": "consume", "got": got, "seen": seen})
        produces.write_text(",".join(p.read_text() for p in sorted(files)))

    def produce(n, out):
        k = int(n.read_text())
        calls.append({"task": "produce", "got": [], "seen": []})
        for i in range(k):
            (out / f"p{i}.txt").write_text(str(i))

    tasks = [Task(base_name="task_consume", path=root / "inproc.py", function=consume,
                  depends_on={"files": DirectoryNode(root_dir=d, pattern="*.txt")},
                  produces={"produces": PathNode(path=root / "out.txt")})]
    if job.get("producer"):
        (root / "n.txt").write_text("1")
        tasks.append(Task(base_name="task_produce", path=root / "inproc.py", function=produce,
                          depends_on={"n": PathNode(path=root / "n.txt")},
                          produces={"out": DirectoryNode(root_dir=d, pattern="*.txt")}))
    builds = []
    for st in job["steps"]:
        if st[0] == "write":
            p = root / st[1] if st[1] == "n.txt" else d / st[1]
            p.write_text(str(st[2]))
            t = 1_600_000_000 + 10 * len(builds) + len(calls) + hash(st[1]) % 7
            os.utime(p, (t + len(str(st[2])), t + len(str(st[2]))))
        elif st[0] == "build":
            del calls[:]
            try:
                s = pytask.build(tasks=list(tasks), paths=[root])
                rec = {"exit": int(s.exit_code), "outcomes": {r.task.name.split("::")[-1]: r.outcome.name for r in s.execution_reports},
                       "calls": list(calls), "files_now": sorted(p.name for p in d.glob("*.txt")),
                       "kinds": {t.base_name: type(t.depends_on.get("files", t.produces.get("out"))).__name__ for t in tasks}}
            except BaseException as e:  # noqa: BLE001
                rec = {"raised": type(e).__name__}
            builds.append(rec)
    os.write(real_out, (json.dumps({"builds": builds}) + "\n").encode())


if __name__ == "__main__":
    main()
