"""Independent evaluator for -k / -m / after expressions (precedence climbing; shares no code with pytask
or with the Lean model). Used to resolve which tasks an expression names, from the spec alone."""
import re

TOKEN = re.compile(r"\s*(?:(\()|(\))|((?:\w|:|\+|-|\.|\[|\]|\\|/)+))")


class BadExpr(Exception):
    pass


def tokenize(s):
    pos, out = 0, []
    s = s.rstrip(" \t")
    while pos < len(s):
        m = TOKEN.match(s, pos)
        if not m or m.end() == pos:
            raise BadExpr(pos)
        if s[pos:m.start(m.lastindex)].strip(" \t"):
            raise BadExpr(pos)
        out.append(m.group(m.lastindex))
        pos = m.end()
    return out


def evaluate(s, matcher):
    toks = tokenize(s)
    if not toks:
        return False
    pos = 0

    def peek():
        return toks[pos] if pos < len(toks) else None

    def atom():
        nonlocal pos
        t = peek()
        if t is None:
            raise BadExpr("eof")
        if t == "not":
            pos += 1
            return not atom()
        if t == "(":
            pos += 1
            v = expr(0)
            if peek() != ")":
                raise BadExpr("paren")
            pos += 1
            return v
        if t in (")", "and", "or"):
            raise BadExpr(t)
        pos += 1
        return bool(matcher(t))

    PREC = {"or": 1, "and": 2}

    def expr(minp):
        nonlocal pos
        left = atom()
        while peek() in PREC and PREC[peek()] >= minp:
            op = peek()
            pos += 1
            right = expr(PREC[op] + 1)
            left = (left and right) if op == "and" else (left or right)
        return left

    v = expr(0)
    if pos != len(toks):
        raise BadExpr("trailing")
    return v
