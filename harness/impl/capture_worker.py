"""C14 worker: one real `pytask.build()` of a generated project; stdout/stderr of this process are the
"terminal" (pipes held by the harness). Result (reports with their sections) goes to a file.

usage: capture_worker.py <project dir> <capture method> <show_capture> <result.json>
"""
import json
import os
import sys
from pathlib import Path


def main() -> int:
    proj, method, show, out = sys.argv[1:5]
    res = {}
    try:
        import pytask

        if os.environ.get("C14_PICKY_STREAMS"):
            # the caller's own stream objects: they pass everything on except text containing U+26D4, for which write() raises
            class Picky:
                def __init__(self, real):
                    self._real = real

                def write(self, s):
                    if "\u26d4" in s:
                        raise OSError("this stream refuses the text")
                    return self._real.write(s)

                def __getattr__(self, name):
                    return getattr(self._real, name)

            sys.stdout = Picky(sys.stdout)
            sys.stderr = Picky(sys.stderr)

        session = pytask.build(paths=Path(proj), capture=method, show_capture=show)
        res["exit"] = int(session.exit_code)
        reps = []
        for r in session.execution_reports:
            reps.append({
                "name": r.task.name.split("::")[-1],
                "outcome": r.outcome.name,
                "sections": [[w, s, t] for (w, s, t) in r.sections],
            })
        res["reports"] = reps
        res["n_tasks"] = len(session.tasks)
    except BaseException as e:  # noqa: BLE001
        res["raised"] = f"{type(e).__name__}: {e}"
    Path(out).write_text(json.dumps(res))
    return 0


if __name__ == "__main__":
    sys.exit(main())
