#!/venv/bin/python
"""C10 in-process twin: `pytask.build(dry_run=True, …)` and then `pytask.build(…)` IN ONE INTERPRETER on the real code.
argv: root, json list of build kwargs (one per build), result file [, "objects"]. The body log (.verif_log) is read and removed after
every build. With "objects" the project is not collected from task modules: the PTask OBJECTS created once by `verif_objs.make()` (a
plain module in the project directory) are handed to every build of this interpreter via `pytask.build(tasks=[...])`."""
import json
import os
import sys


def main():
    root, kws, outfile = sys.argv[1], json.loads(sys.argv[2]), sys.argv[3]
    dn = os.open(os.devnull, os.O_RDWR)
    for fd in (0, 1, 2):
        os.dup2(dn, fd)
    os.chdir(root)
    sys.path.insert(0, root)
    import pytask
    tasks = None
    if len(sys.argv) > 4 and sys.argv[4] == "objects":
        import verif_objs
        tasks = verif_objs.make()          # created ONCE, reused by every build below
    out = []
    log = os.path.join(root, ".verif_log")
    for kw in kws:
        kw = dict(kw)
        if kw.get("max_failures", 0) is None:
            kw["max_failures"] = float("inf")
        res = {"raised": None}
        try:
            session = pytask.build(paths=[root], **kw) if tasks is None else pytask.build(tasks=tasks, paths=[], **kw)
            res["exit"] = int(session.exit_code)
            res["reports"] = [[getattr(r.task, "base_name", None) or r.task.name, r.outcome.name,
                               type(r.exc_info[1]).__name__ if r.exc_info else None] for r in getattr(session, "execution_reports", [])]
            res["collected"] = sorted((getattr(t, "base_name", None) or t.name) for t in getattr(session, "tasks", []))
        except BaseException as e:  # noqa: BLE001
            res["raised"] = type(e).__name__
        try:
            with open(log) as f:
                res["log"] = [l.split() for l in f.read().splitlines() if l.strip()]
            os.unlink(log)
        except FileNotFoundError:
            res["log"] = []
        out.append(res)
    with open(outfile, "w") as f:
        json.dump(out, f)


if __name__ == "__main__":
    main()
