"""Independent reference evaluator for selection expressions (property C16).

Written from the property text alone: Boolean semantics with precedence not > and > or, parentheses, identifier
alphabet = word characters and : + - . [ ] / \\ , keywords only as whole identifiers, space and tab separate tokens,
the empty expression is false, anything else is a syntax error. Character level, precedence climbing over an explicit
stack-free token list. Shares no code with pytask (no `re`, no `_pytask` import) and knows nothing about the Lean model.
"""
from __future__ import annotations

EXTRA = set(":+-.[]/\\")
BLANK = set(" \t")
PREC = {"or": 1, "and": 2}


class Bad(Exception):
    """The string is not an expression."""


def is_word(c: str) -> bool:
    """Unicode word character: alphanumeric in the sense of `str.isalnum`, or the underscore."""
    return c == "_" or c.isalnum()


def in_alphabet(c: str) -> bool:
    return c in EXTRA or is_word(c)


def tokens(s: str):
    """Token list: '(' , ')' , ('kw', 'or'|'and'|'not') , ('id', text). Raises Bad on a character outside the alphabet.
    Also returns the identifiers seen before a bad character through Bad.args[1]."""
    out, i, n = [], 0, len(s)
    while i < n:
        c = s[i]
        if c in BLANK:
            i += 1
        elif c == "(" or c == ")":
            out.append(c)
            i += 1
        elif in_alphabet(c):
            j = i
            while j < n and in_alphabet(s[j]):
                j += 1
            w = s[i:j]
            out.append(("kw", w) if w in ("or", "and", "not") else ("id", w))
            i = j
        else:
            raise Bad("alphabet", out)
    return out


def identifiers(s: str) -> list[str]:
    """Distinct identifiers in order of first occurrence (those before a bad character if there is one)."""
    try:
        toks = tokens(s)
    except Bad as b:
        toks = b.args[1]
    seen: list[str] = []
    for t in toks:
        if isinstance(t, tuple) and t[0] == "id" and t[1] not in seen:
            seen.append(t[1])
    return seen


def tree(s: str):
    """None for the empty expression, else nested tuples ('id', x) / ('not', t) / ('and', a, b) / ('or', a, b)."""
    toks = tokens(s)
    if not toks:
        return None
    pos = 0

    def peek():
        return toks[pos] if pos < len(toks) else None

    def atom():
        nonlocal pos
        t = peek()
        if t is None:
            raise Bad("eof")
        if t == ("kw", "not"):
            pos += 1
            return ("not", atom())
        if t == "(":
            pos += 1
            v = binary(1)
            if peek() != ")":
                raise Bad("unclosed")
            pos += 1
            return v
        if isinstance(t, tuple) and t[0] == "id":
            pos += 1
            return t
        raise Bad("operand expected")

    def binary(minp):
        nonlocal pos
        left = atom()
        while True:
            t = peek()
            if not (isinstance(t, tuple) and t[0] == "kw" and t[1] in PREC and PREC[t[1]] >= minp):
                return left
            pos += 1
            right = binary(PREC[t[1]] + 1)
            left = (t[1], left, right)

    v = binary(1)
    if pos != len(toks):
        raise Bad("trailing")
    return v


def value(t, env) -> bool:
    if t is None:
        return False
    k = t[0]
    if k == "id":
        return bool(env(t[1]))
    if k == "not":
        return not value(t[1], env)
    if k == "and":
        return value(t[1], env) and value(t[2], env)
    return value(t[1], env) or value(t[2], env)


def table(s: str, idents: list[str]) -> str:
    """'ok:<bits>' (assignment i gives identifier j the truth value bit j of i; identifiers not listed are false) or
    'parse-error'."""
    try:
        t = tree(s)
    except Bad:
        return "parse-error"
    except RecursionError:
        return "too-deep"
    bits = []
    for i in range(1 << len(idents)):
        env = {x: bool(i >> j & 1) for j, x in enumerate(idents)}
        bits.append("1" if value(t, lambda x: env.get(x, False)) else "0")
    return "ok:" + "".join(bits)


# ---------------------------------------------------------------------------------------------
# matchers, from the property text: -k = case-insensitive substring of task id / marker names / function attribute
# names; -m = exact marker name.
# ---------------------------------------------------------------------------------------------

def kw_matches(task: dict, sub: str) -> bool:
    hay = [task["name"], *task["attrs"], *task["markers"]]
    return any(sub.lower() in h.lower() for h in hay)


def mark_matches(task: dict, name: str) -> bool:
    return name in task["markers"]


def select(mode: str, expr: str, tasks: list[dict]):
    """'none' (no selection requested), 'parse-error', or the sorted list of selected task indices."""
    if expr == "" and mode in ("k", "m"):
        return "none"
    try:
        t = tree(expr)
    except Bad:
        return "parse-error"
    if expr == "":
        return []
    match = mark_matches if mode == "m" else kw_matches
    return [i for i, task in enumerate(tasks) if value(t, lambda x, task=task: match(task, x))]


# ---------------------------------------------------------------------------------------------
# `after="<expr>"` over a whole project: every task that carries an `after` string must come after exactly the tasks
# whose keyword matcher satisfies the formula, minus itself — independently of the other tasks' strings and of the order in
# which tasks are processed.
# ---------------------------------------------------------------------------------------------

def after_preds(tasks: list[dict]):
    """tasks[i]["after"] is a string or None. Returns ("parse-error", None) | ("cycle", preds) | ("ok", preds) with
    preds[i] = sorted indices of the tasks that task i has to follow."""
    preds = []
    for i, t in enumerate(tasks):
        e = t.get("after")
        if e is None:
            preds.append([])
            continue
        sel = select("after", e, tasks)
        if sel == "parse-error":
            return "parse-error", None
        preds.append([j for j in sel if j != i])
    # cycle detection by repeated removal of tasks without unfinished predecessors
    left = set(range(len(tasks)))
    while True:
        free = [i for i in left if not (set(preds[i]) & left)]
        if not free:
            break
        left.difference_update(free)
    return ("cycle" if left else "ok"), preds


# ---------------------------------------------------------------------------------------------
# -k / -m at project level: a task stays selected iff every GIVEN expression is true for it. An expression that is false
# for every task deselects every task (it is not "no expression").
# ---------------------------------------------------------------------------------------------

def project_selection(kexpr: str, mexpr: str, tasks: list[dict]):
    """'parse-error' or the sorted indices of the tasks that are not deselected ('' = option not given)."""
    keep = set(range(len(tasks)))
    for mode, e in (("k", kexpr), ("m", mexpr)):
        sel = select(mode, e, tasks)
        if sel == "parse-error":
            return "parse-error"
        if sel != "none":
            keep &= set(sel)
    return sorted(keep)
