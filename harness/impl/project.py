"""Project code generator: abstract spec -> real pytask project on disk; plus edits and snapshots.

spec = {
  "tasks": [ {"id": int, "module": int, "deps": [node…], "prods": [node…], "after": [task id…],
              "after_style": "func"|"list"|"expr", "marks": ["skip","skipif_true","skipif_false","persist",
              "try_first","try_last","markone","marktwo"], "beh": "ok"|"early"|"late"|"omit:k"|"sysexit"|"sysexit_none"|"sysexit_msg"|"sysexit_late", "style": "default"|"annotated"|
              "kwargs"|"return", "gen": bool,
              # optional (C04 stream "dirlink"): "dirdep": [producer id…] — depends on the DirectoryNode product (`dirprod`) of those tasks
              # optional (C06/C17 streams): "mem_out": bool — an in-memory PythonNode product `mem<id>`; "mem_in": [producer id…] —
              # in-memory dependencies on those products; "pyhash_deps": [node…] ⊆ deps — declared as PythonNode(value=<content of
              # data/n<node>.txt at import>, hash=True) instead of a path node; "gen_marks": [marker…] on the child of a generator;
              # "gen_child_deps": [node…] — dependencies (path nodes) of that child;
              # "late_deps": [node…] — DirectoryNode dependencies, one per node, whose pattern matches that node's ordinary file;
              # "wrap": "top"|"mid"|"bottom" — position of a functools.wraps pass-through decorator in the decorator stack
              } ],
  # optional: "mem_preset": bool — the shared in-memory nodes (mem_out / mem_in) are created with an initial value
  # optional: "data_via_link": bool — node paths are spelled through the symlink data_l -> data (C01 stream "spelling")
  "versions": {module: int},
  "inputs": {node: int}          # initial contents of non-product files
}
Node n lives at data/n<n>.txt and holds a decimal integer; module m is task_m<m>.py.
The body of task t writes F(t, i, version-content, dep contents) into its i-th product, where F is the same
arithmetic as `Driver.bodyF` in lean/Driver/EngineCmd.lean.
"""
from __future__ import annotations

import json
import os
from pathlib import Path

M61 = 2305843009213693951

RT = r'''
"""runtime helper imported by generated task modules (not a task module itself)"""
import os
from pathlib import Path
M61 = 2305843009213693951
ROOT = Path(__file__).resolve().parent
LOG = ROOT / ".verif_log"

def log(line):
    with open(LOG, "a") as f:
        f.write(line + "\n")

def F(t, i, src, ds):
    h = 17
    for d in ds:
        h = (h * 31 + ((d + 7) if d is not None else 3)) % M61
    return (((t * 1000003 + i) * 1000003 + (src or 0)) * 1000003 + h) % M61

def passthrough(f):
    """a decorator that wraps the function without changing it (functools.wraps keeps signature and metadata visible)"""
    import functools
    @functools.wraps(f)
    def inner(*a, **k):
        return f(*a, **k)
    return inner

def hv(n):
    """value of a hashed Python dependency = the integer held by data/n<n>.txt when the module is imported"""
    return int((ROOT / "data" / f"n{n}.txt").read_text())

# --- fault-injection nodes (C08 campaign); each logs when its fault fires ------------------------------
from typing import Any as _Any
from attrs import define as _define
from pytask import PathNode as _PathNode

@_define(kw_only=True)
class LoadFailNode(_PathNode):
    tag: str = ""
    def load(self, is_product=False):
        log(f"L {self.tag}")
        raise RuntimeError(f"load of {self.tag} fails")

@_define(kw_only=True)
class SaveFailNode(_PathNode):
    tag: str = ""
    def save(self, value):
        log(f"V {self.tag}")
        raise RuntimeError(f"save of {self.tag} fails")

@_define(kw_only=True)
class StateFailNode(_PathNode):
    tag: str = ""
    def state(self):
        log(f"T {self.tag}")
        raise RuntimeError(f"state of {self.tag} fails")

@_define(kw_only=True)
class BlobNode:
    """a product node that is NOT path-like (no `path` attribute): it keeps its value in a file of its own"""
    where: Path
    name: str = ""
    attributes: dict = {}
    @property
    def signature(self):
        return _PathNode(path=self.where).signature
    def state(self):
        return _PathNode(path=self.where).state()
    def load(self, is_product=False):
        return self.where
    def save(self, value):
        self.where.write_text(value)

def make_bad_hash(tag):
    def bad_hash(value):
        log(f"H {tag}")
        raise RuntimeError(f"hash of {tag} fails")
    return bad_hash

def body(t, src, deps, prods, beh, ret=None, dirs=()):
    """deps: list of Paths; prods: list of Paths (index = product index).
    ret: None = write products; otherwise the names of the products whose contents are *returned*."""
    log(f"S {t}")
    hook = os.environ.get("PYTASK_VERIF_BODY_HOOK")
    ds = [int(Path(p).read_text()) for p in deps]
    if (ROOT / "flags" / f"t{t}").exists():      # untracked failure switch (step kind "flag"): the body raises before writing
        log(f"X {t}")
        raise RuntimeError(f"task {t}: fail flag is set")
    if beh == "early":
        log(f"X {t}")
        raise RuntimeError(f"task {t} fails early")
    if beh == "sysexit":
        log(f"X {t}")
        raise SystemExit(3)
    if beh in ("sysexit_none", "sysexit_msg"):   # script-style bodies: sys.exit() / sys.exit("message") before anything is written
        import sys as _sys
        log(f"X {t}")
        _sys.exit() if beh == "sysexit_none" else _sys.exit(f"task {t} gives up")
    skip = int(beh.split(":")[1]) if beh.startswith("omit:") else None
    for d in dirs:      # directory-pattern products (optional spec field "dirprod"): two files per directory
        Path(d).mkdir(parents=True, exist_ok=True)
        for k in range(2):
            (Path(d) / f"{k}.txt").write_text(str(F(t, 100 + k, src, ds)))
    if ret is not None:
        vals = [str(F(t, i, src, ds)) for i in range(len(ret))]
        log(f"E {t}")
        return vals[0] if len(ret) == 1 else dict(zip(ret, vals))
    for i, p in enumerate(prods):
        if i == skip:
            continue
        Path(p).parent.mkdir(parents=True, exist_ok=True)
        Path(p).write_text(str(F(t, i, src, ds)))
        if hook == "crash-mid" and os.environ.get("PYTASK_VERIF_CRASH_TASK") == str(t):
            os._exit(137)
    if beh == "late":
        log(f"X {t}")
        raise RuntimeError(f"task {t} fails late")
    if beh == "sysexit_late":                      # sys.exit(2) after all products were written
        import sys as _sys
        log(f"X {t}")
        _sys.exit(2)
    if beh.startswith("deldep:"):
        # the body consumes (deletes) one of its own dependency files after writing its products
        log(f"D {t}")
        Path(deps[int(beh.split(":")[1])]).unlink()
    log(f"E {t}")
'''


def F(t, i, src, ds):
    h = 17
    for d in ds:
        h = (h * 31 + ((d + 7) if d is not None else 3)) % M61
    return (((t * 1000003 + i) * 1000003 + (src or 0)) * 1000003 + h) % M61


def tname(t: int) -> str:
    return f"task_t{t:02d}x"


def node_path(root: Path, n: int) -> Path:
    return root / "data" / f"n{n}.txt"


def module_subdir(spec, m: int):
    """optional spec field "subdirs": {module: directory}: the module lives in that sub-directory of the project, next to a
    pyproject.toml WITHOUT a [tool.pytask.ini_options] section"""
    if not spec:
        return None
    sd = spec.get("subdirs", {})
    return sd.get(str(m), sd.get(m))


def module_path(root: Path, m: int, spec=None) -> Path:
    sub = module_subdir(spec, m)
    return (root / sub if sub else root) / f"task_m{m}.py"


def src_node(m: int) -> int:
    """model node id of module m's file"""
    return 9000 + m


def module_content(spec, m: int) -> int:
    """content id of module m = hash of its rendered text (with the SRC constant blanked): equal texts <-> equal ids"""
    import hashlib
    txt = render_module(spec, m, src_value="@@")
    return int(hashlib.sha1(txt.encode()).hexdigest()[:12], 16) + 1


def _order_tasks(tasks):
    """within a module: after-targets (func/list style) must be defined first."""
    byid = {t["id"]: t for t in tasks}
    out, seen = [], set()

    def visit(t, stack=()):
        if t["id"] in seen or t["id"] in stack:
            return
        if t.get("after_style", "expr") in ("func", "list"):
            for a in t.get("after", []):
                if a in byid:
                    visit(byid[a], stack + (t["id"],))
        seen.add(t["id"])
        out.append(t)

    for t in tasks:
        visit(t)
    return out


def render_module(spec, m: int, src_value=None) -> str:
    tasks = [t for t in spec["tasks"] if t["module"] == m]
    ver = spec["versions"].get(str(m), spec["versions"].get(m, 0))
    L = [
        f"# module {m} version {ver}",
        "from __future__ import annotations",
        "from pathlib import Path",
        "from typing import Annotated",
        "import pytask",
        "from pytask import Product, task, PathNode, PythonNode, DirectoryNode",
        "import _verif_rt as rt",
        *(["import _verif_mem"] if any(t.get("mem_out") or t.get("mem_in") for t in tasks) else []),
        # optional spec field "data_via_link": every node path goes through the symbolic link data_l -> data and is NOT resolved
        # (absolute, normalised spelling through a symlinked directory; plain Path and PathNode declarations must still agree)
        (("DATA = Path(__file__).resolve().parent.parent / " if module_subdir(spec, m) else "DATA = Path(__file__).resolve().parent / ")
         + ("'data_l'" if spec.get("data_via_link") else "'data'")),
        f"SRC = {module_content(spec, m) if src_value is None else src_value}",
        "",
    ]
    local_ids = {t["id"] for t in tasks}
    for t in _order_tasks(tasks):
        tid = t["id"]
        style = t.get("style", "default")
        deps, prods = t["deps"], t["prods"]
        deco_kwargs = []
        beh = t.get("beh", "ok")
        setup_fault = t.get("setup_fault")          # optional: "state" | "hash" | "marker" (C08 campaign)
        body_beh = "ok" if beh in ("loadfail", "savefail") else beh
        if beh == "deldep":                         # optional (C08 campaign): delete dependency t["faulty_dep"] after writing
            body_beh = f"deldep:{deps.index(t['faulty_dep'])}"
            if style == "return":
                style = "default"
        faulty_dep = t.get("faulty_dep", deps[0]) if deps and (beh == "loadfail" or setup_fault == "state") else None
        if faulty_dep is not None or setup_fault == "hash":
            style = "annotated"
        blob = bool(t.get("blob_prods")) and beh != "savefail" and bool(prods)   # optional: products are non-path nodes (rt.BlobNode)
        if blob:
            style = "annotated"
        if beh == "savefail" and prods:
            style = "return"
        is_gen = bool(t.get("gen"))                 # optional: @task(is_generator=True); defines one child task 50+id (C04 generator stream)
        if is_gen:
            deco_kwargs.append("is_generator=True")
            if style == "return":
                style = "default"
        # after
        aft = t.get("after", [])
        if t.get("bad_after"):                       # optional: an unparsable `after` expression (C08 campaign)
            deco_kwargs.append("after=" + repr(t["bad_after"]))
        elif t.get("after_expr"):                    # optional: raw `after` expression (may also match the task's own name)
            deco_kwargs.append("after=" + repr(t["after_expr"]))
        elif aft:
            ast_ = t.get("after_style", "expr")
            if ast_ in ("func", "list") and not all(a in local_ids and a != tid for a in aft):
                ast_ = "expr"
            if ast_ == "func" and len(aft) == 1:
                deco_kwargs.append(f"after={tname(aft[0])}")
            elif ast_ in ("func", "list"):
                deco_kwargs.append("after=[" + ", ".join(tname(a) for a in aft) + "]")
            else:
                deco_kwargs.append("after=" + repr(" or ".join(tname(a) for a in aft)))
        params = []
        # optional spec field "bag": {"kind": "dict"|"list"|"tuple", "deps": [...]}: these dependencies are passed inside ONE
        # container argument that also holds plain Python values; the body unpacks it (the set of dependencies is unchanged)
        bag = t.get("bag") or {}
        bag_ok = (beh in ("ok", "early", "late") or beh.startswith("omit")) and not setup_fault
        bag_deps = [n for n in deps if n in bag.get("deps", [])] if bag_ok else []
        all_deps = deps
        deps = [n for n in all_deps if n not in bag_deps]
        bag_expr = {}
        if bag_deps:
            bn = f"bag{tid}"
            if bag.get("kind", "dict") == "dict":
                lit = "{'alpha': 2, " + ", ".join(f"'d{n}': DATA / 'n{n}.txt'" for n in bag_deps) + ", 'omega': 'w'}"
                bag_expr = {n: f"{bn}['d{n}']" for n in bag_deps}
                ann = "dict"
            else:
                items = ["2"] + [f"DATA / 'n{n}.txt'" for n in bag_deps] + ["'w'"]
                lit = ("[" + ", ".join(items) + "]") if bag["kind"] == "list" else ("(" + ", ".join(items) + ",)")
                bag_expr = {n: f"{bn}[{i + 1}]" for i, n in enumerate(bag_deps)}
                ann = "list" if bag["kind"] == "list" else "tuple"
        pyhash = [n for n in t.get("pyhash_deps", []) if n in deps]     # optional: hashed Python values instead of path nodes
        # optional spec field "pyhash_group": {"kind": "tuple"|"list"|"grid", "deps": [n1, n2, ...]}: these (input) dependencies are
        # declared as ONE hashed Python value holding their contents in order (tuple / list), or as hashed values at the tree
        # positions [0][1] and [1][0] of one container argument (grid); the values are read from the files at import time
        grp = t.get("pyhash_group") or {}
        grp_deps = [n for n in grp.get("deps", []) if n in deps and n not in pyhash and n not in bag_deps]
        if len(grp_deps) < 2 or not bag_ok:
            grp_deps = []
        pyhash = pyhash + grp_deps
        deps = [n for n in deps if n not in pyhash]
        dep_names = [f"d{n}" for n in deps]
        prod_names = [f"p{i}" for i in range(len(prods))]
        if style == "kwargs" and deps:
            # optional spec field "kw_split": only the first k dependencies travel in @task(kwargs=…), the others are declared as
            # parameter defaults of the same function (both declaration forms on one task)
            ks = t.get("kw_split")
            k = len(deps) if ks is None else max(1, min(int(ks), len(deps)))
            deco_kwargs.append("kwargs={" + ", ".join(f"'{nm}': DATA / 'n{n}.txt'" for nm, n in zip(dep_names[:k], deps[:k])) + "}")
            params += dep_names[:k]
            params += [f"{nm}: Path = DATA / 'n{n}.txt'" for nm, n in zip(dep_names[k:], deps[k:])]
        elif style == "annotated":
            for nm, n in zip(dep_names, deps):
                cls = "PathNode"
                extra = ""
                if n == faulty_dep:
                    cls = "rt.LoadFailNode" if beh == "loadfail" else "rt.StateFailNode"
                    extra = f", tag='{tid}:{n}'"
                params.append(f"{nm}: Annotated[Path, {cls}(path=DATA / 'n{n}.txt'{extra})]")
            if setup_fault == "hash":
                params.append(f"hv: Annotated[int, PythonNode(value={tid}, hash=rt.make_bad_hash('{tid}:hv'))]")
        else:
            params += [f"{nm}: Path = DATA / 'n{n}.txt'" for nm, n in zip(dep_names, deps)]
        if bag_deps:
            params.append(f"{bn}: {ann} = {lit}")
        late_params = []        # optional extras: parameters without defaults (keyword-only)
        for n in pyhash:
            if n not in grp_deps:
                late_params.append(f"h{n}: Annotated[int, PythonNode(value=rt.hv({n}), hash=True)]")
        if grp_deps:
            vals = ", ".join(f"rt.hv({n})" for n in grp_deps)
            if grp.get("kind") == "grid":
                n1, n2 = grp_deps[0], grp_deps[1]
                cells = f"[[0, PythonNode(value=rt.hv({n1}), hash=True)], [PythonNode(value=rt.hv({n2}), hash=True), 0]]"
                params.append(f"hg{tid}: list = {cells}")
                for n in grp_deps[2:]:
                    late_params.append(f"h{n}: Annotated[int, PythonNode(value=rt.hv({n}), hash=True)]")
            elif grp.get("kind") == "list":
                late_params.append(f"hg{tid}: Annotated[list, PythonNode(value=[{vals}], hash=True)]")
            else:
                late_params.append(f"hg{tid}: Annotated[tuple, PythonNode(value=({vals},), hash=True)]")
        for pidx in t.get("mem_in", []):
            late_params.append(f"mi{pidx}: Annotated[object, _verif_mem.node({pidx})]")
        for n in t.get("late_deps", []):             # optional: a DirectoryNode dependency whose pattern matches the ordinary file of
            # node n only (the edge to n's producer appears when the pattern is resolved in this task's setup; the body does not read it)
            late_params.append(f"ld{n}: Annotated[list, DirectoryNode(root_dir=DATA, pattern='n{n}.tx?')]")
        for pidx in t.get("dirdep", []):             # optional: depends on the DirectoryNode product (`dirprod`) of task pidx
            late_params.append(f"dd{pidx}: Annotated[list, DirectoryNode(root_dir=DATA / 'dir{pidx}', pattern='*.txt')]")
        if t.get("mem_out"):
            late_params.append(f"mo{tid}: Annotated[object, _verif_mem.node({tid}), Product]")
        if t.get("hashed"):
            # optional: a constant hashed Python value (tuple holding a str and a Path) as an additional tracked dependency
            params.append(f"hv{tid}: Annotated[tuple, PythonNode(value=('k{tid}', {tid}, Path('v{tid}')), hash=True)]")
        dir_names = []
        if t.get("dirprod") and prods:
            # optional: a DirectoryNode product next to the ordinary products; the argument name sorts before ("a") or
            # after ("z") the ordinary product arguments, i.e. the provisional node precedes or follows them among the successors
            dn = f"{t['dirprod']}_dir{tid}"
            dir_names.append(dn)
        ret = None
        if style == "return" and prods and beh in ("ok", "early", "savefail", "sysexit"):
            # @task(produces=…): the RETURN value is stored in the product node(s)
            def pnode(i, n):
                if beh == "savefail" and i == 0:
                    return f"rt.SaveFailNode(path=DATA / 'n{n}.txt', tag='{tid}:{n}')"
                return f"DATA / 'n{n}.txt'"
            if len(prods) == 1:
                deco_kwargs.append(f"produces={pnode(0, prods[0])}")
            else:
                deco_kwargs.append("produces={" + ", ".join(f"'{nm}': {pnode(i, n)}" for i, (nm, n) in enumerate(zip(prod_names, prods))) + "}")
            ret = prod_names
            body_prods = "[]"
        elif style == "default" and prods:
            if len(prods) == 1:
                params.append(f"produces: Path = DATA / 'n{prods[0]}.txt'")
                body_prods = "[produces]"
            else:
                params.append("produces: dict = {" + ", ".join(f"'{nm}': DATA / 'n{n}.txt'" for nm, n in zip(prod_names, prods)) + "}")
                body_prods = "[" + ", ".join(f"produces['{nm}']" for nm in prod_names) + "]"
        elif blob:
            params += [f"{nm}: Annotated[Path, rt.BlobNode(where=DATA / 'n{n}.txt', name='blob-n{n}'), Product]" for nm, n in zip(prod_names, prods)]
            body_prods = "[" + ", ".join(prod_names) + "]"
        else:
            params += [f"{nm}: Annotated[Path, Product] = DATA / 'n{n}.txt'" for nm, n in zip(prod_names, prods)]
            body_prods = "[" + ", ".join(prod_names) + "]"
        for dn in dir_names:
            params.append(f"{dn}: Annotated[Path, DirectoryNode(root_dir=DATA / 'dir{tid}', pattern='*.txt'), Product]")
        if setup_fault == "marker":
            L.append("@pytask.mark.skipif()")        # bad marker call: no condition given
        mark_lines = []
        for mk in t.get("marks", []):
            if mk == "skip":
                mark_lines.append("@pytask.mark.skip")
            elif mk == "skipif_true_kw":     # the condition passed by keyword
                mark_lines.append("@pytask.mark.skipif(condition=True, reason='cond true')")
            elif mk == "skipif_true_e":      # a true condition with an empty reason text
                mark_lines.append("@pytask.mark.skipif(True, reason='')")
            elif mk == "skipif_true":
                mark_lines.append("@pytask.mark.skipif(True, reason='cond true')")
            elif mk == "skipif_false":
                mark_lines.append("@pytask.mark.skipif(False, reason='cond false')")
            else:
                mark_lines.append(f"@pytask.mark.{mk}")
        task_line = []
        if deco_kwargs or style in ("kwargs", "return") or t.get("force_decorator"):
            task_line = ["@task(" + ", ".join(deco_kwargs) + ")"]
        # optional spec field "marks_below": the marks are written BELOW @task(...) (applied first), which is equally legal
        groups = [task_line, mark_lines] if t.get("marks_below") else [mark_lines, task_line]
        groups = [g for g in groups if g]
        # optional spec field "wrap": a functools.wraps pass-through decorator at the "top" of the stack, in the "mid"dle (between
        # the markers and @task, whichever comes first) or at the "bottom" (directly above the def)
        if t.get("wrap"):
            at = {"top": 0, "mid": min(1, len(groups)), "bottom": len(groups)}[t["wrap"]]
            groups.insert(at, ["@rt.passthrough"])
        for grp in groups:
            L.extend(grp)
        params += late_params
        if t.get("hashed") or dir_names or late_params:
            params.insert(0, "*")                    # keyword-only: parameters without defaults may follow ones with defaults
        L.append(f"def {tname(tid)}({', '.join(params)}):")
        # the body of a load-fault task does not read the faulty dependency: were the function invoked in spite of the
        # failing load, it would run to completion (and the oracle would see a fired fault without a FAIL report)
        body_deps = [bag_expr.get(n, (f"DATA / 'n{n}.txt'" if n in pyhash else f"d{n}")) for n in all_deps if not (beh == "loadfail" and n == faulty_dep)]
        if t.get("mem_out"):
            L.append(f"    mo{tid}.save({tid})")
        dirs_arg = f", dirs=[{', '.join(dir_names)}]" if dir_names else ""
        if is_gen:
            kid = 50 + tid
            L.append(f"    rt.body({tid}, SRC, [{', '.join(body_deps)}], {body_prods}, {body_beh!r}, ret=None{dirs_arg})")
            for mk in t.get("gen_marks", []):            # optional: markers on the generated task
                L.append(f"    @pytask.mark.{mk}")
            L.append(f"    @task(name={tname(kid)!r})")
            kdeps = t.get("gen_child_deps", [])          # optional: the generated task consumes these nodes
            kparams = [f"k{n}: Path = DATA / 'n{n}.txt'" for n in kdeps] + [f"produces: Path = DATA / 'n{7000 + tid}.txt'"]
            L.append(f"    def _kid({', '.join(kparams)}):")
            L.append(f"        return rt.body({kid}, SRC, [{', '.join(f'k{n}' for n in kdeps)}], [produces], 'ok', ret=None)")
        else:
            L.append(f"    return rt.body({tid}, SRC, [{', '.join(body_deps)}], {body_prods}, {body_beh!r}, ret={ret!r}{dirs_arg})")
        L.append("")
    return "\n".join(L) + "\n"


class Clock:
    """explicit, strictly increasing mtimes for harness edits (honest edits)"""

    def __init__(self, start=1_600_000_000):
        self.t = start

    def tick(self):
        self.t += 7
        return self.t


def write_file(path: Path, text: str, clock: Clock | None):
    path.parent.mkdir(parents=True, exist_ok=True)
    path.write_text(text)
    if clock is not None:
        t = clock.tick()
        os.utime(path, (t, t))


PYPROJECT_BASE = '[tool.pytask.ini_options]\nmarkers = {markone = "marker one", marktwo = "marker two"}\n'


def config_file_options(cfg: dict) -> dict:
    """options a build asks for through the project's config file rather than as keyword arguments (cfg["maxfail_src"])"""
    src = cfg.get("maxfail_src", "kwarg")
    n = cfg.get("maxfail")
    if n is None:
        return {}
    if src in ("config", "both"):
        return {"max_failures": int(n)}
    if src == "config_stop":
        return {"stop_after_first_failure": True}
    return {}


def write_config_file(root: Path, cfg: dict):
    """(re)writes the root pyproject.toml for the next build: the marker table plus the options of `config_file_options`"""
    opts = config_file_options(cfg)
    stamp = root / ".verif_cfgfile"
    if not opts and not stamp.exists():
        return                                        # this history never asked for config-file options: leave the file alone
    stamp.write_text("1")
    lines = PYPROJECT_BASE
    for k, v in opts.items():
        lines += f"{k} = {'true' if v is True else v}\n"
    p = root / "pyproject.toml"
    if not p.exists() or p.read_text() != lines:
        p.write_text(lines)


def materialise(root: Path, spec, clock: Clock | None = None):
    root.mkdir(parents=True, exist_ok=True)
    (root / "pyproject.toml").write_text(PYPROJECT_BASE)
    (root / "_verif_rt.py").write_text(RT)
    if any(t.get("mem_out") or t.get("mem_in") for t in spec["tasks"]):
        # in-memory nodes shared between task modules: one PythonNode object per producer id
        (root / "_verif_mem.py").write_text(
            "from pytask import PythonNode\n_N = {}\n\ndef node(k):\n    if k not in _N:\n        _N[k] = PythonNode(name=f'mem{k}'"
            + (", value=0" if spec.get("mem_preset") else "") + ")\n    return _N[k]\n")   # optional "mem_preset": the shared nodes start with a value
    (root / "data").mkdir(exist_ok=True)
    if spec.get("data_via_link") and not (root / "data_l").is_symlink():
        (root / "data_l").symlink_to("data", target_is_directory=True)
    for m in sorted({t["module"] for t in spec["tasks"]}):
        _ensure_subdir(root, spec, m)
        write_file(module_path(root, m, spec), render_module(spec, m), clock)
    links = {int(x) for x in spec.get("links", [])}   # optional: input nodes that are symbolic links; edits go through to the target
    for n, c in spec.get("inputs", {}).items():
        if int(n) in links:
            target = root / "data" / "real" / f"n{int(n)}.txt"
            target.parent.mkdir(parents=True, exist_ok=True)
            if not node_path(root, int(n)).is_symlink():
                node_path(root, int(n)).symlink_to(target)
        write_file(node_path(root, int(n)), str(c), clock)
    for name, text in spec.get("extra_modules", {}).items():   # optional: broken task modules (C08 campaign)
        write_file(root / name, text, clock)


def _ensure_subdir(root: Path, spec, m: int):
    sub = module_subdir(spec, m)
    if sub:
        (root / sub).mkdir(parents=True, exist_ok=True)
        pp = root / sub / "pyproject.toml"
        if not pp.exists():
            pp.write_text('[project]\nname = "' + sub + '"\nversion = "0"\n')   # no [tool.pytask.ini_options] section


def rewrite_modules(root: Path, spec, clock: Clock | None, only=None):
    mods = sorted({t["module"] for t in spec["tasks"]})
    subs = {v for v in spec.get("subdirs", {}).values()}
    for p in list(root.glob("task_m*.py")) + [q for sd in sorted(subs) for q in (root / sd).glob("task_m*.py")]:
        m = int(p.stem[6:])
        if m not in mods or p != module_path(root, m, spec):
            p.unlink()
    for m in mods:
        if only is not None and m not in only:
            continue
        txt = render_module(spec, m)
        _ensure_subdir(root, spec, m)
        p = module_path(root, m, spec)
        if not p.exists() or p.read_text() != txt:
            write_file(p, txt, clock)


def snapshot_nodes(root: Path, spec):
    """contents of every declared node file (int or None)."""
    out = {}
    nodes = set()
    for t in spec["tasks"]:
        nodes.update(t["deps"])
        nodes.update(t["prods"])
    for n in sorted(nodes):
        p = node_path(root, n)
        try:
            out[n] = int(p.read_text())
        except (OSError, ValueError):
            out[n] = None if not p.exists() else -1
    return out


def read_log(root: Path):
    p = root / ".verif_log"
    if not p.exists():
        return []
    return [tuple(l.split()) for l in p.read_text().splitlines() if l.strip()]


def clear_log(root: Path):
    (root / ".verif_log").unlink(missing_ok=True)


def model_lines(spec):
    """engine.task lines for the Lean driver."""
    lines = ["engine.reset"]
    for t in spec["tasks"]:
        flags = []
        marks = t.get("marks", [])
        if "skip" in marks:
            flags.append("skip")
        if {"skipif_true", "skipif_true_e", "skipif_true_kw"} & set(marks):
            flags.append("skipif")
        if "persist" in marks:
            flags.append("persist")
        prio = 1 if "try_first" in marks else (-1 if "try_last" in marks else 0)
        # "deldep" (body deletes a private dependency after writing its products): with the F29 repair the task fails in
        # teardown = writes everything, then raises; the harness removes the file from the model's world after the build
        beh = {"sysexit": "early", "sysexit_none": "early", "sysexit_msg": "early", "sysexit_late": "late",
               "deldep": "late"}.get(t.get("beh", "ok"), t.get("beh", "ok"))
        deps = list(t["deps"])
        if t.get("setup_fault"):
            # a node whose state()/hash raises, or a marker whose evaluation raises, in setup = a private dependency
            # that can never be found (both raise in pytask_execute_task_setup before the body)
            deps.append(5000 + t["id"])
        after = [] if t.get("bad_after") else t.get("after", [])
        lines.append(
            f"engine.task id={t['id']} src={src_node(t['module'])} deps={','.join(map(str, deps))} "
            f"prods={','.join(map(str, t['prods']))} after={','.join(map(str, after))} "
            f"flags={','.join(flags)} prio={prio} beh={beh}")
    return lines


def model_fs_line(spec, contents: dict):
    """engine.fs line setting node contents (None = delete) and module contents."""
    sets, dels = [], []
    for n, c in contents.items():
        if c is None:
            dels.append(str(n))
        else:
            sets.append(f"{n}:{c}")
    for m in sorted({t["module"] for t in spec["tasks"]}):
        sets.append(f"{src_node(m)}:{module_content(spec, m)}")
    return f"engine.fs set={','.join(sets)} del={','.join(dels)}"
