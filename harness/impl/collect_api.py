"""C13 campaign: generated project layouts × declaration programs, collected by the REAL pytask (fork server
`collect_worker.py`), judged by an implementation-only oracle and replayed in the Lean model M9a (`collect.*`).

A case (JSON-able):
  {"id", "dirs": [rel…], "files": {rel: prog | None}, "paths": [rel ("" = root)…], "ignore": [pat…],
   "task_files": [pat…] | None}
  prog = {"imports": [helper stem…], "stmts": [stmt…]}
  stmt = {"k": "def", "obj", "bind": str|None, "fname", "params": [..], "defaults": {p: val}, "tag", "style": def|factory|lambda|partial}
       | {"k": "wrap", "obj", "name": str|None, "id": str|None, "kwargs": {p: val}|None, "bare": bool}
       | {"k": "value", "bind"}
  val  = ["b", bool] | ["i", int] | ["f", float] | ["s", str] | ["o"]
Every function body appends "TAG:<tag>" to a log when it runs and carries the tag in a closure / constant, so
"which declared function became which task" is observed through bodies, never through names.
"""
from __future__ import annotations

import json
import os
import shutil
import subprocess
import threading
from collections import Counter
from concurrent.futures import ThreadPoolExecutor
from pathlib import Path, PurePosixPath

import common

WORKER = Path(__file__).resolve().parent / "collect_worker.py"
ROOTNAME = "proj"
FALLBACK_IGNORE = [".codecov.yml", ".gitignore", ".pre-commit-config.yaml", ".readthedocs.yml", ".readthedocs.yaml",
                   "readthedocs.yml", "readthedocs.yaml", "environment.yml", "pyproject.toml", "setup.cfg", "tox.ini",
                   ".git/*", ".venv/*", ".pixi/*", "*.egg-info/*", ".ipynb_checkpoints/*", ".mypy_cache/*", ".nox/*",
                   ".tox/*", "_build/*", "__pycache__/*", "build/*", "dist/*", "pytest_cache/*"]


# ---------------------------------------------------------------------------------------------
# rendering a case to disk
# ---------------------------------------------------------------------------------------------

def py_val(v):
    k = v[0]
    if k == "b":
        return "True" if v[1] else "False"
    if k == "i":
        return repr(int(v[1]))
    if k == "f":
        return repr(float(v[1]))
    if k == "s":
        return repr(v[1])
    return "None"


def sig_src(st):
    out = []
    for p in st["params"]:
        if p in st["defaults"]:
            out.append(f"{p}={py_val(st['defaults'][p])}")
        else:
            out.append(p)
    return ", ".join(out)


def wrap_args(w):
    args = []
    if w.get("name") is not None:
        args.append(repr(w["name"]))
    if w.get("id") is not None:
        args.append(f"id={w['id']!r}")
    if w.get("kwargs") is not None:
        args.append("kwargs={" + ", ".join(f"{k!r}: {py_val(v)}" for k, v in w["kwargs"].items()) + "}")
    return ", ".join(args)


def render_prog(prog, root: str, log: str) -> str:
    L = ["import functools", "import os", "import pytask", "from pytask import task", f"_LOG = {log!r}", f"_ROOT = {root!r}", "",
         "def _log(t):", "    with open(_LOG, 'a') as f:", "        f.write(t + '\\n')", ""]
    if prog.get("imports"):
        L += ["import importlib.util as _ilu", "def _imp(stem):",
              "    s = _ilu.spec_from_file_location(stem, os.path.join(_ROOT, stem + '.py'))",
              "    m = _ilu.module_from_spec(s)", "    s.loader.exec_module(m)", "    return m"]
        for h in prog["imports"]:
            L.append(f"_h_{h} = _imp({h!r})")
        L.append("")
    stmts = prog["stmts"]
    i = 0
    while i < len(stmts):
        st = stmts[i]
        if st["k"] == "value":
            L.append(f"{st['bind']} = 5")
        elif st["k"] == "mark":
            for m in st["marks"]:
                call = "pytask.mark.skipif(False, reason='r')" if m == "skipif" else f"pytask.mark.{m}"
                L.append(f"_o{st['obj']} = {call}(_o{st['obj']})")
        elif st["k"] == "gen":
            # a task generator: creates its inner @task functions when it runs
            L += ["@task(is_generator=True)", f"def {st['fname']}():", f"    _log('TAG:{st['tag']}')"]
            for inner in st["inner"]:
                fault = inner.get("fault")
                args = wrap_args(inner)
                if fault == "bad-after":
                    args = (args + ", " if args else "") + "after=5"
                elif fault == "name-not-str":
                    args = "name=5"
                L.append(f"    @task({args})")
                if fault == "mixed":
                    L += ["    @pytask.mark.try_first", "    @pytask.mark.try_last"]
                param = "p=__import__('pathlib').Path(_ROOT)" if fault == "dir-dependency" else ""
                L += [f"    def {inner['fname']}({param}):", f"        _log('TAG:{inner['tag']}')"]
        elif st["k"] == "wrap":
            o = st["obj"]
            if st.get("bare") and st.get("name") is None and st.get("id") is None and st.get("kwargs") is None:
                L.append(f"_o{o} = task(_o{o})")
            else:
                L.append(f"_o{o} = task({wrap_args(st)})(_o{o})")
        else:
            o, tag, style = st["obj"], st["tag"], st["style"]
            nxt = stmts[i + 1] if i + 1 < len(stmts) else None
            if style == "def":
                # module-level def; with real decorator syntax when the wrap follows immediately
                if nxt is not None and nxt["k"] == "wrap" and nxt["obj"] == o and not nxt.get("bare"):
                    L.append(f"@task({wrap_args(nxt)})")
                    i += 1
                L += [f"def {st['fname']}({sig_src(st)}):", f"    _log('TAG:{tag}')", f"_o{o} = {st['fname']}"]
            elif style == "factory":
                L += [f"def _mk{o}(_t):", f"    def {st['fname']}({sig_src(st)}):", "        _log(_t)", f"    return {st['fname']}",
                      f"_o{o} = _mk{o}('TAG:{tag}')"]
                if st.get("bind"):
                    L.append(f"{st['bind']} = _o{o}")
            elif style == "lambda":
                L.append(f"_o{o} = (lambda _t: (lambda {sig_src(st)}: _log(_t)))('TAG:{tag}')")
                if st.get("bind"):
                    L.append(f"{st['bind']} = _o{o}")
            elif style == "partial":
                ps = sig_src(st)
                L += [f"def _mk{o}():", f"    def {st['fname']}(_t{', ' + ps if ps else ''}):", "        _log(_t)",
                      f"    return functools.partial({st['fname']}, 'TAG:{tag}')", f"_o{o} = _mk{o}()"]
                if st.get("bind"):
                    L.append(f"{st['bind']} = _o{o}")
            else:
                raise ValueError(style)
        i += 1
    return "\n".join(L) + "\n"


def materialise(case, base: Path):
    root = base / ROOTNAME
    root.mkdir(parents=True)
    log = str(base / "log.txt")
    toml = "[tool.pytask.ini_options]\n"
    cf = case.get("cfg_file") or {}

    def tv(values, form):
        q = [json.dumps(v) for v in values]
        return q[0] if form == "str" and len(q) == 1 else "[" + ", ".join(q) + "]"

    if cf.get("ignore"):
        toml += f"ignore = {tv(case['ignore'], cf['ignore'])}\n"
    if cf.get("paths"):
        toml += f"paths = {tv([p if p else '.' for p in case['paths']], cf['paths'])}\n"
    if cf.get("task_files") and case["task_files"] is not None:
        toml += f"task_files = {tv(case['task_files'], 'list')}\n"
    (root / "pyproject.toml").write_text(toml)
    for d in case["dirs"]:
        (root / d).mkdir(parents=True, exist_ok=True)
    for rel, prog in case["files"].items():
        p = root / rel
        p.parent.mkdir(parents=True, exist_ok=True)
        if prog is None:
            p.write_text("")
        else:
            p.write_text(render_prog(prog, str(root), log))
    for name, prog in (case.get("ext") or {}).items():
        p = base / "ext" / name
        p.parent.mkdir(parents=True, exist_ok=True)
        p.write_text(render_prog(prog, str(root), log))
    for name, target in (case.get("links") or {}).items():
        os.symlink(str(root / target) if target else str(root), str(base / name))
    return root, log


def real_path(case, p: str) -> str:
    """Path arguments may go through a symbolic link outside the project (`@name`): what they denote."""
    return (case.get("links") or {})[p[1:]] if p.startswith("@") else p


def ptask_file(case, pt, root, base) -> str:
    kind, name = pt["src"].split(":", 1)
    return str(Path(root) / name) if kind == "proj" else str(Path(base) / "ext" / name)


# ---------------------------------------------------------------------------------------------
# fork-server pool
# ---------------------------------------------------------------------------------------------

class Server:
    def __init__(self, hashseed: int):
        env = dict(os.environ, PYTHONHASHSEED=str(hashseed), PYTHONDONTWRITEBYTECODE="1")
        self.p = subprocess.Popen([common.PY, str(WORKER)], stdin=subprocess.PIPE, stdout=subprocess.PIPE, text=True, env=env, cwd="/")
        self.lock = threading.Lock()

    def run(self, job):
        with self.lock:
            self.p.stdin.write(json.dumps(job) + "\n")
            self.p.stdin.flush()
            line = self.p.stdout.readline()
        if not line:
            raise common.InfraError("collect worker died")
        res = json.loads(line)
        if "harness_error" in res or res.get("died"):
            raise common.InfraError("collect worker child failed: " + str(res.get("harness_error", "died"))[-1400:])
        return res

    def close(self):
        try:
            self.p.stdin.close()
            self.p.wait(timeout=10)
        except Exception:  # noqa: BLE001
            self.p.kill()


def probe_names(case):
    names = set()
    for rel in case["files"]:
        if not rel.endswith(".py"):
            continue
        parts = [ROOTNAME] + rel.split("/")
        stem = parts[-1][:-3]
        for variant in ([*parts[:-1], stem], [p.replace(".", "_") for p in [*parts[:-1], stem]]):
            for a in range(len(variant)):
                for b in range(a + 1, len(variant) + 1):
                    names.add(".".join(variant[a:b]))
    return sorted(names)


def run_cases(cases, nworkers=8, hashseed0=0, servers=None):
    """Materialise, build with the real pytask, clean up. Returns {case id: observation}."""
    own = servers is None
    if own:
        servers = [Server(hashseed0 + i) for i in range(min(nworkers, max(1, len(cases))))]
    obs = {}

    def one(ic):
        i, case = ic
        base = common.scratch_dir("c13")
        try:
            base = Path(os.path.realpath(base))
            root, log = materialise(case, base)
            dirs = [str(root)] + [str(root / d) for d in case["dirs"]]
            cf = case.get("cfg_file") or {}
            job = {"root": str(root),
                   "paths": ([str(root)] if cf.get("paths") else
                             [str(base / p[1:]) if p.startswith("@") else (str(root / p) if p else str(root)) for p in case["paths"]]),
                   "ignore": None if cf.get("ignore") else case["ignore"],
                   "task_files": None if cf.get("task_files") else case["task_files"], "log": log,
                   "probe_modules": probe_names(case), "listdirs": dirs,
                   "ptasks": [dict(pt, file=ptask_file(case, pt, root, base)) for pt in case.get("ptasks") or []]}
            res = servers[i % len(servers)].run(job)
            res["root"] = str(root)
            res["base"] = str(base)
            return case["id"], res
        finally:
            shutil.rmtree(base, ignore_errors=True)

    try:
        with ThreadPoolExecutor(len(servers)) as ex:
            for cid, res in ex.map(one, list(enumerate(cases))):
                obs[cid] = res
    finally:
        if own:
            for s in servers:
                s.close()
    return obs


# ---------------------------------------------------------------------------------------------
# model lines
# ---------------------------------------------------------------------------------------------

def enc(s: str) -> str:
    return "e" if s == "" else ".".join(str(ord(c)) for c in s)


def enc_opt(s):
    return "~" if s is None else enc(s)


def enc_val(v):
    k = v[0]
    if k == "b":
        return "b1" if v[1] else "b0"
    if k == "i":
        return f"i{int(v[1])}"
    if k == "f":
        return "f" + enc(str(float(v[1])))
    if k == "s":
        return "s" + enc(v[1])
    return "o"


def enc_kv(d):
    return ",".join(f"{enc(k)}:{enc_val(v)}" for k, v in (d or {}).items())


def marks_after(stmts):
    """{index of a mark statement: marks the function carries after it} and {obj: all its marks}."""
    cur: dict = {}
    at = {}
    for i, st in enumerate(stmts):
        if st["k"] == "mark":
            cur.setdefault(st["obj"], set()).update(st["marks"])
            at[i] = set(cur[st["obj"]])
    return at, cur


def is_mixed(marks) -> bool:
    return "try_first" in marks and "try_last" in marks


def enc_stmt(st, mixed=False):
    if st["k"] == "mark":
        return f"m|{st['obj']}|{1 if mixed else 0}"
    if st["k"] == "value":
        return f"v|{enc(st['bind'])}"
    if st["k"] == "wrap":
        return f"w|{st['obj']}|{enc_opt(st.get('name'))}|{enc_opt(st.get('id'))}|{enc_kv(st.get('kwargs'))}"
    return (f"d|{st['obj']}|{enc_opt(st.get('bind'))}|{enc(st['fname'])}|{','.join(enc(p) for p in st['params'])}|"
            f"{enc_kv(st['defaults'])}|{st['tag']}")


def tree_tokens(root: str, listing: dict, case, order: int = 0) -> list[str]:
    """order 0: the directory order the build process saw (os.listdir); 1 / 2: sorted / reverse sorted (the order
    in which a directory is iterated is not part of the property; tried when order 0 does not reproduce the run)."""
    known_dirs = {os.path.join(root, d) for d in case["dirs"]} | {root}

    def rec(d):
        toks = ["D:" + os.path.basename(d)]
        entries = listing.get(d) or []
        if order:
            entries = sorted(entries, reverse=(order == 2))
        for e in entries:
            full = os.path.join(d, e)
            if full in known_dirs:
                toks += rec(full)
            elif os.path.relpath(full, root) in case["files"] or e == "pyproject.toml":
                toks.append("F:" + e)
            # anything else was not created by the harness (never happens before the build)
        toks.append("U")
        return toks

    return rec(root)


def model_lines(case, ob, perm=0, order=0):
    root = ob["root"]
    rootp = root.lstrip("/")
    pre = os.path.dirname(root).lstrip("/")
    lines = ["collect.reset", f"collect.fs pre={pre} tree={','.join(tree_tokens(root, ob['listing'], case, order))}"]
    for rel, prog in case["files"].items():
        if prog is None:
            continue
        at, _ = marks_after(prog["stmts"])
        lines.append(f"collect.prog path={rootp}/{rel} imports={','.join(prog.get('imports', []))} "
                     f"stmts={';'.join(enc_stmt(s, is_mixed(at.get(i, ()))) for i, s in enumerate(prog['stmts']))}")
    paths = ",".join(f"{rootp}/{p}" if p else rootp for p in (real_path(case, q) for q in case["paths"]))
    tf = case["task_files"] if case["task_files"] is not None else None
    lines.append(f"collect.run root={rootp} paths={paths} ignore={','.join(enc(p) for p in case['ignore'])} "
                 f"taskfiles={','.join(enc(p) for p in (tf if tf is not None else ['task_*.py']))} "
                 f"preloaded={','.join(ob.get('preloaded', []))} perm={perm}"
                 + (" ptasks=" + ",".join(f"{ptask_file(case, pt, root, ob['base']).lstrip('/')}|{enc(pt['fname'])}|{pt['tag']}|"
                                          f"{int(bool(pt.get('deco')))}{int(bool(pt.get('deco') or pt.get('marks')))}{int(is_mixed(pt.get('marks') or ()))}"
                                          for pt in case["ptasks"]) if case.get("ptasks") else ""))
    return lines


def parse_run(ans: str):
    if not ans.startswith("exit="):
        return None
    d = dict(t.split("=", 1) for t in ans.split(" "))
    tasks = []
    for t in filter(None, d.get("tasks", "").split(",")):
        n, tag = t.rsplit(":", 1)
        name = "" if n == "e" else "".join(chr(int(c)) for c in n.split("."))
        tasks.append((name, int(tag)))
    return {"exit": int(d["exit"]), "fails": int(d["fails"]), "tasks": sorted(tasks),
            "exec": sorted(int(x) for x in filter(None, d.get("exec", "").split(",")))}


# ---------------------------------------------------------------------------------------------
# oracle (knows the property and the declared programs; nothing about the Lean model)
# ---------------------------------------------------------------------------------------------

def default_ignore():
    try:
        from _pytask import config as c
        return list(c._IGNORED_FILES_AND_FOLDERS) + list(c.IGNORED_TEMPORARY_FILES_AND_FOLDERS)
    except Exception:  # noqa: BLE001
        return list(FALLBACK_IGNORE)


def path_match(abs_path: str, pattern: str) -> bool:
    """The documented semantics of `Path.match` (POSIX, Python 3.12), written out independently: the pattern is split
    into components (empty and "." components vanish); a relative pattern is compared, component by component with
    case-sensitive fnmatch, against the *trailing* components of the path — a pattern with a directory part is not
    compared with the file name alone —; an absolute pattern must cover the whole path."""
    import fnmatch
    comps = [c for c in pattern.split("/") if c not in ("", ".")]
    parts = [c for c in abs_path.split("/") if c]
    if not comps:
        raise ValueError("empty pattern")
    if pattern.startswith("/"):
        return len(comps) == len(parts) and all(fnmatch.fnmatchcase(a, b) for a, b in zip(parts, comps))
    if len(comps) > len(parts):
        return False
    return all(fnmatch.fnmatchcase(a, b) for a, b in zip(parts[len(parts) - len(comps):], comps))


def matches(abs_path: str, pats) -> bool:
    return any(path_match(abs_path, p) for p in pats)


def oracle_files(case, root: str):
    """Non-ignored files reachable from the given paths without entering an ignored directory (as a set)."""
    ign = list(case["ignore"]) + default_ignore()
    dirs = {os.path.join(root, d) for d in case["dirs"]} | {root}
    files = {os.path.join(root, f) for f in case["files"]} | {os.path.join(root, "pyproject.toml")}
    children: dict = {}
    for x in dirs | files:
        if x != root:
            children.setdefault(os.path.dirname(x), []).append(x)
    out = set()

    def rec(p):
        if matches(p, ign):
            return
        if p in dirs:
            for c in children.get(p, []):
                rec(c)
        elif p in files:
            out.add(p)

    for q in case["paths"]:
        p = real_path(case, q)
        rec(os.path.join(root, p) if p else root)
    return out


def qualifying(prog):
    """Tags of the functions of one module that qualify as tasks: every function wrapped by @task, and every
    unwrapped function that is (still) bound to a module attribute with the task_ prefix."""
    wrapped = {}
    tags = {}
    binds = {}
    for st in prog["stmts"]:
        if st["k"] == "def":
            tags[st["obj"]] = st["tag"]
            if st.get("bind"):
                binds[st["bind"]] = ("fn", st["obj"])
        elif st["k"] == "wrap":
            wrapped[st["obj"]] = wrapped.get(st["obj"], 0) + 1
        elif st["k"] == "value":
            binds[st["bind"]] = ("value", None)
        elif st["k"] == "gen":
            extra_tags = [st["tag"]] + [i["tag"] for i in st["inner"]]
            tags.update({("gen", t): t for t in extra_tags})
            wrapped.update({("gen", t): 1 for t in extra_tags})
    out = [tags[o] for o in wrapped]
    for name, (kind, o) in binds.items():
        if kind == "fn" and o not in wrapped and name.startswith("task_"):
            out.append(tags[o])
    return out


def expected_tags(case, root: str):
    tf = case["task_files"] if case["task_files"] is not None else ["task_*.py"]
    exp = []
    per_file = {}
    for f in sorted(oracle_files(case, root)):
        rel = os.path.relpath(f, root)
        prog = case["files"].get(rel)
        if prog is None or not matches(f, tf):
            continue
        q = qualifying(prog)
        per_file[rel] = q
        exp += q
    seen = set()
    for pt in case.get("ptasks") or []:       # programmatic tasks: every distinct function / task object once
        key = (pt["src"], pt["attr"], pt.get("name"), pt.get("share"))
        if key not in seen:
            seen.add(key)
            exp.append(pt["tag"])
    return sorted(exp), per_file


# --- when is a failed collection (exit code 3) legitimate? ----------------------------------------------------------
# Computed from the generated declaration programs with the *documented* id scheme, independently of pytask and of
# the Lean model: exit 3 is accepted only if distinct ids really cannot be formed or the project has a real fault.

def declared_ids(prog):
    """(name group, final id, obj) of the @task functions of one module: unique names stay, functions of a repeated name
    get name[id] (explicit id), name[i] (no parameters) or name[v1-v2-…] (scalar argument values, else <arg><i>)."""
    objs = {}
    order = []
    for st in prog["stmts"]:
        if st["k"] == "def":
            objs[st["obj"]] = {"fname": st["fname"], "params": st["params"], "defaults": st["defaults"], "name": None, "id": None, "kwargs": {}}
        elif st["k"] == "wrap" and st["obj"] in objs:
            o = objs[st["obj"]]
            o["name"] = st["name"] if st.get("name") else o["fname"]
            o["id"] = st.get("id")
            o["kwargs"] = st.get("kwargs") or {}
            order.append(st["obj"])
        elif st["k"] == "gen":
            objs[("gen", st["tag"])] = {"fname": st["fname"], "params": [], "defaults": {}, "name": st["fname"], "id": None, "kwargs": {}}
            order.append(("gen", st["tag"]))
    groups: dict = {}
    for ob in order:
        groups.setdefault(objs[ob]["name"], []).append(ob)
    out = []
    for name, obs in groups.items():
        if len(obs) == 1:
            out.append((name, name, obs[0]))
            continue
        params = objs[obs[0]]["params"]
        for i, ob in enumerate(obs):
            o = objs[ob]
            if o["id"] is not None:
                out.append((name, f"{name}[{o['id']}]", ob))
            elif not params:
                out.append((name, f"{name}[{i}]", ob))
            else:
                comps = []
                for p in params:
                    v = o["kwargs"].get(p, o["defaults"].get(p))
                    if v is not None and v[0] in "bifs":
                        comps.append(str(v[1]))
                    else:
                        comps.append(f"{p}{i}")
                out.append((name, f"{name}[{'-'.join(comps)}]", ob))
    return out, len(order) != len(set(order))


def module_faults(prog):
    """Reasons why the tasks of one module cannot get distinct ids."""
    out = []
    ids, rewrapped = declared_ids(prog)
    if rewrapped:
        out.append("one function object wrapped by @task more than once")
    names = [i for _, i, _ in ids]
    if len(set(names)) != len(names):
        out.append("two @task functions get the same id under the documented scheme")
    wrapped = {st["obj"] for st in prog["stmts"] if st["k"] == "wrap"}
    binds = {}
    for st in prog["stmts"]:
        if st["k"] == "def" and st.get("bind"):
            binds[st["bind"]] = st["obj"]
        elif st["k"] == "value":
            binds[st["bind"]] = None
    plain = {n for n, o in binds.items() if o is not None and o not in wrapped and n.startswith("task_")}
    if plain & set(names):
        out.append("a task_ function and an @task function share a name")
    return out


def failure_reasons(case, root, ob):
    tf = case["task_files"] if case["task_files"] is not None else ["task_*.py"]
    reasons = []
    coll = collision_files(case, ob)
    collected = set()
    for f in sorted(oracle_files(case, root)):
        rel = os.path.relpath(f, root)
        if rel not in case["files"] or not matches(f, tf):
            continue
        collected.add(rel)
        prog = case["files"][rel]
        if not rel.endswith(".py"):
            reasons.append(f"{rel}: matches task_files but is no Python source")
        if rel in coll:
            reasons.append(f"{rel}: module name not its own (F12 class)")
        if prog is None:
            continue
        reasons += [f"{rel}: {r}" for r in module_faults(prog)]
        if any(is_mixed(ms) for ms in marks_after(prog["stmts"])[1].values()):
            reasons.append(f"{rel}: a function carries try_first and try_last")
    for rel in collected:
        prog = case["files"][rel]
        for h in (prog or {}).get("imports", []):
            hp = case["files"].get(h + ".py")
            if hp is None:
                reasons.append(f"{rel}: imports {h}.py which does not exist (the module raises while it is imported)")
            if hp is not None and any(st["k"] == "wrap" for st in hp["stmts"]) and (h + ".py") not in collected:
                reasons.append(f"{rel}: imports {h}.py whose @task functions belong to no task module")
    keys = Counter()
    seen = set()
    for pt in case.get("ptasks") or []:
        keys[(pt["src"], pt["fname"]) if pt.get("kind") != "twp" else ("<twp>", pt["name"])] += 1
    for rel in collected:
        prog = case["files"][rel]
        if prog is not None:
            for name in {st["bind"] for st in prog["stmts"] if st["k"] == "def" and st.get("bind", "") and st["bind"].startswith("task_")}:
                keys[("proj:" + rel, name)] += 1
    if any(pt for pt in case.get("ptasks") or []) and any(c > 1 for k, c in keys.items()):
        reasons.append("a programmatic task shares file and name with another task")
    if any(is_mixed(pt.get("marks") or ()) for pt in case.get("ptasks") or []):
        reasons.append("a programmatic task carries try_first and try_last")
    return reasons


def tagnum(t):
    try:
        return int(str(t).split(":", 1)[1])
    except Exception:  # noqa: BLE001
        return -1


# --- classification of oracle failures against the known findings (narrow, spec + observation) ---------------

# The F12 class is pinned to the naming rule under which the finding was recorded: only '.' is rewritten to '_' in
# path-derived module names. A collision that needs any other rewriting (e.g. '-' -> '_') is NOT the known finding: it
# stays a fresh violation. The rule is cross-checked on every run against the Lean model's module-name function (which
# consumes the translator's normalisation table) and pinned in Lean by `C13_module_inj_nodot`.
F12_RULE_CHARS = "."


def module_key(case, rel: str):
    """(dotted module name `import_path` uses for a file, ("pkg", pkg_root rel | None) | ("path", None)) — used for the
    classification of F12 only."""
    files = set(case["files"])
    parts = rel.split("/")
    name = parts[-1]
    i = name.rfind(".")
    stem = name[:i] if 0 < i < len(name) - 1 else name
    chain = [ROOTNAME] + parts[:-1]            # directory names from the project directory down to the file's directory
    top = None
    for j in range(len(chain) - 1, -1, -1):
        drel = "/".join(parts[:j])
        init = (drel + "/" if drel else "") + "__init__.py"
        if init not in files or not chain[j].isidentifier():
            break
        top = j
    if top is not None:
        names = chain[top:] + [stem]
        if names[-1] == "__init__":
            names.pop()
        return ".".join(names), ("pkg", "/".join(parts[:top - 1]) if top >= 1 else None)
    names = parts[:-1] + [stem]
    if len(names) >= 2 and names[-1] == "__init__":
        names.pop()
    return ".".join("".join("_" if ch in F12_RULE_CHARS else ch for ch in n) for n in names), ("path", None)


def collision_files(case, ob):
    """Files whose module name is not theirs alone: shared with another file, with a name already in sys.modules,
    with an ancestor name of a path-named module, or shadowed by `<pkg_root>/<tail>.py` / `<pkg_root>/<tail>/` (finding F12)."""
    pre = set(ob.get("preloaded", []))
    keys = {f: module_key(case, f) for f in case["files"]}   # every file can occupy a module name (also empty / non-.py ones)
    cnt = Counter(k for k, _ in keys.values())
    inter = set()
    for f, (k, (kind, _)) in keys.items():
        if kind == "path":
            ps = k.split(".")
            inter |= {".".join(ps[:n]) for n in range(1, len(ps))}
    out = set()
    for f, (k, (kind, pr)) in keys.items():
        if cnt[k] > 1 or k in pre or k in inter:
            out.add(f)
        if kind == "pkg" and pr is not None:
            tail = k.split(".")[-1]
            base = pr + "/" if pr else ""
            cand = base + tail + ".py"
            if cand in case["files"] and cand != f:
                out |= {f, cand}
            if (base + tail) in case["dirs"]:
                out.add(f)
    return out


def judge(ctx, case, ob):
    """Evaluate the property on one observation. Returns True iff it holds (or the build failed with exit 3)."""
    root = ob["root"]
    rp = {"case": case}
    if ob.get("raised"):
        ctx.violation(f"build-raised: pytask.build raised {ob['raised']}", rp)
        return False
    gf = gen_faults(case)
    has_gen = any(st["k"] == "gen" for pr in case["files"].values() if pr is not None for st in pr["stmts"])
    if gf and ob["exit"] == 0:
        ctx.violation(f"generated-task-dropped: the build ended with exit code 0 although a task generator defined a task that "
                      f"cannot be collected ({gf[0]}); tasks={[t['name'].split('/')[-1] for t in ob['tasks']]}", rp)
        return False
    if has_gen and ob["exit"] not in (0, 3):
        if gf:
            return True
        ctx.violation(f"legal-project-failed: exit code {ob['exit']} although every generated task can be collected", rp)
        return False
    if ob["exit"] == 3:
        if failure_reasons(case, root, ob):
            return True
        ctx.violation("legal-project-failed: collection failed (exit 3, "
                      f"{ob.get('fail_excs')}) although every declared function can get its own id and the project has no "
                      "collection fault", rp)
        return False
    exp, per_file = expected_tags(case, root)
    got = sorted(tagnum(t["tag"]) for t in ob["tasks"])
    names = [t["name"] for t in ob["tasks"]]
    sigs = [t["sig"] for t in ob["tasks"]]
    dup_names = sorted(n for n, c in Counter(names).items() if c > 1)
    dup_sigs = [s for s, c in Counter(sigs).items() if c > 1]
    if got == exp and not dup_names and not dup_sigs:
        return True
    missing = list((Counter(exp) - Counter(got)).elements())
    extra = list((Counter(got) - Counter(exp)).elements())
    tag_file = {st["tag"]: f for f, pr in case["files"].items() if pr is not None for st in pr["stmts"] if st["k"] == "def"}
    what = (f"exit={ob['exit']} tasks={len(got)} expected={len(exp)} missing-bodies={missing} extra-bodies={extra} "
            f"duplicate-names={[n.split('/')[-1] for n in dup_names]}")
    # A symptom is a known finding only if it belongs to the F12 class (module name not the file's own); duplicated
    # names, or bodies lost in a module with a unique import name, are fresh violations (F8a / F8b are repaired).
    explained = not dup_names and not dup_sigs
    if explained and (missing or extra):
        coll = collision_files(case, ob)
        for t in set(missing) | set(extra):
            f = tag_file.get(t)
            if f is None or case["files"].get(f) is None or f not in coll:
                explained = False
    if explained and (missing or extra):
        ctx.violation("known-class F12: " + what, rp, finding="F12")
    else:
        ctx.violation("exactly-once: " + what, rp, finding=None)
    return False


# ---------------------------------------------------------------------------------------------
# generators
# ---------------------------------------------------------------------------------------------

VALS = [["i", 1], ["s", "1"], ["b", True], ["s", "True"], ["f", 1.0], ["s", "1.0"], ["o"], ["s", "x0"], ["s", "x1"],
        ["i", 0], ["s", "a-b"], ["s", "a"], ["s", "b"], ["i", -1], ["f", 0.5], ["b", False], ["s", "y1"], ["s", "b-c"]]
NAMES = ["f", "g", "task_a", "task_b", "f[0]", "f[1]", "f[1-True]", "f[x0]", "g[0]", "task_a[0]", "f[a]", ""]
IDS = ["a", "b", "0", "1", "", "x0", "1-True"]


class Gen:
    def __init__(self, rng):
        self.rng = rng
        self.n = 0

    def obj(self):
        self.n += 1
        return self.n

    def mkdef(self, fname, bind, params=(), defaults=None, style="factory"):
        o = self.obj()
        return {"k": "def", "obj": o, "bind": bind, "fname": fname, "params": list(params), "defaults": dict(defaults or {}),
                "tag": o, "style": style}

    def wrap(self, o, name=None, id_=None, kwargs=None, bare=False):
        return {"k": "wrap", "obj": o, "name": name, "id": id_, "kwargs": kwargs, "bare": bare}

    def unit(self):
        r = self.rng
        k = r.choices(["plain", "nonprefix", "value", "deco", "loop", "rewrap", "lambda", "partial", "plainlambda", "outside", "interleave"],
                      [4, 1, 1, 4, 5, 1, 2, 2, 1, 1, 2])[0]
        if k == "interleave":
            # functions of one repeated name declared with another @task function in between (legal: ids name[0], name[1])
            n1, n2 = r.sample(["f", "g", "run", "task_f"], 2)
            seq = r.choice([[n1, n2, n1], [n1, n2, n1, n2], [n2, n1, n1, n2, n1]])
            out = []
            for n in seq:
                d = self.mkdef(n, None, style="factory")
                out += [d, self.wrap(d["obj"], n if r.random() < 0.5 else None)]
            return out
        if k == "plain":
            n = r.choice(["task_a", "task_b", "task_c", "task_f"])
            return [self.mkdef(n, n, style="def")]
        if k == "nonprefix":
            n = r.choice(["helper", "compute", "tusk_a"])
            return [self.mkdef(n, n, style="def")]
        if k == "value":
            return [{"k": "value", "bind": r.choice(["task_data", "task_a", "CONST"])}]
        if k == "deco":
            fn = r.choice(["task_a", "task_b", "f", "g", "run"])
            style = r.choice(["def", "factory"])
            d = self.mkdef(fn, fn if style == "def" or r.random() < 0.5 else None, style=style)
            name = r.choice([None, None, None] + NAMES)
            id_ = r.choice([None, None, None, "a"])
            return [d, self.wrap(d["obj"], name, id_, bare=(name is None and id_ is None and r.random() < 0.5 and style != "def"))]
        if k == "loop":
            fn = r.choice(["task_f", "f", "g", "task_a", "_"])
            name = r.choice([None, None, "f", "g", "task_a", "task_f"])
            params = r.choice([[], [], ["x"], ["x"], ["x", "y"]])
            out = []
            via_kwargs = r.random() < 0.25
            prev = None
            for _ in range(r.choice([2, 2, 3])):
                vals = {p: r.choice(VALS) for p in params}
                if r.random() < 0.2 and prev is not None:
                    vals = dict(prev)
                prev = vals
                d = self.mkdef(fn, fn if r.random() < 0.6 else None, params, {} if via_kwargs else vals, style="factory")
                id_ = r.choice([None, None, None, None] + IDS) if r.random() < 0.5 else None
                out += [d, self.wrap(d["obj"], name, id_, kwargs=(vals if via_kwargs else None))]
            return out
        if k == "rewrap":
            fn = r.choice(["task_h", "h"])
            d = self.mkdef(fn, fn, style="def")
            i1 = r.choice([None, "a"])
            return [d, self.wrap(d["obj"], None, i1, bare=True), self.wrap(d["obj"], None, r.choice([None, "a", "b"]), bare=True)]
        if k == "lambda":
            out = []
            for _ in range(r.choice([1, 1, 2])):
                d = self.mkdef("<lambda>", None, style="lambda")
                out += [d, self.wrap(d["obj"], r.choice([None, None, "f", "lam"]), None)]
            return out
        if k == "partial":
            fn = r.choice(["task_p", "base", "f"])
            params = r.choice([[], ["x"]])
            d = self.mkdef(fn, None, params, {p: r.choice(VALS) for p in params}, style="partial")
            return [d, self.wrap(d["obj"], r.choice([None, None, "f"]), None)]
        if k == "plainlambda":
            if r.random() < 0.5:
                return [self.mkdef("<lambda>", r.choice(["task_l", "task_a"]), style="lambda")]
            return [self.mkdef("base", r.choice(["task_p", "task_b"]), style="partial")]
        # outside: a prefixed function wrapped once after its definition (the documented `task(...)(func)` idiom)
        d = self.mkdef("task_h", "task_h", style="def")
        return [d, self.wrap(d["obj"], None, r.choice([None, "a"]), bare=True)]

    MARKS = ["try_first", "try_last", "persist", "skipif", "custom_marker"]

    def with_marks(self, stmts):
        """Attach pytask markers to one function of a unit: directly after its definition (below a later @task) or after
        its @task wrapping (above it)."""
        r = self.rng
        defs = [i for i, st in enumerate(stmts) if st["k"] == "def"]
        if not defs or r.random() > 0.22:
            return stmts
        i = r.choice(defs)
        o = stmts[i]["obj"]
        marks = [r.choice(self.MARKS)]
        if r.random() < 0.15:
            marks = ["try_first", "try_last"]
        wraps = [j for j, st in enumerate(stmts) if st["k"] == "wrap" and st["obj"] == o]
        pos = (wraps[-1] + 1) if wraps and r.random() < 0.5 else i + 1
        return stmts[:pos] + [{"k": "mark", "obj": o, "marks": marks}] + stmts[pos:]

    def prog(self, rich=True, helpers=()):
        r = self.rng
        stmts = []
        for _ in range(r.choice([1, 1, 2, 2, 3, 4]) if rich else 1):
            stmts += self.with_marks(self.unit())
        imports = []
        if helpers and r.random() < 0.5:
            imports = [r.choice(list(helpers))]
        return {"imports": imports, "stmts": stmts}

    def simple_prog(self):
        n = self.rng.choice(["task_x", "task_x", "task_y"])
        if self.rng.random() < 0.3:
            d = self.mkdef("f", "f", style="def")
            return {"imports": [], "stmts": [d, self.wrap(d["obj"], None, None)]}
        return {"imports": [], "stmts": [self.mkdef(n, n, style="def")]}


# name alphabets: '.', '-', '_', digits, mixed case, leading underscores / dots. A case draws its names from a few
# families so that near-miss names (x.y / x_y, exp-1 / exp_1 / Exp_1, task_a.b / task_a_b / task_a-b) meet often.
DIR_COMMON = ["a", "b", "pkg", "sub"]
DIR_FAMILIES = [["x.y", "x_y", "x-y"], ["exp-1", "exp_1", "Exp_1", "exp.1"], ["task_a", "task-a", "src"], ["_priv", "__priv", "v2", "v-2", "v_2"],
                ["build", ".hid", "_build"], ["A", "a_", "a-", "a."]]
FILE_COMMON = ["task_x.py", "task_y.py", "mod_x.py"]
FILE_FAMILIES = [["task_a.py", "task_a.b.py", "task_a_b.py", "task_a-b.py"], ["task_run.py", "task_Run.py", "task_run1.py", "task_run-1.py", "task_run_1.py"],
                 ["x_tasks.py", "notes.txt", "code.py", "task_x.txt"], ["task__p.py", "task_.py", "_task_q.py", "task_x.PY"]]


def name_pools(rng):
    dirs = list(DIR_COMMON)
    for fam in rng.sample(DIR_FAMILIES, 2):
        dirs += fam
    files = list(FILE_COMMON)
    for fam in rng.sample(FILE_FAMILIES, rng.choice([1, 2])):
        files += fam
    return dirs, files


def random_case(rng, cid, focus=None):
    g = Gen(rng)
    dirs, files = [], {}
    focus = focus or rng.choice(["layout", "layout", "program", "program", "mixed"])
    rich_prog = focus in ("program", "mixed")
    DIRNAMES, FILENAMES = name_pools(rng)

    def add_file(rel, simple=False):
        if rel in files:
            return
        if rel.endswith(".py") and not rel.endswith("__init__.py"):
            files[rel] = g.simple_prog() if (simple or not rich_prog) else g.prog()
        else:
            files[rel] = None

    if focus == "program":
        add_file("task_m.py")
        if rng.random() < 0.4:
            add_file("sub/task_m.py" if rng.random() < 0.5 else "task_n.py")
            if "sub/task_m.py" in files:
                dirs.append("sub")
        if rng.random() < 0.2:
            # a helper module defining @task functions, imported by a task module (documented left-over scenario)
            d = g.mkdef("helped", "helped", style="def")
            files["helper_a.py"] = {"imports": [], "stmts": [d, g.wrap(d["obj"], None, None)]}
            files["task_m.py"]["imports"] = ["helper_a"]
    else:
        def grow(prefix, depth):
            for _ in range(rng.choice([1, 2, 2, 3]) if depth == 0 else rng.choice([0, 1, 2])):
                d = (prefix + "/" if prefix else "") + rng.choice(DIRNAMES)
                if d in dirs:
                    continue
                dirs.append(d)
                if rng.random() < 0.45:
                    files[d + "/__init__.py"] = None
                for _ in range(rng.choice([1, 1, 2])):
                    add_file(d + "/" + rng.choice(FILENAMES), simple=(focus == "layout"))
                if depth < 2:
                    grow(d, depth + 1)
        grow("", 0)
        for _ in range(rng.choice([0, 1, 1, 2])):
            add_file(rng.choice(FILENAMES), simple=(focus == "layout"))
        if rng.random() < 0.08:
            files["__init__.py"] = None
        if rng.random() < 0.15 and dirs:
            # a shadow candidate: <pkg_root>/<stem>.py next to <pkg_root>/<pkg>/<stem>.py
            pk = [d for d in dirs if d + "/__init__.py" in files]
            if pk:
                d = rng.choice(pk)
                tf = [f for f in files if f.startswith(d + "/") and f.count("/") == d.count("/") + 1 and f.endswith(".py") and "__init__" not in f]
                if tf:
                    par = os.path.dirname(d)
                    cand = (par + "/" if par else "") + os.path.basename(rng.choice(tf))
                    add_file(cand, simple=True)
    # paths: overlapping / repeated / files / sub-directories
    opts = [""]
    opts += dirs[:]
    opts += [f for f in files if f.endswith(".py") and "__init__" not in f]
    mode = rng.choice(["root", "root", "root", "multi", "multi", "dup"])
    if mode == "root":
        paths = [""]
    elif mode == "dup":
        p = rng.choice(opts)
        paths = [p, p] + ([""] if rng.random() < 0.5 else [])
    else:
        paths = [rng.choice(opts) for _ in range(rng.choice([2, 3]))]
        if rng.random() < 0.5:
            paths.append("")
        rng.shuffle(paths)
    links = {}
    if rng.random() < 0.12 and focus != "program":
        # a path argument that goes through a symbolic link outside the project to a directory of the project
        tgt = rng.choice([""] + dirs) if dirs else ""
        links["lnk0"] = tgt
        paths = list(paths) + ["@lnk0"]
        if rng.random() < 0.6 and tgt not in paths:
            paths.append(tgt)
        rng.shuffle(paths)
    ignore = []
    if rng.random() < 0.35:
        pool = ["task_y.py", "sub", "sub/*", "a/*", "*/task_x.py", "b", "task_a*", "*.b.py", "pkg/task_*.py", "x?y", "x.y/*", "*_y", "src/*/task_x.py", "task_m.py",
                "exp-1", "exp?1", "*-1", "_*", "task_run*", "v?2/*"]
        ignore = [rng.choice(pool) for _ in range(rng.choice([1, 1, 2]))]
    task_files = None
    r_tf = rng.random()
    if r_tf < 0.15:
        task_files = rng.choice([["*.py"], ["task_*.py", "*_tasks.py"], ["*_tasks.py"], ["t*.py"], ["task_x.py"], ["task_*"]])
    elif r_tf < 0.33:
        # patterns with a directory part (matched against the trailing path components), `*` in directory position,
        # case variants and patterns that match nothing
        some_dir = (rng.choice(dirs).split("/")[-1] if dirs else "sub")
        pool = [["task_*.py", f"{some_dir}/*.py"], [f"{some_dir}/*.py"], ["*/task_*.py"], [f"{some_dir}/t*.py", "task_x.py"],
                [f"*/{some_dir}/*.py"], ["sub/*/task_*.py", "task_*.py"], [f"{ROOTNAME}/*.py"], [f"{ROOTNAME}/*/task_*.py"],
                ["TASK_*.py"], ["Task_*.py", "task_*.py"], ["nomatch_*.py"], [f"{some_dir.upper()}/*.py", "task_y.py"],
                ["*/*.py"], [f"{some_dir}/mod_*.py", f"{some_dir}/x_*.py"], ["./task_*.py"], [f"{some_dir}/"]]
        task_files = rng.choice(pool)
    if task_files is not None and "helper_a.py" in files and matches(f"/x/{ROOTNAME}/helper_a.py", task_files):
        # the helper is executed by the harness' own loader; it must not also be a task module (it would run twice)
        del files["helper_a.py"]
        for pr in files.values():
            if pr is not None:
                pr["imports"] = []
        paths = [p for p in paths if p != "helper_a.py"] or [""]
    case = {"id": cid, "dirs": dirs, "files": files, "paths": paths, "ignore": ignore, "task_files": task_files}
    if links:
        case["links"] = links
    elif rng.random() < 0.2:
        # the same options given in pyproject.toml instead of build(...): a single value as a string or as a list
        cf = {}
        if ignore:
            cf["ignore"] = "str" if len(ignore) == 1 and rng.random() < 0.7 else "list"
        if rng.random() < 0.4:
            cf["paths"] = "str" if len(paths) == 1 and rng.random() < 0.6 else "list"
        if task_files is not None and rng.random() < 0.5:
            cf["task_files"] = "list"
        if cf:
            case["cfg_file"] = cf
    return case


def prog_case(rng, cid):
    """`build(paths=…, tasks=[…])`: functions of a module outside the project and / or of a task module that is also
    collected through the paths — plain, carrying pytask markers only, wrapped by @task (markers above / below), single or
    listed twice, optionally as TaskWithoutPath objects."""
    g = Gen(rng)
    names = ["task_a", "task_b", "work"]
    ext_stmts = []
    info = {}
    for n in names:
        d = g.mkdef(n, n, style="def")
        ext_stmts.append(d)
        info[n] = {"tag": d["tag"], "marks": [], "deco": False}
    files = {"task_m.py": {"imports": [], "stmts": [g.mkdef(n, n, style="def") for n in ["task_a", "task_c"]]}}
    use_paths = rng.random() < 0.6
    ptasks = []
    chosen = []

    def add(src, attr, kind="fn", name=None, share=None):
        if src.startswith("proj:"):
            st = next(x for x in files["task_m.py"]["stmts"] if x["k"] == "def" and x["fname"] == attr)
            ptasks.append({"src": src, "attr": attr, "fname": attr, "tag": st["tag"], "kind": kind, "name": name, "share": share, "marks": [], "deco": False})
        else:
            chosen.append(attr)
            ptasks.append({"src": src, "attr": attr, "fname": attr, "tag": info[attr]["tag"], "kind": kind, "name": name, "share": share})

    mode = rng.choice(["single", "single", "single", "twice", "path+task", "twp", "twp-dup", "two-fns", "two-fns"])
    if mode == "single":
        add("ext:progmod.py", rng.choice(names))
    elif mode == "twice":
        a = rng.choice(names)
        add("ext:progmod.py", a)
        if rng.random() < 0.5:
            add("ext:progmod.py", rng.choice([n for n in names if n != a]))
        add("ext:progmod.py", a)
    elif mode == "path+task":
        use_paths = True
        add("proj:task_m.py", rng.choice(["task_a", "task_c"]))
    elif mode == "two-fns":
        for a in rng.sample(names, 2):
            add("ext:progmod.py", a)
    elif mode == "twp":
        add("ext:progmod.py", "work", "twp", "t1", 0)
        add("ext:progmod.py", "task_a", "twp", "t2", 1)
    else:
        add("ext:progmod.py", "work", "twp", "t1", 0)
        add("ext:progmod.py", rng.choice(["work", "task_b"]), "twp", "t1", rng.choice([0, 1]))
    # markers / @task on the functions that are handed over (only those: an @task function that is not handed over
    # would be a left-over registration)
    if mode not in ("twp", "twp-dup"):
        for n in sorted(set(chosen)):
            r = rng.random()
            if r < 0.45:
                continue
            o = next(x["obj"] for x in ext_stmts if x["k"] == "def" and x["fname"] == n)
            marks = [rng.choice(Gen.MARKS)] if rng.random() < 0.9 else ["try_first", "try_last"]
            i = next(j for j, x in enumerate(ext_stmts) if x["k"] == "def" and x["fname"] == n)
            if r < 0.7:
                ext_stmts[i + 1:i + 1] = [{"k": "mark", "obj": o, "marks": marks}]                       # markers only
            elif r < 0.8:
                ext_stmts[i + 1:i + 1] = [g.wrap(o, bare=True)]                                          # @task only
                info[n]["deco"] = True
                marks = []
            elif r < 0.9:
                ext_stmts[i + 1:i + 1] = [{"k": "mark", "obj": o, "marks": marks}, g.wrap(o, bare=True)]  # marker below @task
                info[n]["deco"] = True
            else:
                ext_stmts[i + 1:i + 1] = [g.wrap(o, bare=True), {"k": "mark", "obj": o, "marks": marks}]  # marker above @task
                info[n]["deco"] = True
            info[n]["marks"] = marks
        for pt in ptasks:
            if pt["src"].startswith("ext:"):
                pt["marks"] = info[pt["attr"]]["marks"]
                pt["deco"] = info[pt["attr"]]["deco"]
    ext = {"progmod.py": {"imports": [], "stmts": ext_stmts}}
    return {"id": cid, "dirs": [], "files": files if use_paths else {}, "paths": [""], "ignore": [], "task_files": None,
            "ext": ext, "ptasks": ptasks}


GEN_FAULTS = ["mixed", "dir-dependency", "id-clash", "bad-after", "name-not-str"]


def child_ids(gen_stmt):
    """Final names of the tasks one generator defines (documented scheme: a repeated name gets name[id] / name[i])."""
    groups: dict = {}
    for i in gen_stmt["inner"]:
        if i.get("fault") in ("bad-after", "name-not-str"):
            continue
        groups.setdefault(i.get("name") or i["fname"], []).append(i)
    out = []
    for name, members in groups.items():
        if len(members) == 1:
            out.append(name)
        else:
            out += [f"{name}[{m['id'] if m.get('id') is not None else j}]" for j, m in enumerate(members)]
    return out


def static_names(prog):
    """Names of the tasks a module declares statically: unwrapped task_ functions and the final ids of @task functions
    (the generators themselves included)."""
    wrapped = {st["obj"] for st in prog["stmts"] if st["k"] == "wrap"}
    binds = {}
    for st in prog["stmts"]:
        if st["k"] == "def" and st.get("bind"):
            binds[st["bind"]] = st["obj"]
        elif st["k"] == "value":
            binds[st["bind"]] = None
    names = {n for n, o in binds.items() if o is not None and o not in wrapped and n.startswith("task_")}
    return names | {i for _, i, _ in declared_ids(prog)[0]}


def gen_faults(case):
    """Reasons, declared by the harness, why a build with task generators must not end with exit code 0: a defined task
    cannot be collected, or its name is already used by a task of the module or by a task of another generator."""
    out = []
    for rel, pr in case["files"].items():
        if pr is None:
            continue
        gens = [st for st in pr["stmts"] if st["k"] == "gen"]
        if not gens:
            continue
        out += [f"{rel}: generated task {i['fname']}: {i['fault']}" for st in gens for i in st["inner"] if i.get("fault")]
        taken = static_names(pr)
        ids = [child_ids(st) for st in gens]
        for k, mine in enumerate(ids):
            others = {x for j, o in enumerate(ids) if j != k for x in o}
            for n in mine:
                if n in taken:
                    out.append(f"{rel}: generated task {n}: name of a task the module declares")
                elif n in others:
                    out.append(f"{rel}: generated task {n}: name of a task another generator defines")
    return out


def gen_case(rng, cid):
    """Task generators (oracle only): one or two generators in a module create, while they run, @task functions — with a
    base name that also exists in a same-named module of another directory, in the same module (a task_ function, an
    @task name), among the children of the other generator, or not at all; some children cannot be collected (both
    priorities, a directory as dependency, two children with one id, a bad `after`, a name that is no string)."""
    g = Gen(rng)
    pool = ["task_x", "task_y", "made", "task_z"]
    stmts = []
    ngen = rng.choice([1, 1, 2, 2, 3])
    for k in range(ngen):
        n = g.obj()
        inner_names = rng.choice([["task_x"], ["task_x", "task_y"], ["made"], ["task_x", "task_x"], ["made", "task_y", "task_z"], [rng.choice(pool)]])
        inner = []
        for j, nm in enumerate(inner_names):
            inner.append({"fname": nm, "tag": g.obj(), "name": None, "id": (str(j) if inner_names.count(nm) > 1 else None), "kwargs": None})
        if rng.random() < 0.3:
            f = rng.choice(GEN_FAULTS)
            if f == "id-clash":
                if len(inner) >= 2:
                    inner[1]["fname"] = inner[0]["fname"]
                    inner[0]["id"] = inner[1]["id"] = "same"
                    inner[0]["fault"] = inner[1]["fault"] = "id-clash"
            else:
                rng.choice(inner)["fault"] = f
        if rng.random() < 0.15 and inner[0].get("fault") != "id-clash":
            inner[0]["name"] = rng.choice(pool)          # @task(name=…) on a child
        stmts.append({"k": "gen", "obj": n, "fname": "task_gen" if k == 0 else f"task_gen{k + 1}", "tag": n, "inner": inner})
    # tasks the module declares statically, before or after the generators
    static = []
    r = rng.random()
    if r < 0.25:
        x = rng.choice(pool)
        static = [g.mkdef(x, x, style="def")]
    elif r < 0.4:
        d = g.mkdef("helper_fn", "helper_fn", style="def")
        static = [d, g.wrap(d["obj"], rng.choice(pool))]
    stmts = static + stmts if rng.random() < 0.5 else stmts + static
    stem = rng.choice(["task_m.py", "task_m.py", "task_n.py"])
    files = {"b/" + stem: {"imports": [], "stmts": stmts},
             "a/task_m.py": {"imports": [], "stmts": [g.mkdef(x, x, style="def") for x in rng.choice([["task_x"], ["task_x", "task_z"], ["task_q"]])]}}
    if rng.random() < 0.4:
        files["c/task_m.py"] = {"imports": [], "stmts": [g.mkdef("task_x", "task_x", style="def")]}
    return {"id": cid, "dirs": sorted({os.path.dirname(f) for f in files}), "files": files, "paths": [""], "ignore": [], "task_files": None}


def has_persist(case) -> bool:
    """A `persist` marker changes which bodies run in the first build (outcome PERSISTENCE) — execution is the engine's
    business (C17); the executed bodies are then not compared."""
    return any("persist" in st.get("marks", ()) for pr in list(case["files"].values()) + list((case.get("ext") or {}).values())
               if pr is not None for st in pr["stmts"] if st["k"] == "mark")


def model_applicable(case) -> bool:
    """The Lean model covers paths, plain programmatic functions and links; task generators and TaskWithoutPath objects
    are judged by the oracle only."""
    if any(pt.get("kind") == "twp" for pt in case.get("ptasks") or []):
        return False
    if any(h + ".py" not in case["files"] for pr in case["files"].values() if pr is not None for h in pr.get("imports", [])):
        return False    # a module that raises while it is imported (assumption of the model: modules import without errors)
    return not any(st["k"] == "gen" for pr in case["files"].values() if pr is not None for st in pr["stmts"])


def witness_cases():
    """Corpus: the former F8a / F8b witnesses (repaired by 2ddbdf4 / faa5f38: they must now fail collection with exit
    code 3; also stored as corpus/C13/*.json), the F12 witnesses and their variants, benign controls."""
    g = Gen(None)
    out = []
    # former F8a: a loop of two `f` without parameters (ids f[0], f[1]) + an explicit name "f[0]"
    a, b, c = g.mkdef("f", "f", style="factory"), g.mkdef("f", "f", style="factory"), g.mkdef("g", "g", style="def")
    out.append({"id": "w-f8a", "dirs": [], "paths": [""], "ignore": [], "task_files": None, "files": {"task_m.py": {"imports": [], "stmts": [
        a, g.wrap(a["obj"], "f"), b, g.wrap(b["obj"], "f"), c, g.wrap(c["obj"], "f[0]")]}}})
    # former F8b: def task_x + @task(name="task_x") def other
    a, b = g.mkdef("task_x", "task_x", style="def"), g.mkdef("other", "other", style="def")
    out.append({"id": "w-f8b", "dirs": [], "paths": [""], "ignore": [], "task_files": None, "files": {"task_m.py": {"imports": [], "stmts": [
        a, b, g.wrap(b["obj"], "task_x")]}}})

    def one(name):
        return {"imports": [], "stmts": [g.mkdef(name, name, style="def")]}
    # F12: the same package name in two directories
    out.append({"id": "w-f12-pkg", "dirs": ["a", "a/pkg", "b", "b/pkg"], "paths": [""], "ignore": [], "task_files": None, "files": {
        "a/pkg/__init__.py": None, "a/pkg/task_x.py": one("task_x"), "b/pkg/__init__.py": None, "b/pkg/task_x.py": one("task_x")}})
    # F12: x.y/ vs x_y/
    out.append({"id": "w-f12-dots", "dirs": ["x.y", "x_y"], "paths": [""], "ignore": [], "task_files": None, "files": {
        "x.y/task_t.py": one("task_t"), "x_y/task_t.py": one("task_t")}})
    # F12: directory task_a/ collected before the file task_a.py (dummy ancestor module in sys.modules)
    out.append({"id": "w-f12-inter", "dirs": ["task_a"], "paths": ["task_a", "task_a.py"], "ignore": [], "task_files": None, "files": {
        "task_a/task_b.py": one("task_b"), "task_a.py": one("task_a")}})
    # F12: <pkg_root>/task_x.py shadows <pkg_root>/pkg/task_x.py (find_spec is asked to search pkg_root)
    out.append({"id": "w-f12-shadow", "dirs": ["pkg"], "paths": ["pkg"], "ignore": [], "task_files": None, "files": {
        "pkg/__init__.py": None, "pkg/task_x.py": one("task_x"), "task_x.py": one("task_x")}})
    # F12: a module name that is already in sys.modules (task_files = *.py)
    out.append({"id": "w-f12-stdlib", "dirs": [], "paths": [""], "ignore": [], "task_files": ["*.py"], "files": {"code.py": one("task_t")}})
    # controls: same stem in plain directories; duplicate id → exit 3; path given twice; helper left-over → exit 3
    out.append({"id": "w-ok-stems", "dirs": ["a", "b", "a/sub"], "paths": ["", "a", "a/task_x.py", ""], "ignore": [], "task_files": None, "files": {
        "a/task_x.py": one("task_x"), "b/task_x.py": one("task_x"), "a/sub/task_x.py": one("task_x"), "task_x.py": one("task_x")}})
    # controls: sibling directories whose names differ only in a character the naming rule does not rewrite
    out.append({"id": "w-ok-nearmiss", "dirs": ["exp-1", "exp_1", "Exp_1", "_exp_1"], "paths": [""], "ignore": [], "task_files": None, "files": {
        "exp-1/task_run.py": one("task_run"), "exp_1/task_run.py": one("task_run"), "Exp_1/task_run.py": one("task_run"),
        "_exp_1/task_run.py": one("task_run"), "exp_1/task_run-1.py": one("task_run"), "exp_1/task_run_1.py": one("task_run")}})
    a, b = g.mkdef("f", None, ["x"], {"x": ["i", 1]}), g.mkdef("f", None, ["x"], {"x": ["s", "1"]})
    out.append({"id": "w-ok-dupid", "dirs": [], "paths": [""], "ignore": [], "task_files": None, "files": {"task_m.py": {"imports": [], "stmts": [
        a, g.wrap(a["obj"]), b, g.wrap(b["obj"])]}}})
    # former F31 (fix 21cea5f): a function that only carries a marker, handed over through build(tasks=[…]), must be collected
    d = g.mkdef("work", "work", style="def")
    out.append({"id": "w-f31", "dirs": [], "paths": [""], "ignore": [], "task_files": None, "files": {},
                "ext": {"progmod.py": {"imports": [], "stmts": [d, {"k": "mark", "obj": d["obj"], "marks": ["try_first"]}]}},
                "ptasks": [{"src": "ext:progmod.py", "attr": "work", "fname": "work", "tag": d["tag"], "kind": "fn", "name": None,
                            "share": None, "marks": ["try_first"], "deco": False}]})
    # former F35 (fix f1fcb9a): a task generator defines a child that cannot be collected (both priorities) next to a good one
    n = g.obj()
    out.append({"id": "w-f35", "dirs": [], "paths": [""], "ignore": [], "task_files": None, "files": {"task_m.py": {"imports": [], "stmts": [
        {"k": "gen", "obj": n, "fname": "task_gen", "tag": n, "inner": [
            {"fname": "task_x", "tag": g.obj(), "name": None, "id": None, "kwargs": None},
            {"fname": "task_y", "tag": g.obj(), "name": None, "id": None, "kwargs": None, "fault": "mixed"}]}]}}})
    # former F39 (fix 6571c4f): a generated task named like a task of the module / like a task of another generator
    n, x = g.obj(), g.mkdef("task_x", "task_x", style="def")
    out.append({"id": "w-f39-static", "dirs": [], "paths": [""], "ignore": [], "task_files": None, "files": {"task_m.py": {"imports": [], "stmts": [
        x, {"k": "gen", "obj": n, "fname": "task_gen", "tag": n, "inner": [{"fname": "child", "tag": g.obj(), "name": "task_x", "id": None, "kwargs": None}]}]}}})
    n1, n2 = g.obj(), g.obj()
    out.append({"id": "w-f39-two-generators", "dirs": [], "paths": [""], "ignore": [], "task_files": None, "files": {"task_m.py": {"imports": [], "stmts": [
        {"k": "gen", "obj": n1, "fname": "task_gen", "tag": n1, "inner": [{"fname": "task_y", "tag": g.obj(), "name": None, "id": None, "kwargs": None}]},
        {"k": "gen", "obj": n2, "fname": "task_gen2", "tag": n2, "inner": [{"fname": "task_y", "tag": g.obj(), "name": None, "id": None, "kwargs": None}]}]}}})
    d = g.mkdef("helped", "helped", style="def")
    out.append({"id": "w-ok-leftover", "dirs": [], "paths": [""], "ignore": [], "task_files": None, "files": {
        "helper_a.py": {"imports": [], "stmts": [d, g.wrap(d["obj"])]},
        "task_m.py": {"imports": ["helper_a"], "stmts": [g.mkdef("task_a", "task_a", style="def")]}}})
    return out


# ---------------------------------------------------------------------------------------------
# PurePath.match vs the model's pattern matcher (exhaustive small scope)
# ---------------------------------------------------------------------------------------------

def pmatch_campaign(ctx, n_random):
    import itertools
    comps = ["a", "ab", "b", ".a", "a.py"]
    pats_atoms = ["a", "b", "*", "?", "a*", "*b", "*.py", ".a", "a?", "*a*"]
    cases = []
    for plen in (1, 2, 3):
        for path in itertools.product(comps[:4] if plen == 3 else comps, repeat=plen):
            for qlen in (1, 2):
                for pat in itertools.product(pats_atoms if qlen == 1 else pats_atoms[:7], repeat=qlen):
                    cases.append(("/".join(path), "/".join(pat)))
    if not ctx.thorough:
        cases = [c for i, c in enumerate(cases) if i % 4 == ctx.seed % 4]
    extra = ["/a/*", "/*/b", "/a/b", "a/", "./a", "*/", "/a", "a/*", "*/b", "b/*/b", "A/b", "a/B"]
    cases += [(p, q) for p in ("a/b", "a", "b/a/b") for q in extra]
    rng = ctx.rng
    for _ in range(n_random):
        path = "/".join(rng.choice(comps + ["x.y", "task_x.py", "pkg"]) for _ in range(rng.randint(1, 4)))
        pat = "/".join("".join(rng.choice(["a", "b", "*", "?", ".", "x", "task_", "y", "py"]) for _ in range(rng.randint(1, 4)))
                       for _ in range(rng.randint(1, 3)))
        if rng.random() < 0.1:
            pat = "/" + pat
        cases.append((path, pat))
    lines = [f"collect.pmatch path={p} pat={enc(q)}" for p, q in cases]
    answers = ctx.driver().batch(lines) if ctx.use_model else [None] * len(cases)
    for (p, q), ans in zip(cases, answers):
        try:
            want = PurePosixPath("/" + p).match(q)
        except ValueError:
            continue
        ctx.case(["pmatch", p, q], want, {"path": p, "pattern": q, "match": want})
        ctx.dist["pmatch"] += 1
        try:
            own = path_match("/" + p, q)
        except ValueError:
            own = None
        if own is not None and own != want:
            ctx.disagreement(f"pmatch-oracle-differs: PurePosixPath('/{p}').match({q!r}) = {want}, harness path_match {own}", {"kind": "pmatch", "path": p, "pat": q})
        if ans is not None and ans != ("1" if want else "0"):
            ctx.disagreement(f"pmatch-differs: PurePosixPath('/{p}').match({q!r}) = {want}, model {ans}", {"kind": "pmatch", "path": p, "pat": q})


# ---------------------------------------------------------------------------------------------
# campaign
# ---------------------------------------------------------------------------------------------

def canon(case):
    return [sorted(case["dirs"]), {k: (v if v is None else [v.get("imports"), [{kk: vv for kk, vv in s.items() if kk not in ("obj", "tag")} for s in v["stmts"]]])
                                   for k, v in sorted(case["files"].items())}, case["paths"], case["ignore"], case["task_files"],
            case.get("links"), case.get("cfg_file"), [[pt["src"], pt["attr"], pt["kind"], pt.get("name"), pt.get("share")] for pt in case.get("ptasks") or []]]


def nontrivial(case, ob, exp):
    """≥ 2 qualifying functions declared and something that can collide: a repeated stem / name / id, overlapping paths,
    a pattern, or a failed collection."""
    return len(exp) >= 2


def check_module_names(ctx, case, ob, d):
    """The classifier's module-name rule must be the model's (state of the driver: the file system of this case)."""
    rootp = ob["root"].lstrip("/")
    files = [f for f in case["files"] if f.endswith(".py")]
    if not files:
        return
    answers = d.batch([f"collect.modkey root={rootp} path={rootp}/{f}" for f in files])
    for f, ans in zip(files, answers):
        want = module_key(case, f)
        exp = f"pkg={1 if want[1][0] == 'pkg' else 0} key={want[0]}"
        if ans != exp:
            ctx.disagreement(f"module-name-rule-differs: {f}: model `{ans}`, rule of the recorded finding F12 `{exp}`", {"case": case})
            return


def compare_model(ctx, case, ob):
    if not ctx.use_model or not model_applicable(case):
        return
    d = ctx.driver()
    d.batch(model_lines(case, ob, 0, 0)[:2])
    check_module_names(ctx, case, ob, d)
    got = {"exit": ob["exit"], "tasks": sorted((t["name"], tagnum(t["tag"])) for t in ob["tasks"]),
           "exec": sorted(tagnum(t) for t in ob["executed"])}
    last = None
    for perm, order in [(p, 0) for p in range(6)] + [(p, o) for o in (1, 2) for p in range(3)]:
        answers = d.batch(model_lines(case, ob, perm, order))
        m = parse_run(answers[-1])
        if m is None or any(a == "bad-op" for a in answers[:-1]):
            ctx.disagreement(f"model-rejected-input: {answers[-1][:120]}", {"case": case})
            return
        last = m
        same_exit = m["exit"] == got["exit"]
        if got["exit"] == 3:
            # collection failed: tasks of successful reports are still listed; bodies never run
            ok = same_exit and m["tasks"] == got["tasks"]
        else:
            ok = same_exit and m["tasks"] == got["tasks"] and (got["exit"] != 0 or has_persist(case) or m["exec"] == got["exec"])
        if ok:
            ctx.traces_validated += 1
            return
    ctx.disagreement(f"collect-differs: implementation exit={got['exit']} tasks={got['tasks'][:6]} exec={got['exec'][:8]} | "
                     f"model exit={last['exit']} tasks={last['tasks'][:6]} exec={last['exec'][:8]} fails={last['fails']}", {"case": case})


def evaluate(ctx, cases, obs):
    for case in cases:
        ob = obs[case["id"]]
        exp, _ = expected_tags(case, ob["root"]) if not ob.get("raised") else ([], {})
        nv = len(ctx.violations)
        judge(ctx, case, ob)
        kind = "raised" if ob.get("raised") else f"exit{ob['exit']}"
        ctx.dist[kind] += 1
        if len(ctx.violations) > nv:
            ctx.dist["oracle-fail:" + str(ctx.violations[-1]["finding"])] += 1
        ctx.dist[f"ntasks:{min(len(ob['tasks']), 9)}"] += 1
        ctx.case(canon(case), nontrivial(case, ob, exp),
                 {"id": case["id"], "files": sorted(case["files"]), "paths": case["paths"], "exit": ob["exit"], "tasks": len(ob["tasks"]), "expected": len(exp)})
        compare_model(ctx, case, ob)


def shrink_violations(ctx, start, budget=60):
    """Reduce the first fresh (unclassified) failing case: drop files / statements / paths while the oracle still
    fails with an unclassified violation. Bounded number of real builds."""
    fresh = [v for v in ctx.violations[start:] if v["finding"] is None and "case" in v["replay"]]
    if not fresh:
        return
    v = fresh[0]
    case = v["replay"]["case"]
    used = 0
    changed = True
    servers = [Server(ctx.seed * 16)]
    while changed and used < budget:
        changed = False
        for cand in shrink_candidates(case):
            if used >= budget:
                break
            used += 1
            probe = common.Ctx(ctx.prop, ctx.tier, ctx.seed)
            try:
                ob = run_cases([cand], 1, servers=servers)[cand["id"]]
            except Exception:  # noqa: BLE001  (an ill-formed candidate, e.g. a programmatic task whose function was deleted)
                servers[0].close()
                servers = [Server(ctx.seed * 16)]
                continue
            judge(probe, cand, ob)
            if ob.get("exit") in (0, 3) and probe.violations and all(x["finding"] is None for x in probe.violations):
                case = cand
                v["what"] = probe.violations[0]["what"]
                changed = True
                break
    servers[0].close()
    v["replay"]["case"] = case
    # report the minimised case first
    ctx.violations.remove(v)
    ctx.violations.insert(0, v)


def shrink_candidates(case):
    files = list(case["files"])
    used = {pt["src"].split(":", 1)[1] for pt in case.get("ptasks") or [] if pt["src"].startswith("proj:")}
    for i in range(len(case.get("ptasks") or [])):
        c = json.loads(json.dumps(case))
        del c["ptasks"][i]
        yield c
    for f in files:
        if f in used:
            continue
        c = json.loads(json.dumps(case))
        del c["files"][f]
        for pr in c["files"].values():       # a deleted helper module is no longer imported
            if pr is not None and f.endswith(".py") and "/" not in f:
                pr["imports"] = [h for h in pr.get("imports", []) if h + ".py" != f]
        c["paths"] = [p for p in c["paths"] if p != f]
        if c["paths"]:
            yield c
    for f in files:
        prog = case["files"][f]
        if prog is None:
            continue
        objs = sorted({s["obj"] for s in prog["stmts"] if "obj" in s})
        for o in objs:
            c = json.loads(json.dumps(case))
            c["files"][f]["stmts"] = [s for s in c["files"][f]["stmts"] if s.get("obj") != o]
            yield c
    if len(case["paths"]) > 1:
        for i in range(len(case["paths"])):
            c = json.loads(json.dumps(case))
            del c["paths"][i]
            yield c
    if case["ignore"]:
        c = json.loads(json.dumps(case))
        c["ignore"] = []
        yield c


MUST_FAIL_COLLECTION = ("w-f8a", "w-f8b")


def corpus_cases():
    """corpus/C13/*.json (minimised past witnesses) — replayed before anything is generated."""
    out = []
    d = common.VERIF / "corpus" / "C13"
    for f in sorted(d.glob("*.json")) if d.is_dir() else []:
        out.append(json.loads(f.read_text()))
    return out


def campaign(ctx):
    rng = ctx.rng
    cases = corpus_cases()
    have = {c["id"] for c in cases}
    cases += [c for c in witness_cases() if c["id"] not in have]
    n = ctx.scale(150, 2500)
    for i in range(n):
        cases.append(random_case(rng, f"r{i}"))
    for i in range(ctx.scale(14, 150)):
        cases.append(prog_case(rng, f"p{i}"))
    for i in range(ctx.scale(14, 120)):
        cases.append(gen_case(rng, f"g{i}"))
    nworkers = 8 if not ctx.thorough else 12
    obs = run_cases(cases, nworkers, hashseed0=ctx.seed * 16)
    start = len(ctx.violations)
    evaluate(ctx, cases, obs)
    shrink_violations(ctx, start)
    pmatch_campaign(ctx, ctx.scale(300, 5000))
    found = {v["finding"] for v in ctx.violations}
    ctx.extra["selftest_F12_witness_detected"] = "F12" in found
    for cid in MUST_FAIL_COLLECTION:
        ob = obs.get(cid)
        ctx.extra[f"corpus_{cid}_exit"] = None if ob is None else ob.get("exit")
        if ob is not None and ob.get("exit") != 3 and not any(v["replay"].get("case", {}).get("id") == cid for v in ctx.violations):
            ctx.violation(f"corpus: {cid} must fail collection (exit 3) since its repair, got exit {ob.get('exit')}", {"case": next(c for c in cases if c["id"] == cid)})
