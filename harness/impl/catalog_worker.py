"""One *session* of data-catalog operations on the real code, in a fresh interpreter.

stdin: {"projects": [{"dir": <project dir>, "ops": [op, …]}, …]}       strings are code-point lists
ops:   {"k": "make", "cat": cps, "entries": [cps, …]}     construct DataCatalog(name=cat), ask for the entries' nodes
       {"k": "save", "cat": cps, "e": cps, "v": <base64 pickle>}        catalog[e].save(value)
       {"k": "load", "cat": cps, "e": cps}                              catalog[e].load()
stdout: {"results": [[result, …] per project]}
The catalog objects are created by a real module inside the project (`<dir>/catmod.py`), exactly as a task
module would, so `_instance_path`, the project root lookup and the pickled nodes are the real ones.
"""
from __future__ import annotations

import base64
import importlib.util
import json
import os
import pickle
import sys

from catalog_canon import canon, scramble

CATMOD = """\
from pytask import DataCatalog


def make(name):
    return DataCatalog(name=name)
"""


def s(cps):
    return "".join(chr(c) for c in cps)


def load_catmod(proj: str, n: int):
    path = os.path.join(proj, "catmod.py")
    if not os.path.exists(path):
        with open(path, "w") as f:
            f.write(CATMOD)
    spec = importlib.util.spec_from_file_location(f"verif_catmod_{n}", path)
    mod = importlib.util.module_from_spec(spec)
    spec.loader.exec_module(mod)
    return mod


def classify(e: BaseException) -> dict:
    if isinstance(e, ValueError):
        return {"out": "ValueError"}
    if isinstance(e, TypeError):
        return {"out": "TypeError"}
    if isinstance(e, OSError):
        return {"out": "OSError", "errno": e.errno}
    return {"out": "other", "type": type(e).__name__, "msg": str(e)[:200]}


def main() -> int:
    job = json.load(sys.stdin)
    all_results = []
    for n, proj in enumerate(job["projects"]):
        mod = load_catmod(proj["dir"], n)
        cats: dict[str, object] = {}
        results = []

        def get(name: str):
            if name not in cats:
                try:
                    cats[name] = mod.make(name)
                except BaseException as e:  # noqa: BLE001
                    cats[name] = classify(e)
            return cats[name]

        for op in proj["ops"]:
            name = s(op["cat"])
            c = get(name)
            if isinstance(c, dict):
                results.append(c)
                continue
            try:
                if op["k"] == "make":
                    r = {"out": "ok", "dir": os.fspath(c.path), "entries": []}
                    for e in op.get("entries", []):
                        node = c[s(e)]
                        r["entries"].append(os.fspath(node.path))
                    results.append(r)
                elif op["k"] == "save":
                    c[s(op["e"])].save(pickle.loads(base64.b64decode(op["v"])))
                    results.append({"out": "done"})
                elif op["k"] == "load":
                    try:
                        v = c[s(op["e"])].load()
                    except FileNotFoundError:
                        results.append({"out": "missing"})
                    else:
                        results.append({"out": "loaded", "canon": canon(v)})
                        scramble(v)      # the caller's copy is the caller's: later loads must not see this
                else:
                    results.append({"out": "bad-op"})
            except BaseException as e:  # noqa: BLE001
                r = classify(e)
                r["during"] = op["k"]
                results.append(r)
        all_results.append(results)
    json.dump({"results": all_results}, sys.stdout)
    return 0


if __name__ == "__main__":
    sys.exit(main())
