"""End-to-end campaign for C07: generated task modules whose parameters mix every declaration form; the bodies log the
canonical form of what they received and return a value; real builds via the fork server; spec-level oracle; Lean model diff.

A task spec (JSON):
  {"name": "t3",
   "params": [{"name": str, "default": tree|None, "annot": tree|None, "product": bool}],   # all keyword-only
   "kwargs": [[name, tree]…],          # @task(kwargs=…)
   "ret": tree|None,                   # -> Annotated[Any, <tree of nodes>]
   "produces": tree|None,              # @task(produces=…)
   "out": tree|None,                   # what the body returns (leaf tokens s<word> str, i<k> int, N None)
   "sentinel": bool}                   # return-product files pre-exist with a sentinel content
Declaration trees use the JSON tree format of tree_api with leaf labels
   v<k> int · vNone · vE "" · v0 · vFalse · vt<word> str · p<name> Path("<name>.txt") · n<k> PythonNode(value=k) ·
   h<k> PythonNode(value=k, hash=True) · k<name> PickleNode(<name>.pkl) · kcat_<e> DataCatalog entry <e>.
"""
from __future__ import annotations

import json
import pickle
import shutil
from concurrent.futures import ThreadPoolExecutor
from pathlib import Path

import common
from impl import builder, tree_api
from impl.tree_api import enc, fits, positions, sub_at

CATALOG = "c07cat"
SENTINEL = "SENTINEL"

RT = r'''
"""runtime helper of the generated C07 modules (not a task module)"""
import hashlib
import json
import pickle
import threading
from pathlib import Path
import attrs
from pytask import PickleNode, PythonNode, DataCatalog
ROOT = Path(__file__).resolve().parent
CAT = DataCatalog(name="c07cat")
_CATMAP = {}

def cat(entry, dep):
    node = CAT[entry]
    _CATMAP[entry] = str(node.path)
    (ROOT / "catmap.json").write_text(json.dumps(_CATMAP))
    if dep and not node.path.exists():
        node.save("pk:cat_" + entry)
    return node

def _key(k):
    return ("i%d" % k) if isinstance(k, int) else "s" + k

_IDV = {}

def idv(name):
    """identity-sensitive / uncopyable declared values: ONE object per name in this process"""
    if name not in _IDV:
        kind = name.rsplit("_", 1)[1]
        _IDV[name] = {"lock": threading.Lock, "obj": object, "gen": lambda: (i for i in range(3))}[kind]()
    return _IDV[name]

@attrs.define(kw_only=True)
class CustomNode:
    """a user-defined PPathNode: pickles like PickleNode, own class, own file suffix"""
    path: Path
    name: str = ""
    attributes: dict = attrs.field(factory=dict)

    @property
    def signature(self):
        return hashlib.sha256(("c07custom" + str(self.path)).encode()).hexdigest()

    def state(self):
        return str(self.path.stat().st_mtime) if self.path.exists() else None

    def load(self, is_product=False):
        if is_product:
            return self
        return pickle.loads(self.path.read_bytes())

    def save(self, value):
        self.path.write_bytes(pickle.dumps(value))

def _rel(path):
    return "__".join(path.relative_to(ROOT).with_suffix("").parts)

def _leaf(o):
    for n, x in _IDV.items():
        if x is o:
            return "vI" + n
    if o is None:
        return "vNone"
    if isinstance(o, bool):
        return "v" + str(o)
    if isinstance(o, int):
        return "v%d" % o
    if isinstance(o, str):
        if o.startswith("pk:"):
            return "u" + o[3:]
        return "vE" if o == "" else "vt" + o
    if isinstance(o, Path):
        if o.is_absolute() and ROOT in o.parents:
            return "p" + _rel(o)
        return "r" + "__".join(o.with_suffix("").parts)
    if isinstance(o, PythonNode):
        return "N" + ("H" if o.hash else "Y") + _leaf(o.value)[1:]
    if isinstance(o, (PickleNode, CustomNode)):
        in_catalog = ".pytask" in o.path.parts
        return "NK" + ("cat_" + o.name if in_catalog else _rel(o.path))
    return "?" + type(o).__name__

def canon(o):
    if isinstance(o, list):
        return "L[" + ",".join(canon(c) for c in o) + "]"
    if isinstance(o, tuple):
        return "U[" + ",".join(canon(c) for c in o) + "]"
    if isinstance(o, dict):
        return "D[" + ",".join(_key(k) + ":" + canon(o[k]) for k in sorted(o)) + "]"
    return "*" + _leaf(o)

def _produce(o):
    if isinstance(o, (list, tuple)):
        for c in o:
            _produce(c)
    elif isinstance(o, dict):
        for c in o.values():
            _produce(c)
    elif isinstance(o, Path):
        o.write_text("made")
    elif isinstance(o, (PickleNode, CustomNode)):
        o.save("made")

def sort_path_lists(o):
    """lists that hold only Paths come from directory patterns: their order is the directory's, compared as sorted"""
    if isinstance(o, list):
        if o and all(isinstance(c, Path) for c in o):
            return sorted(o)
        return [sort_path_lists(c) for c in o]
    if isinstance(o, tuple):
        return tuple(sort_path_lists(c) for c in o)
    if isinstance(o, dict):
        return {k: sort_path_lists(v) for k, v in o.items()}
    return o

def body(name, kwargs, products, sort_paths=False):
    if sort_paths:
        kwargs = {k: sort_path_lists(v) for k, v in kwargs.items()}
    (ROOT / (name + ".log")).write_text(json.dumps({k: canon(v) for k, v in kwargs.items()}))
    for p in products:
        _produce(kwargs[p])
'''


# ---------------------------------------------------------------------------------------------
# rendering
# ---------------------------------------------------------------------------------------------

def rel_file(tok: str) -> str:
    """file of a path-like leaf, relative to the project root: `__` in the name separates directories; the name's suffix tells the node
    kind it is written as: p…_PN an explicit PathNode, k…_CN a user-defined PPathNode class (file suffix .cst)"""
    name = tok[1:].replace("__", "/")
    if tok[0] == "p":
        return name + ".txt"
    return name + (".cst" if tok.endswith("_CN") else ".pkl")


def leaf_expr(tok: str, dep: bool) -> str:
    k, rest = tok[0], tok[1:]
    if k == "v" and rest.startswith("I"):
        return f'idv("{rest[1:]}")'
    if k == "n" and rest.startswith("I"):
        return f'PythonNode(value=idv("{rest[1:]}"))'
    if k == "v":
        if rest in ("None", "False", "True"):
            return rest
        if rest == "E":
            return '""'
        if rest.startswith("t"):
            return repr(rest[1:])
        return str(int(rest))
    if k == "p":
        if tok.endswith("_PN"):
            return f'PathNode(path=ROOT / "{rel_file(tok)}")'
        return f'Path("{rel_file(tok)}")'
    if k == "n":
        return f"PythonNode(value={int(rest)})"
    if k == "h":
        return f"PythonNode(value={int(rest)}, hash=True)"
    if k == "k":
        if rest.startswith("cat_"):
            return f'cat("{rest[4:]}", {dep})'
        if tok.endswith("_CN"):
            return f'CustomNode(path=ROOT / "{rel_file(tok)}")'
        return f'PickleNode(path=ROOT / "{rel_file(tok)}")'
    raise ValueError(tok)


def tree_expr(t, dep: bool) -> str:
    k = t[0]
    if k == "leaf":
        return leaf_expr(t[1], dep)
    if k == "list":
        return "[" + ", ".join(tree_expr(c, dep) for c in t[1]) + "]"
    if k == "tuple":
        return "(" + "".join(tree_expr(c, dep) + ", " for c in t[1]) + ")"
    if k == "dict":
        return "{" + ", ".join(f"{key!r}: {tree_expr(c, dep)}" for key, c in t[1]) + "}"
    raise ValueError(k)


def out_expr(t) -> str:
    k = t[0]
    if k == "leaf":
        tok = t[1]
        if tok == "N":
            return "None"
        return repr(tok[1:]) if tok[0] == "s" else str(int(tok[1:]))
    if k == "list":
        return "[" + ", ".join(out_expr(c) for c in t[1]) + "]"
    if k == "tuple":
        return "(" + "".join(out_expr(c) + ", " for c in t[1]) + ")"
    return "{" + ", ".join(f"{key!r}: {out_expr(c)}" for key, c in t[1]) + "}"


def is_product_param(spec, p) -> bool:
    """the property's notion: a parameter is a product if it carries the Product annotation or is called `produces`."""
    return bool(p["product"]) or p["name"] == "produces"


def render_task(spec, defs=None) -> str:
    """`defs` collects module-level definitions (objects shared between several declarations: `kwargs_var`, `shared`)."""
    defs = {} if defs is None else defs
    name = spec["name"]
    deco = []
    if spec.get("gen"):
        deco.append("is_generator=True")
    if spec["kwargs"]:
        pn = {p["name"]: p for p in spec["params"]}
        items = ", ".join(f'"{n}": {tree_expr(t, not (n in pn and is_product_param(spec, pn[n])))}' for n, t in spec["kwargs"])
        if spec.get("kwargs_var"):
            defs.setdefault(spec["kwargs_var"], "{" + items + "}")     # ONE dict object handed to several @task(kwargs=…)
            deco.append("kwargs=" + spec["kwargs_var"])
        else:
            deco.append("kwargs={" + items + "}")
    if spec.get("produces") is not None:
        deco.append("produces=" + tree_expr(spec["produces"], False))
    lines = []
    # decorator order: `marks` = "above" | "below" puts a @pytask.mark.c07m decorator above / below @task(...): below means the mark is
    # applied first and the function already carries pytask metadata when @task(...) sees it. `fname`: the function is not called
    # task_<name>; its task name comes from @task(name=…).
    marks = spec.get("marks")
    if spec.get("fname"):
        deco.insert(0, f'name="task_{name}"')
    if marks == "above":
        lines.append("@pytask.mark.c07m")
    if deco or marks == "below":
        lines.append(f"@task({', '.join(deco)})")
    if marks == "below":
        lines.append("@pytask.mark.c07m")
    ps = []
    for p in spec["params"]:
        dep = not is_product_param(spec, p)
        s = p["name"]
        meta = []
        if p["annot"] is not None:
            meta.append(tree_expr(p["annot"], dep))
        if p["product"]:
            meta.append("Product")
        if meta:
            s += ": Annotated[Any, " + ", ".join(meta) + "]"
        if p["default"] is not None:
            var = (spec.get("shared") or {}).get(p["name"])
            if var:
                defs.setdefault(var, tree_expr(p["default"], dep))         # ONE container object used by several declarations
                s += " = " + var
            else:
                s += " = " + tree_expr(p["default"], dep)
        ps.append(s)
    ret = ""
    if spec.get("ret") is not None:
        ret = " -> Annotated[Any, " + tree_expr(spec["ret"], False) + "]"
    sig = ("*, " + ", ".join(ps)) if ps else ""
    lines.append(f"def {'fn' if spec.get('fname') else 'task'}_{name}({sig}){ret}:")
    prods = [p["name"] for p in spec["params"] if is_product_param(spec, p)]
    lines.append(f"    body({name!r}, dict({', '.join(p['name'] + '=' + p['name'] for p in spec['params'])}), {prods!r})")
    if spec.get("gen"):
        lines += ["", f'    @task(name="task_{name}_kid")', "    def _kid():", "        pass"]
    if spec.get("out") is not None:
        lines.append("    return " + out_expr(spec["out"]))
    if spec.get("writer"):      # auxiliary task of the sequence stream: pickles the text of `src` into a *Path* product
        w = spec["writer"]
        return (f'def task_{name}(src=Path("{w["src"]}.txt"), produces=Path("{w["dst"]}.pkl")):\n'
                f'    import pickle\n    produces.write_bytes(pickle.dumps("pk:" + src.read_text()))\n')
    return "\n".join(lines) + "\n"


def render_module(specs) -> str:
    head = ("from pathlib import Path\nfrom typing import Annotated, Any\nimport pytask\nfrom pytask import task, Product, PythonNode, PickleNode\n"
            "from pytask import PathNode\nfrom c07rt import ROOT, cat, body, idv, CustomNode\n\n")
    defs = {}
    tasks = [render_task(s, defs) for s in specs]
    shared = "".join(f"{var} = {expr}\n" for var, expr in defs.items())
    return head + shared + ("\n" if shared else "") + "\n\n".join(tasks)


def decl_leaves(t):
    return [l[1] for _, l in positions(t)]


def write_project(root: Path, specs):
    root.mkdir(parents=True, exist_ok=True)
    (root / "pyproject.toml").write_text('[tool.pytask.ini_options]\nmarkers = {c07m = "C07: decorator-order variation"}\n')
    (root / "c07rt.py").write_text(RT)
    (root / "task_c07.py").write_text(render_module(specs))
    produced = set()        # leaves some task of the project declares as product (shared containers, writer tasks)
    for spec in specs:
        if spec.get("writer"):
            produced.add("k" + spec["writer"]["dst"])
            continue
        kwd = dict((n, t) for n, t in spec["kwargs"])
        for p in spec["params"]:
            if is_product_param(spec, p):
                d = kwd.get(p["name"]) or p["default"] or p["annot"]
                if d is not None:
                    produced.update(decl_leaves(d))
    for spec in specs:
        if spec.get("writer"):
            (root / f"{spec['writer']['src']}.txt").write_text(spec["writer"]["v1"])
            continue
        pn = {p["name"]: p for p in spec["params"]}
        dep_trees = []
        for p in spec["params"]:
            if not is_product_param(spec, p):
                dep_trees += [t for t in (p["default"], p["annot"]) if t is not None]
        for n, t in spec["kwargs"]:
            if not (n in pn and is_product_param(spec, pn[n])):
                dep_trees.append(t)
        for t in dep_trees:
            for tok in decl_leaves(t):
                if tok in produced:
                    continue
                if tok[0] in "pk" and not tok[1:].startswith("cat_"):
                    (root / rel_file(tok)).parent.mkdir(parents=True, exist_ok=True)      # inputs exist; product directories do NOT
                if tok[0] == "p":
                    (root / rel_file(tok)).write_text("input " + tok[1:])
                elif tok[0] == "k" and not tok[1:].startswith("cat_"):
                    (root / rel_file(tok)).write_bytes(pickle.dumps("pk:" + tok[1:]))
        rt = ret_tree(spec)
        if rt is not None and spec.get("sentinel"):
            for tok in decl_leaves(rt):
                if tok[0] in "pk" and not tok[1:].startswith("cat_"):
                    (root / rel_file(tok)).parent.mkdir(parents=True, exist_ok=True)
                if tok[0] == "p":
                    (root / rel_file(tok)).write_text(SENTINEL)
                elif tok[0] == "k" and not tok[1:].startswith("cat_"):
                    (root / rel_file(tok)).write_bytes(pickle.dumps(SENTINEL))


def ret_tree(spec):
    """the declared structure of the return (annotation or decorator), None if there is none or both."""
    a, b = spec.get("ret"), spec.get("produces")
    if a is not None and b is not None:
        return None
    return a if a is not None else b


# ---------------------------------------------------------------------------------------------
# observation
# ---------------------------------------------------------------------------------------------

def enc_value(o) -> str:
    """canonical text of a Python value found in a product (leaf tokens s<str> i<int> N)."""
    if isinstance(o, list):
        return "L[" + ",".join(enc_value(c) for c in o) + "]"
    if isinstance(o, tuple):
        return "U[" + ",".join(enc_value(c) for c in o) + "]"
    if isinstance(o, dict):
        return "D[" + ",".join(f"{tree_api.key_tok(k)}:{enc_value(o[k])}" for k in sorted(o)) + "]"
    if o is None:
        return "*N"
    if isinstance(o, str):
        return "*s" + o
    if isinstance(o, int):
        return "*i%d" % o
    return "*?" + type(o).__name__


def node_tok(tok: str) -> str:
    return ("P" if tok[0] == "p" else "K") + tok[1:]


def observe(root: Path, specs, res) -> dict:
    """per task: outcome, received kwargs (from the body's log), contents of the return products."""
    reports = {r[0]: (r[1], r[2]) for r in res.get("reports", [])}
    catmap = {}
    if (root / "catmap.json").exists():
        catmap = json.loads((root / "catmap.json").read_text())
    obs = {}
    for spec in specs:
        name = spec["name"]
        o = {"outcome": reports.get("task_" + name, (None, None))[0], "exc": reports.get("task_" + name, (None, None))[1],
             "collected": "task_" + name in res.get("collected", []), "recv": None, "saved": {}}
        lg = root / f"{name}.log"
        if lg.exists():
            o["recv"] = json.loads(lg.read_text())
        rt = ret_tree(spec)
        if rt is not None:
            for tok in dict.fromkeys(decl_leaves(rt)):
                if tok[0] == "p":
                    f = root / rel_file(tok)
                    if f.exists():
                        txt = f.read_text()
                        if txt != SENTINEL:
                            o["saved"][node_tok(tok)] = "*s" + txt
                elif tok[0] == "k":
                    f = Path(catmap[tok[5:]]) if tok[1:].startswith("cat_") and tok[5:] in catmap else root / rel_file(tok)
                    if f.exists():
                        val = pickle.loads(f.read_bytes())
                        if val != SENTINEL:
                            o["saved"][node_tok(tok)] = enc_value(val)
        obs[name] = o
    return obs


# ---------------------------------------------------------------------------------------------
# oracle: written from the property text
# ---------------------------------------------------------------------------------------------

def dep_obj(tok):
    k = tok[0]
    if k in ("v", "p"):
        return tok
    if k in ("n", "h"):
        return "v" + tok[1:]
    if k == "k":
        return "u" + tok[1:]
    raise ValueError(tok)


def prod_obj(tok):
    k = tok[0]
    if k == "p":
        return tok
    if k == "k":
        return "NK" + tok[1:]
    if k == "n":
        return "NY" + tok[1:]
    if k == "h":
        return "NH" + tok[1:]
    if k == "v":
        return "NY" + tok[1:]      # a plain value declared as a product is wrapped in a PythonNode; products are handed over as nodes
    raise ValueError(tok)


def raw_obj(tok):
    k = tok[0]
    if k == "v":
        return tok
    if k == "p":
        return "r" + tok[1:]
    return prod_obj(tok)


def declared(spec, p):
    kw = dict((n, t) for n, t in spec["kwargs"])
    if p["name"] in kw:
        return kw[p["name"]]
    if p["default"] is not None:
        return p["default"]
    return p["annot"]


def ill_formed(spec) -> bool:
    """declarations the documentation rejects (or that cannot be called): no positional expectation is derived for them."""
    kw = dict((n, t) for n, t in spec["kwargs"])
    names = {p["name"] for p in spec["params"]}
    if any(n not in names for n in kw):
        return True
    for p in spec["params"]:
        if p["annot"] is not None and (p["name"] in kw or p["default"] is not None):
            return True
        if declared(spec, p) is None:
            return True
    if spec.get("ret") is not None and spec.get("produces") is not None:
        return True
    rt = ret_tree(spec)
    if rt is not None and any(tok[0] == "v" for tok in decl_leaves(rt)):
        return True
    return False


def expected_recv(spec, current=None) -> dict:
    """`current`: pickle file stem -> what the file holds *now* (default: the initial content, the stem itself)."""
    current = current or {}

    def dep_now(tok):
        return "u" + current.get(tok[1:], tok[1:]) if tok[0] == "k" else dep_obj(tok)
    out = {}
    for p in spec["params"]:
        f = prod_obj if is_product_param(spec, p) else dep_now
        out[p["name"]] = enc(declared(spec, p), leaf=lambda l, f=f: f(l[1]))
    return out


def is_falsy_decl(t) -> bool:
    k = t[0]
    if k == "leaf":
        return t[1] in ("vNone", "v0", "vFalse", "vE")
    return len(t[1]) == 0


def classify_recv(spec, p, want, got):
    """No finding of this property is `known` any more (F70, F71, F72 are fixed in /repo: 594c921, 2e11e34, 123c420; their
    witnesses live in corpus/C07 and must pass), so every mismatch is a violation."""
    return None


def value_ok_for(node_tok_: str, sub) -> bool:
    """PathNode.save accepts str (and bytes) only."""
    return not node_tok_.startswith("P") or (sub[0] == "leaf" and sub[1].startswith("s"))


def oracle(spec, o):
    """[(kind, message, finding)]"""
    bad = []
    if ill_formed(spec):
        return bad
    name = spec["name"]
    if not o["collected"] or o["recv"] is None:
        finding = None
        bad.append(("kwargs", f"task {name} with a well-formed declaration did not run its body (collected={o['collected']}, outcome={o['outcome']}, exc={o['exc']})", finding))
        return bad
    want = expected_recv(spec)
    for p in spec["params"]:
        w, g = want[p["name"]], o["recv"].get(p["name"])
        if w != g:
            bad.append(("kwargs", f"task {name}: parameter {p['name']!r} declared as {enc(declared(spec, p))} "
                                  f"({'product' if is_product_param(spec, p) else 'dependency'}) received {g}, expected {w}",
                        classify_recv(spec, p, w, g)))
    rt = ret_tree(spec)
    if rt is not None and spec.get("out") is not None and not is_falsy_decl(rt):
        out = spec["out"]
        nodes = [node_tok(l[1]) for _, l in positions(rt)]
        if fits(rt, out):
            subs = [sub_at(out, p) for p, _ in positions(rt)]
            savable = all(value_ok_for(n, s) for n, s in zip(nodes, subs))
            right = {}
            for n, s in zip(nodes, subs):
                right.setdefault(n, []).append(enc(s))
            for n, got in o["saved"].items():
                if got not in right.get(n, []):
                    bad.append(("return", f"task {name}: product {n} holds {got}, the value at its position in the returned {enc(out)} is {right.get(n)}", None))
            if savable:
                if o["outcome"] != "SUCCESS":
                    bad.append(("return", f"task {name}: fitting return {enc(out)} for declaration {enc(rt)} but outcome {o['outcome']} ({o['exc']})", None))
                for n in right:
                    if n not in o["saved"]:
                        bad.append(("return", f"task {name}: product {n} was not stored (returned {enc(out)}, declared {enc(rt)})", None))
            elif o["outcome"] == "SUCCESS":
                bad.append(("return", f"task {name}: a PathNode position of {enc(rt)} received a non-string in {enc(out)} yet the task succeeded", None))
        else:
            if o["outcome"] != "FAIL":
                bad.append(("return", f"task {name}: return {enc(out)} does not fit declaration {enc(rt)} but outcome is {o['outcome']}", None))
            if o["saved"]:
                bad.append(("return", f"task {name}: non-fitting return {enc(out)} for {enc(rt)} yet products changed: {o['saved']}", None))
    return bad


# ---------------------------------------------------------------------------------------------
# model
# ---------------------------------------------------------------------------------------------

def opt(t):
    return "-" if t is None else enc(t)


def model_lines(spec):
    ps = ";".join(f"{p['name']}~{opt(p['default'])}~{opt(p['annot'])}~{1 if p['product'] else 0}" for p in spec["params"]) or "-"
    kw = ";".join(f"{n}~{enc(t)}" for n, t in spec["kwargs"]) or "-"
    lines = [f"args.run params={ps} kwargs={kw} ret={opt(spec.get('ret'))} produces={opt(spec.get('produces'))}" + (" gen=1" if spec.get("gen") else "")]
    rt = ret_tree(spec)
    if rt is not None and spec.get("out") is not None and not any(tok[0] not in "pk" for tok in decl_leaves(rt)):
        lines.append(f"args.return ret={enc(rt, leaf=lambda l: node_tok(l[1]))} out={enc(spec['out'])}")
    return lines


def impl_answers(spec, o):
    """what the implementation's behaviour says, in the model's answer format (prefix compared)."""
    if not o["collected"]:
        first = "collect-error"
    elif o["recv"] is None:
        first = "type-error"
    else:
        first = "ok recv=" + (";".join(f"{k}~{v}" for k, v in sorted(o["recv"].items())) or "-") + " "
    ans = [first]
    if o["recv"] is not None:
        saved = ";".join(f"{k}~{v}" for k, v in sorted(o["saved"].items())) or "-"
        ans.append(("ok" if o["outcome"] == "SUCCESS" else "fail") + " saved=" + saved)
    return ans


def falsy_return_decl(spec):
    rt = ret_tree(spec)
    return rt is not None and is_falsy_decl(rt)


def compare_model(ctx, drv, spec, o):
    lines = model_lines(spec)
    answers = drv.batch(lines)
    impl = impl_answers(spec, o)
    if not answers[0].startswith(impl[0]):
        ctx.disagreement(f"args model: {lines[0]!r}: implementation {impl[0]!r}, model {answers[0]!r}",
                         {"layer": "e2e", "spec": spec, "impl": impl[0], "model": answers[0]})
        return
    if len(lines) > 1 and len(impl) > 1 and not falsy_return_decl(spec):
        if answers[1] != impl[1]:
            ctx.disagreement(f"return model: {lines[1]!r}: implementation {impl[1]!r}, model {answers[1]!r}",
                             {"layer": "e2e", "spec": spec, "impl": impl[1], "model": answers[1]})
    ctx.traces_validated += 1


# ---------------------------------------------------------------------------------------------
# generator
# ---------------------------------------------------------------------------------------------

class Names:
    def __init__(self, prefix):
        self.prefix, self.n = prefix, 0

    def new(self, kind=""):
        self.n += 1
        return f"{self.prefix}{kind}{self.n}"


def gen_decl_tree(rng, names, kinds, depth=2, width=3, leaf_p=0.35, top=True, nonempty=False):
    """kinds: leaf kinds to draw from, e.g. 'vpnhkc'."""
    if nonempty:
        while True:
            t = gen_decl_tree(rng, names, kinds, depth, width, leaf_p, top)
            if t[0] == "leaf" or (len(t[1]) > 0 or rng.random() < 0.03):
                return t
    if depth == 0 or rng.random() < leaf_p:
        k = rng.choice(kinds)
        def where(n):
            """sometimes below (nested) directories that do not exist in a fresh project"""
            r = rng.random()
            return n if r < 0.6 else f"bld_{names.prefix.strip('_')}__{n}" if r < 0.8 else f"bld_{names.prefix.strip('_')}__sub{rng.randint(1, 2)}__{n}"
        if k == "v":
            if rng.random() < 0.12:      # identity-sensitive / uncopyable value: must arrive as THE declared object
                return ["leaf", "vI" + names.new("i") + "_" + rng.choice(["lock", "obj", "gen"])]
            return ["leaf", rng.choice(["v1", "v2", "v3", "v17", "vNone", "v0", "vE", "vtab", "vtxyz", "vFalse", "v-4"])]
        if k == "p":
            return ["leaf", "p" + where(names.new("f")) + ("_PN" if rng.random() < 0.25 else "")]
        if k == "n":
            if rng.random() < 0.15:
                return ["leaf", "nI" + names.new("i") + "_" + rng.choice(["lock", "obj"])]
            return ["leaf", f"n{rng.randint(1, 99)}"]
        if k == "h":
            return ["leaf", f"h{rng.randint(1, 99)}"]
        if k == "k":
            return ["leaf", "k" + where(names.new("q")) + ("_CN" if rng.random() < 0.35 else "")]
        if k == "c":
            return ["leaf", "kcat_" + names.new("e")]
    kind = rng.choice(["list", "tuple", "dictS", "dictI"])
    n = rng.choice([0, 1, 1, 2, 2, 3]) if width >= 3 else rng.randint(0, width)
    cs = [gen_decl_tree(rng, names, kinds, depth - 1, width, leaf_p, False) for _ in range(n)]
    if kind == "dictS":
        return ["dict", [[k, c] for k, c in zip(rng.sample(["a", "b", "C", "d", "k10", "k2"], n), cs)]]
    if kind == "dictI":
        return ["dict", [[k, c] for k, c in zip(rng.sample([0, 1, 2, 10, -1], n), cs)]]
    return [kind, cs]


def gen_out(rng, rt, variant):
    """a returned value for the declared return tree `rt` (node tokens at the leaves)."""
    def value_for(tok, i):
        if tok[0] == "p":
            return ["leaf", f"sw{i}"]
        r = rng.random()
        if r < 0.4:
            return ["leaf", f"sw{i}"]
        if r < 0.6:
            return ["leaf", f"i{i}"]
        if r < 0.7:
            return ["leaf", "N"]
        sub = tree_api.random_tree(rng, 2, 2, 0.4)
        return relabel_out(rng, sub, i)

    counter = [0]

    def fill(t):
        k = t[0]
        if k == "leaf":
            counter[0] += 1
            return value_for(t[1], counter[0])
        if k == "dict":
            items = [[key, fill(c)] for key, c in t[1]]
            rng.shuffle(items)
            return ["dict", items]
        return [k, [fill(c) for c in t[1]]]

    good = fill(rt)
    if variant == "fit":
        return good
    if variant == "nonstr":
        lp = [p for p, l in zip(tree_api.leaf_positions(rt), [l for _, l in _pos_insertion(rt)]) if l[1][0] == "p"]
        if not lp:
            return good
        return tree_api.replace_at(_same_order(rt, good), rng.choice(lp), lambda _t: ["leaf", "i7"])
    shape = [(tag, o) for tag, o in tree_api.misfits(rng, rt) if tag == variant]
    if not shape:
        return good
    o = shape[0][1]
    return relabel_out(rng, o, 50, keep_str=True)


def _pos_insertion(t, path=()):
    k = t[0]
    if k in ("leaf", "none"):
        return [(path, t)]
    cs = [c for _, c in t[1]] if k == "dict" else t[1]
    out = []
    for i, c in enumerate(cs):
        out += _pos_insertion(c, path + (i,))
    return out


def _same_order(rt, good):
    """`good` with dict items in the insertion order of `rt` (so that child indexes coincide)."""
    k = rt[0]
    if k == "leaf":
        return good
    if k == "dict":
        gd = {tree_api.key_tok(key): c for key, c in good[1]}
        return ["dict", [[key, _same_order(c, gd[tree_api.key_tok(key)])] for key, c in rt[1]]]
    return [k, [_same_order(a, b) for a, b in zip(rt[1], good[1])]]


def relabel_out(rng, t, base, keep_str=False):
    c = [base * 100]

    def go(t):
        k = t[0]
        if k in ("leaf", "none"):
            c[0] += 1
            if keep_str or rng.random() < 0.6:
                return ["leaf", f"sw{c[0]}"]
            return ["leaf", rng.choice([f"i{c[0]}", "N"])]
        if k == "dict":
            return ["dict", [[key, go(x)] for key, x in t[1]]]
        return [k, [go(x) for x in t[1]]]
    return go(t)


FORMS = ["default_dep", "default_dep", "kwargs_dep", "kwargs_dep", "default_over_kwargs", "annot_dep",
         "produces_default", "annot_product_default", "annot_node_product", "kwargs_product"]
OUT_VARIANTS = ["fit", "fit", "fit", "deeper", "shallow", "wrong-container", "extra", "missing", "permuted", "renamed-key",
                "swapped-values", "nonstr"]


def gen_task(rng, name, special=None):
    names = Names(name + "_")
    spec = {"name": name, "params": [], "kwargs": [], "ret": None, "produces": None, "out": None, "sentinel": rng.random() < 0.5}
    forms = [rng.choice(FORMS) for _ in range(rng.randint(1, 4))]
    if special == "F70":
        forms.append("f70")
    if special == "F72":
        forms.append("f72")
    if special == "F71":
        forms.append(rng.choice(["produces_default", "annot_product_default"]))
    if forms.count("produces_default") > 1:
        forms = [f for i, f in enumerate(forms) if f != "produces_default" or i == forms.index("produces_default")]
    for i, form in enumerate(forms):
        pname = "produces" if form == "produces_default" else f"a{i}"
        p = {"name": pname, "default": None, "annot": None, "product": False}
        if form == "default_dep":
            p["default"] = gen_decl_tree(rng, names, "vvvppnhkc")
        elif form == "kwargs_dep":
            spec["kwargs"].append([pname, gen_decl_tree(rng, names, "vvvppnhkc")])
        elif form == "default_over_kwargs":
            p["default"] = gen_decl_tree(rng, names, "vvph")
            spec["kwargs"].append([pname, gen_decl_tree(rng, names, "vvppnhkc")])
        elif form == "annot_dep":
            p["annot"] = gen_decl_tree(rng, names, "phkc", depth=1, leaf_p=0.7)
        elif form == "produces_default":
            p["default"] = gen_decl_tree(rng, names, "pppk", leaf_p=0.4, nonempty=True)
        elif form == "annot_product_default":
            p["product"] = True
            p["default"] = gen_decl_tree(rng, names, "pppkc", leaf_p=0.4, nonempty=True)
        elif form == "annot_node_product":
            p["product"] = True
            p["annot"] = gen_decl_tree(rng, names, "pkc", depth=1, leaf_p=0.7)
        elif form == "kwargs_product":
            p["product"] = True
            spec["kwargs"].append([pname, gen_decl_tree(rng, names, "ppkc", leaf_p=0.4, nonempty=True)])
        elif form == "f70":
            t = gen_decl_tree(rng, names, "vvn", depth=2, leaf_p=0.3)
            if t[0] == "leaf":
                t = ["list", [t, ["leaf", "n5"]]]
            p["default"] = t
        elif form == "f72":
            p["product"] = True
            p["default"] = rng.choice([["list", []], ["tuple", []], ["dict", []]])
        spec["params"].append(p)
    spec["marks"] = rng.choice([None, None, "above", "below", "below"])
    spec["fname"] = rng.random() < 0.15
    if special == "gen":
        # task generator: goes through provisional.py's own kwargs loop; no return handling there
        spec["gen"] = True
        return spec
    r = rng.random()
    want_ret = special == "F71" or r < 0.6
    if want_ret:
        rt = gen_decl_tree(rng, names, "ppkc", depth=2, leaf_p=0.35, nonempty=True)
        has_prod_param = any(is_product_param(spec, p) for p in spec["params"])
        if special == "F71" or rng.random() < 0.45:
            spec["produces"] = rt
        else:
            spec["ret"] = rt
        spec["out"] = gen_out(rng, rt, rng.choice(OUT_VARIANTS))
    if special == "ill":
        kind = rng.choice(["twice", "both", "plain-return"])
        if kind == "twice":
            spec["params"].append({"name": "z9", "default": ["leaf", "v1"], "annot": ["leaf", "h5"], "product": False})
        elif kind == "both":
            spec["ret"] = ["leaf", "p" + names.new("f")]
            spec["produces"] = ["leaf", "p" + names.new("f")]
            spec["out"] = ["leaf", "sw"]
        else:
            spec["ret"] = ["tuple", [["leaf", "p" + names.new("f")], ["leaf", "v3"]]]
            spec["produces"] = None
            spec["out"] = ["tuple", [["leaf", "sw"], ["leaf", "sv"]]]
    return spec


def corpus():
    """witnesses of the repaired findings F70, F71, F72 (corpus/C07/*.json): run first, must pass."""
    out = []
    for f in sorted((common.VERIF / "corpus" / "C07").glob("*.json")):
        obj = json.loads(f.read_text())
        if obj.get("layer") == "e2e":
            out.append(obj["spec"])
    return out


def gen_shared_kwargs_group(rng, base):
    """2–3 tasks of one module handed the SAME dict object as `@task(kwargs=COMMON)`; they also have same-named parameters
    with task-specific defaults that COMMON does not mention (and sometimes each its own `produces` default)."""
    names = Names(base + "_")
    var = "COMMON_" + base
    common = [[f"c{i}", gen_decl_tree(rng, names, "vvvpk")] for i in range(rng.randint(1, 2))]
    own = [f"d{i}" for i in range(rng.randint(1, 2))]
    with_produces = rng.random() < 0.5
    specs = []
    for j in range(rng.randint(2, 3)):
        params = [{"name": n, "default": (gen_decl_tree(rng, names, "vvp") if rng.random() < 0.3 else None), "annot": None, "product": False}
                  for n, _ in common]
        params += [{"name": n, "default": gen_decl_tree(rng, names, "vvvph", leaf_p=0.5), "annot": None, "product": False} for n in own]
        if with_produces:
            params.append({"name": "produces", "default": gen_decl_tree(rng, names, "ppk", leaf_p=0.5, nonempty=True), "annot": None, "product": False})
        rng.shuffle(params)
        specs.append({"name": f"{base}s{j}", "params": params, "kwargs": [list(x) for x in common], "kwargs_var": var,
                      "ret": None, "produces": None, "out": None, "sentinel": False, "gen": rng.random() < 0.15,
                      "marks": rng.choice([None, "above", "below"])})
    return specs


def gen_shared_container_group(rng, base):
    """ONE container object used by two declarations: the `produces` default of a producer and a dependency default of a
    consumer (which thereby depends on the producer), or the dependency defaults of two tasks."""
    names = Names(base + "_")
    var = "SHARED_" + base
    while True:
        tree = gen_decl_tree(rng, names, "p", depth=2, leaf_p=0.4, nonempty=True)
        if tree[0] != "leaf" and tree_api.nleaves(tree) >= 1:
            break
    first_is_producer = rng.random() < 0.7
    a = {"name": f"{base}c0", "params": [{"name": "produces" if first_is_producer else "x", "default": tree, "annot": None, "product": False}],
         "kwargs": [], "ret": None, "produces": None, "out": None, "sentinel": False, "shared": {"produces" if first_is_producer else "x": var}}
    b = {"name": f"{base}c1", "params": [{"name": "x", "default": tree, "annot": None, "product": False},
                                         {"name": "y", "default": gen_decl_tree(rng, names, "vvp"), "annot": None, "product": False}],
         "kwargs": [], "ret": None, "produces": None, "out": None, "sentinel": False, "shared": {"x": var}}
    return [a, b]


def projects(ctx):
    rng = ctx.rng
    projs = [[c] for c in corpus()]
    nproj = ctx.scale(50, 700)
    tid = 0
    for i in range(nproj):
        specs = []
        for _ in range(5):
            tid += 1
            r = rng.random()
            special = "F70" if r < 0.06 else "F71" if r < 0.12 else "F72" if r < 0.16 else "gen" if r < 0.28 else None
            specs.append(gen_task(rng, f"t{tid}", special))
        if i % 2 == 0:
            specs += gen_shared_kwargs_group(rng, f"g{i}")
        if i % 3 == 0:
            specs += gen_shared_container_group(rng, f"h{i}")
        opt = rng.choice(["default", "default", "pdb", "pdb", "trace"])
        for sp in specs:
            sp["build"] = opt
        projs.append(specs)
    for _ in range(ctx.scale(6, 40)):
        tid += 1
        projs.append([gen_task(rng, f"t{tid}", "ill")])
    return projs


# ---------------------------------------------------------------------------------------------
# campaign
# ---------------------------------------------------------------------------------------------

PDB_MODULE = '''
"""non-interactive debugger class for builds with trace=True (handed to pytask as pdbcls): every prompt is answered with `continue`"""
import io
import pdb


class ContPdb(pdb.Pdb):
    def __init__(self, *a, **k):
        k.pop("stdin", None)
        k.pop("stdout", None)
        super().__init__(*a, stdin=io.StringIO("continue\\n" * 200), stdout=io.StringIO(), **k)
        self.use_rawinput = False
'''

# how pytask invokes the task function depends on these build options (debugging.py wraps `task.function`): the wrappers must hand
# the arguments in and the return value out unchanged. pdb=True: post-mortem wrapper (no generated task raises inside the wrapper's
# reach except the declared-misfit cases, whose exception is raised after the body returned); trace=True: `Pdb.runcall`, made
# non-interactive through pdbcls.
BUILD_OPTIONS = {"default": {}, "pdb": {"pdb": True}, "trace": {"trace": True, "pdbcls": ["c07pdb", "ContPdb"]}}


def build_kw(specs) -> dict:
    return dict(BUILD_OPTIONS[(specs[0].get("build") if specs else None) or "default"])


def run_projects(projs, nservers=4):
    pool = builder.Pool(list(range(1, nservers + 1)))
    try:
        def one(args):
            i, specs = args
            root = common.scratch_dir("c07")
            try:
                write_project(root, specs)
                (root / "c07pdb.py").write_text(PDB_MODULE)
                res = pool.pick(i).build(root, kw=build_kw(specs))
                return observe(root, specs, res), res
            finally:
                shutil.rmtree(root, ignore_errors=True)
        with ThreadPoolExecutor(max_workers=nservers) as ex:
            return list(ex.map(one, enumerate(projs)))
    finally:
        pool.close()


def spec_nontrivial(spec) -> bool:
    trees = [declared(spec, p) for p in spec["params"] if declared(spec, p) is not None]
    if ret_tree(spec) is not None:
        trees.append(ret_tree(spec))
    return any(tree_api.height(t) >= 1 and tree_api.nleaves(t) >= 2 for t in trees)


def check_projects(ctx, projs, results):
    drv = ctx.driver() if ctx.use_model else None
    for specs, (obs, res) in zip(projs, results):
        if res.get("raised") or res.get("died"):
            raise common.InfraError(f"build raised {res}")
        for spec in specs:
            o = obs[spec["name"]]
            ctx.case(["e2e", {k: v for k, v in spec.items() if k != "name"}], spec_nontrivial(spec),
                     {"task": render_task(spec), "received": o["recv"], "outcome": o["outcome"], "saved": o["saved"]})
            ctx.dist["e2e:outcome=" + str(o["outcome"])] += 1
            ctx.dist["e2e:params=%d" % len(spec["params"])] += 1
            if ret_tree(spec) is not None and spec.get("out") is not None:
                ctx.dist["e2e:return:" + ("fits" if fits(ret_tree(spec), spec["out"]) else "misfit")] += 1
            if ill_formed(spec):
                ctx.dist["e2e:ill-formed"] += 1
            ctx.dist["e2e:build-" + (spec.get("build") or "default")] += 1
            if spec.get("marks"):
                ctx.dist["e2e:marks-" + spec["marks"]] += 1
            for tag in ("gen", "kwargs_var", "shared", "fname"):
                if spec.get(tag):
                    ctx.dist["e2e:" + tag] += 1
            for kind, msg, finding in oracle(spec, o):
                rep = {"layer": "e2e", "spec": spec}
                if any(sp.get("kwargs_var") or sp.get("shared") for sp in specs):
                    rep["project"] = specs      # objects shared between declarations: the module as a whole is the input
                ctx.violation(f"{kind}: {msg}", rep, finding=finding)
            if drv is not None:
                compare_model(ctx, drv, spec, o)


# ---------------------------------------------------------------------------------------------
# stream (c): several builds inside ONE process, pickled inputs change between the builds
# ---------------------------------------------------------------------------------------------

SEQ_WORKER = Path(__file__).resolve().parent / "args_seq_worker.py"


def gen_sequence(rng, base):
    """readers: plain `def task_…` functions (no decorator) with dependency defaults over values, paths and pickle nodes;
    one writer/reader pair where the pickle file is the *Path* product of another task. Steps: build, edit, build[, edit, build]."""
    names = Names(base + "_")
    readers = []
    for j in range(rng.randint(1, 3)):
        params = []
        for i in range(rng.randint(1, 2)):
            while True:
                t = gen_decl_tree(rng, names, "vkkkp", depth=2, leaf_p=0.4)
                if any(tok[0] == "k" for tok in decl_leaves(t)):
                    break
            params.append({"name": f"a{i}", "default": t, "annot": None, "product": False})
        readers.append({"name": f"{base}r{j}", "params": params, "kwargs": [], "ret": None, "produces": None, "out": None, "sentinel": False})
    dst = names.new("w")
    writer = {"name": f"{base}w", "writer": {"src": f"{base}_src", "dst": dst, "v1": f"{dst}v1"}, "params": [], "kwargs": []}
    via = {"name": f"{base}v", "params": [{"name": "x", "default": ["list", [["leaf", "k" + dst], ["leaf", "v3"]]], "annot": None, "product": False}],
           "kwargs": [], "ret": None, "produces": None, "out": None, "sentinel": False}
    specs = readers + [writer, via]
    pickles = sorted({tok[1:] for sp in readers for p in sp["params"] for tok in decl_leaves(p["default"]) if tok[0] == "k"})
    steps, currents = [["build"]], [{dst: f"{dst}v1"}]
    cur = dict(currents[0])
    for rnd in range(rng.randint(1, 2)):
        for name in rng.sample(pickles, rng.randint(1, len(pickles))):
            cur[name] = f"{name}x{rnd + 2}"
            steps.append(["pickle", rel_file("k" + name), "pk:" + cur[name]])
        if rng.random() < 0.7:
            cur[dst] = f"{dst}v{rnd + 2}"
            steps.append(["text", f"{base}_src.txt", cur[dst]])
        steps.append(["build"])
        currents.append(dict(cur))
    return {"specs": specs, "steps": steps, "currents": currents}


def run_sequences(seqs, nproc=4):
    import subprocess

    def one(seq):
        root = common.scratch_dir("c07s")
        try:
            write_project(root, seq["specs"])
            p = subprocess.run([common.PY, str(SEQ_WORKER)], input=json.dumps({"root": str(root), "steps": seq["steps"]}),
                               capture_output=True, text=True, env=dict(__import__("os").environ, PYTHONDONTWRITEBYTECODE="1"), cwd="/")
            if p.returncode != 0 or not p.stdout.strip():
                raise common.InfraError(f"sequence worker failed: {p.stderr[-600:]}")
            return json.loads(p.stdout.strip().splitlines()[-1])
        finally:
            shutil.rmtree(root, ignore_errors=True)
    with ThreadPoolExecutor(max_workers=nproc) as ex:
        return list(ex.map(one, seqs))


def check_sequences(ctx, seqs, results):
    drv = ctx.driver() if ctx.use_model else None
    for seq, builds in zip(seqs, results):
        judged = [sp for sp in seq["specs"] if not sp.get("writer")]
        ctx.case(["seq", [{k: v for k, v in sp.items() if k != "name"} for sp in seq["specs"]], seq["steps"]], len(builds) >= 2,
                 {"steps": seq["steps"], "tasks": [render_task(sp) for sp in judged][:2], "received": [b["logs"] for b in builds]})
        ctx.dist[f"seq:builds={len(builds)}"] += 1
        for i, (b, cur) in enumerate(zip(builds, seq["currents"])):
            if b.get("raised"):
                raise common.InfraError(f"build {i} of a sequence raised {b['raised']}")
            for sp in judged:
                got = b["logs"].get(sp["name"])
                if got is None:
                    if i == 0:
                        ctx.violation(f"kwargs: task {sp['name']} with a well-formed declaration did not run its body in the first build "
                                      f"of a sequence (reports {b['reports']})", {"layer": "seq", "seq": seq})
                    continue        # not re-executed in a later build: no value received, nothing to judge here
                ctx.dist["seq:judged-later-build" if i else "seq:judged-first-build"] += 1
                want = expected_recv(sp, cur)
                for p in sp["params"]:
                    if got.get(p["name"]) != want[p["name"]]:
                        ctx.violation(f"kwargs: build {i + 1} of a sequence in one process: task {sp['name']}: parameter {p['name']!r} declared as "
                                      f"{enc(declared(sp, p))} received {got.get(p['name'])}, expected {want[p['name']]} "
                                      f"(current contents of the pickle files: {cur})", {"layer": "seq", "seq": seq})
                if drv is not None and i == 0:
                    # the model's `unpickled p` is "what file p holds"; compared on the first build, where that is the initial content
                    norm = {k: v for k, v in got.items()}
                    for name, val in cur.items():
                        norm = {k: v.replace("*u" + val, "*u" + name) for k, v in norm.items()}
                    line = model_lines(sp)[0]
                    ans = drv.ask(line)
                    first = "ok recv=" + (";".join(f"{k}~{v}" for k, v in sorted(norm.items())) or "-") + " "
                    if not ans.startswith(first):
                        ctx.disagreement(f"args model (sequence): {line!r}: implementation {first!r}, model {ans!r}",
                                         {"layer": "seq", "seq": seq, "impl": first, "model": ans})
                    ctx.traces_validated += 1


def campaign(ctx):
    seqs = [gen_sequence(ctx.rng, f"q{i}") for i in range(ctx.scale(6, 60))]
    check_sequences(ctx, seqs, run_sequences(seqs, nproc=8 if ctx.thorough else 4))
    projs = projects(ctx)
    results = run_projects(projs, nservers=8 if ctx.thorough else 4)
    check_projects(ctx, projs, results)
