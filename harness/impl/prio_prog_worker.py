#!/venv/bin/python
"""C19 side stream on the REAL code: priority marks on (a) functions without a source file (notebook / REPL cells, handed to
pytask.build(tasks=[…])), (b) functions of a task module with a decorator stack of marks, @task and a functools.wraps-style
wrapper in every order, and (c) the same stacks on tasks defined inside a task generator.
stdin: one JSON case {"root", "kind": "pathless"|"wrapped"|"generated", "tasks": [{"name", "marks": [...], "wrap": bool, "task_at": None|"top"|"mid"|"bottom"}]}.
stdout: {"exit", "order": [names in report order], "executed": [names], "collected": n, "raised": cls|None}."""
import json
import linecache
import os
import sys
from pathlib import Path


def deco_lines(t):
    """Decorator stack of one task, top to bottom. task_at: None (no @task) | "top" | "mid" (between marks and wrapper) | "bottom"."""
    at = t.get("task_at")
    L = ["@task"] if at == "top" else []
    L += [f"@pytask.mark.{m}" for m in t["marks"]]
    if at == "mid":
        L.append("@task")
    if t.get("wrap"):
        L.append("@passthrough")
    if at == "bottom":
        L.append("@task")
    return L


def render(tasks, log, generated=False):
    L = ["import functools", "import pytask", "from pytask import task", "from pathlib import Path", f"LOG = Path({str(log)!r})", "",
         "def passthrough(f):", "    @functools.wraps(f)", "    def inner(*a, **k):", "        return f(*a, **k)", "    return inner", ""]
    ind = ""
    if generated:
        L += ["@task(is_generator=True)", "def task_gen():"]
        ind = "    "
    for t in tasks:
        L += [ind + d for d in deco_lines(t)]
        L.append(f"{ind}def {t['name']}():")
        L.append(f"{ind}    with open(LOG, 'a') as f: f.write({t['name']!r} + '\\n')")
        L.append("")
    return "\n".join(L) + "\n"


def main():
    case = json.loads(sys.stdin.read())
    root = Path(case["root"])
    root.mkdir(parents=True, exist_ok=True)
    log = root / "order.log"
    src = render(case["tasks"], log)
    os.chdir(root)
    dn = os.open(os.devnull, os.O_RDWR)
    saved = os.dup(1)
    os.dup2(dn, 1)
    os.dup2(dn, 2)
    res = {"raised": None}
    try:
        import pytask
        if case["kind"] == "pathless":
            fn = "/tmp/ipykernel_4242/1234567.py"      # what inspect reports for a notebook cell: pytask treats it as "no file"
            linecache.cache[fn] = (len(src), None, src.splitlines(True), fn)
            ns = {}
            exec(compile(src, fn, "exec"), ns)
            session = pytask.build(tasks=[ns[t["name"]] for t in case["tasks"]])
        else:
            src = render(case["tasks"], log, generated=case["kind"] == "generated")
            (root / "task_prio.py").write_text(src)
            session = pytask.build(paths=[root])
        res["exit"] = int(session.exit_code)
        res["order"] = [(getattr(r.task, "base_name", None) or r.task.name).split("::")[-1] for r in session.execution_reports]
        res["collected"] = len(session.tasks)
    except BaseException as e:  # noqa: BLE001
        res["raised"] = type(e).__name__
    res["executed"] = log.read_text().split() if log.exists() else []
    os.dup2(saved, 1)
    sys.stdout.write(json.dumps(res) + "\n")


if __name__ == "__main__":
    main()
