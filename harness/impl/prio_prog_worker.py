#!/venv/bin/python
"""C19 side stream on the REAL code: priority marks on (a) functions without a source file (notebook / REPL cells, handed to
pytask.build(tasks=[…])) and (b) functions of a task module that are wrapped by a functools.wraps-style decorator BELOW the mark.
stdin: one JSON case {"root", "kind": "pathless"|"wrapped", "tasks": [{"name", "marks": [...], "wrap": bool}]}.
stdout: {"exit", "order": [names in report order], "executed": [names], "collected": n, "raised": cls|None}."""
import json
import linecache
import os
import sys
from pathlib import Path


def render(tasks, log):
    L = ["import functools", "import pytask", "from pathlib import Path", f"LOG = Path({str(log)!r})", "",
         "def passthrough(f):", "    @functools.wraps(f)", "    def inner(*a, **k):", "        return f(*a, **k)", "    return inner", ""]
    for t in tasks:
        for m in t["marks"]:
            L.append(f"@pytask.mark.{m}")
        if t.get("wrap"):
            L.append("@passthrough")
        L.append(f"def {t['name']}():")
        L.append(f"    with open(LOG, 'a') as f: f.write({t['name']!r} + '\\n')")
        L.append("")
    return "\n".join(L) + "\n"


def main():
    case = json.loads(sys.stdin.read())
    root = Path(case["root"])
    root.mkdir(parents=True, exist_ok=True)
    log = root / "order.log"
    src = render(case["tasks"], log)
    os.chdir(root)
    dn = os.open(os.devnull, os.O_RDWR)
    saved = os.dup(1)
    os.dup2(dn, 1)
    os.dup2(dn, 2)
    res = {"raised": None}
    try:
        import pytask
        if case["kind"] == "pathless":
            fn = "/tmp/ipykernel_4242/1234567.py"      # what inspect reports for a notebook cell: pytask treats it as "no file"
            linecache.cache[fn] = (len(src), None, src.splitlines(True), fn)
            ns = {}
            exec(compile(src, fn, "exec"), ns)
            session = pytask.build(tasks=[ns[t["name"]] for t in case["tasks"]])
        else:
            (root / "task_prio.py").write_text(src)
            session = pytask.build(paths=[root])
        res["exit"] = int(session.exit_code)
        res["order"] = [(getattr(r.task, "base_name", None) or r.task.name).split("::")[-1] for r in session.execution_reports]
        res["collected"] = len(session.tasks)
    except BaseException as e:  # noqa: BLE001
        res["raised"] = type(e).__name__
    res["executed"] = log.read_text().split() if log.exists() else []
    os.dup2(saved, 1)
    sys.stdout.write(json.dumps(res) + "\n")


if __name__ == "__main__":
    main()
