"""Ground-truth tracker for incremental-build oracles: remembers, per task, the contents of everything it tracks
(dependencies, module version, products, products of after-targets) at its last SUCCESS / PERSISTENCE."""
from __future__ import annotations

from impl import engine, project


def tracked(spec, t):
    byid = {x["id"]: x for x in spec["tasks"]}
    after_prods = sorted(p for a in t.get("after", []) if a in byid and a != t["id"] for p in byid[a]["prods"])
    return {"deps": list(t["deps"]), "prods": list(t["prods"]), "after_prods": after_prods,
            "module": project.module_content(spec, t["module"])}


class Tracker:
    def __init__(self):
        self.snap = {}

    def needless_runs(self, rec):
        """tasks whose body ran although nothing they track differs from their last SUCCESS/PERSISTENCE snapshot."""
        spec, obs, cfg = rec["spec"], rec["obs"], rec["cfg"]
        out = []
        if cfg.get("force") or cfg.get("dry"):
            return out
        ex = engine.executed(obs)
        for t in spec["tasks"]:
            if t["id"] not in ex or t["id"] not in self.snap:
                continue
            tr = tracked(spec, t)
            sn = self.snap[t["id"]]
            if sn["tr"] != tr:
                continue
            now = {n: rec["post"].get(n) for n in tr["deps"] + tr["after_prods"]}
            now.update({("pre", n): rec["pre"].get(n) for n in tr["prods"]})
            if now == sn["contents"] and all(v is not None for v in now.values()):
                out.append(t["id"])
        return out

    def update(self, rec):
        spec, obs = rec["spec"], rec["obs"]
        outs = engine.outcomes(obs)
        for t in spec["tasks"]:
            if outs.get(t["id"]) in ("SUCCESS", "PERSISTENCE"):
                tr = tracked(spec, t)
                contents = {n: rec["post"].get(n) for n in tr["deps"] + tr["after_prods"]}
                contents.update({("pre", n): rec["post"].get(n) for n in tr["prods"]})
                self.snap[t["id"]] = {"tr": tr, "contents": contents}

    def forget_removed(self, spec):
        ids = {t["id"] for t in spec["tasks"]}
        for k in list(self.snap):
            if k not in ids:
                del self.snap[k]
