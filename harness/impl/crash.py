"""Crash campaigns (C05): kill the REAL pytask at numbered observation points, then recover.

A *case* is {"spec", "pre": [steps…], "cfg": cfg of the build that gets killed, "tag"}.  The pre-crash history (builds and
edits, impl.engine step vocabulary) is executed once in a scratch project; the resulting tree (task modules, data files,
`.pytask/pytask.sqlite3`, `.pytask/file_hashes.json`) is backed up and restored *in place* before every scenario (paths
enter pytask's signatures, so the project must stay where it is; mtimes are preserved by copy2).

A *scenario* is a list of items executed in order after a restore:
    ["build", cfg, kill]   kill = None | {"k": n} (die at the n-th observation point of the observer plugin)
                                       | {"mid": t} (die inside the body of task t after its first product write)
    ["memo", cls]          replace .pytask/file_hashes.json by a prefix / garbage class derived from the memo file that
                           the complete reference run wrote (classes in MEMO_CLASSES)
    ["dbfile", cls]        file-level state of the database a kill during start-up (or a user) can leave (DBFILE_CLASSES):
                           delete_pytask (no .pytask at all), zero (0-byte pytask.sqlite3), drop_runtime / drop_state
                           (the file exists but lacks one table)
Every build runs in a fresh forked child of a build server with the observer plugin on PYTHONPATH.

The oracle (`judge`) only looks at implementation observations; `replay_model` replays the same scenario in the Lean
step-level engine (`crash.at` = apply the first k atomic updates) and compares files, outcomes and executed sets.
"""
from __future__ import annotations

import copy
import os
import random
import shutil
from pathlib import Path

import common
from impl import builder, engine, project

PLUGIN_DIR = Path(__file__).resolve().parent.parent / "plugin"
MEMO_CLASSES = ["empty", "cutkey", "cutvalue", "cuttail", "nonutf8", "wrongshape"]
DBFILE_CLASSES = ["delete_pytask", "zero", "drop_runtime", "drop_state"]


def plugin_env() -> dict:
    pp = str(PLUGIN_DIR)
    if os.environ.get("PYTHONPATH"):
        pp += ":" + os.environ["PYTHONPATH"]
    return {"PYTHONPATH": pp}


def make_pool(hashseeds):
    return builder.Pool(hashseeds, extra_env=plugin_env())


# ------------------------------------------------------------------------------------------------
# project state
# ------------------------------------------------------------------------------------------------

def restore(root: Path, backup: Path):
    for p in root.iterdir():
        if p.is_dir() and not p.is_symlink():
            shutil.rmtree(p)
        else:
            p.unlink()
    shutil.copytree(backup, root, dirs_exist_ok=True)


def db_path(root: Path) -> Path:
    return root / ".pytask" / "pytask.sqlite3"


def dbfile_variant(root: Path, cls: str) -> None:
    import sqlite3
    if cls == "delete_pytask":
        shutil.rmtree(root / ".pytask", ignore_errors=True)
    elif cls == "zero":
        (root / ".pytask").mkdir(exist_ok=True)
        db_path(root).write_bytes(b"")
    elif cls in ("drop_runtime", "drop_state"):
        (root / ".pytask").mkdir(exist_ok=True)
        con = sqlite3.connect(db_path(root))
        try:
            con.execute(f"DROP TABLE IF EXISTS {cls.split('_')[1]}")
            con.commit()
        finally:
            con.close()
    else:
        raise ValueError(cls)


def memo_path(root: Path) -> Path:
    return root / ".pytask" / "file_hashes.json"


def memo_variant(full: bytes, cls: str, rng: random.Random) -> bytes:
    """prefix / garbage classes of the memo file `full` (a complete JSON object written by a finished build)."""
    if cls == "empty":
        return b""
    if cls == "cutkey":
        i = full.find(b'"')
        return full[: i + 1 + rng.randint(1, 12)] if i >= 0 else full[:1]
    if cls == "cutvalue":
        i = full.find(b'": "')
        return full[: i + 4 + rng.randint(1, 20)] if i >= 0 else full[: max(1, len(full) // 2)]
    if cls == "cuttail":
        return full[:-1] if len(full) > 1 else b"{"
    if cls == "nonutf8":
        cut = rng.randint(0, max(0, len(full) - 1))
        return full[:cut] + b"\xff\xfe\x00\xc3(" + full[cut:cut + 7]
    if cls == "wrongshape":
        return rng.choice([b"[1, 2, 3]", b"null", b'"file_hashes"', b"17", b'{"a": {"b": [1]}}', b"[]", b'[["k", "v"]]'])
    raise ValueError(cls)


def read_points(path: Path):
    if not path.exists():
        return []
    out = []
    for line in path.read_text().splitlines():
        parts = line.split()
        if len(parts) >= 2 and parts[0].isdigit():
            out.append((int(parts[0]), parts[1], parts[2] if len(parts) > 2 else "-"))
    return out


# ------------------------------------------------------------------------------------------------
# running
# ------------------------------------------------------------------------------------------------

def do_build(server, root: Path, spec, cfg, kill=None, observe=True):
    """one real build; returns a record compatible with impl.engine's build records (+ points, kill info)."""
    project.clear_log(root)
    pts = root / ".verif_points"
    pts.unlink(missing_ok=True)
    env = {}
    if observe or kill:
        env.update({"PYTASK_VERIF": "1", "PYTASK_VERIF_POINTS": str(pts)})
    if kill and "k" in kill:
        env["PYTASK_VERIF_CRASH"] = str(int(kill["k"]))
    if kill and "mid" in kill:
        env.update({"PYTASK_VERIF_BODY_HOOK": "crash-mid", "PYTASK_VERIF_CRASH_TASK": str(int(kill["mid"]))})
    pre = project.snapshot_nodes(root, spec)
    obs = server.build(root, builder.cfg_to_kw(cfg), env=env)
    obs["log"] = project.read_log(root)
    points = read_points(pts)
    pts.unlink(missing_ok=True)
    project.clear_log(root)
    post = project.snapshot_nodes(root, spec)
    return {"step": ["build", cfg], "cfg": cfg, "obs": obs, "pre": pre, "post": post, "spec": copy.deepcopy(spec),
            "hashseed": server.hashseed, "points": points, "kill": kill, "died": bool(obs.get("died")), "spec_after": None}


def apply_edit(root: Path, spec, clock, step):
    kind = step[0]
    if kind == "write":
        project.write_file(project.node_path(root, step[1]), str(step[2]), clock)
    elif kind == "touch":
        p = project.node_path(root, step[1])
        if p.exists():
            project.write_file(p, p.read_text(), clock)
    elif kind == "delete":
        project.node_path(root, step[1]).unlink(missing_ok=True)
    elif kind == "bump":
        m = str(step[1])
        spec["versions"][m] = spec["versions"].get(m, 0) + 1
        project.rewrite_modules(root, spec, clock, only={step[1]})
    elif kind == "setver":
        spec["versions"][str(step[1])] = step[2]
        project.rewrite_modules(root, spec, clock, only={step[1]})
    else:
        raise ValueError(kind)
    return spec


def crash_summary(rec):
    """what the harness saw of a killed build: picks, tasks whose completion was logged, number of atomic world updates."""
    spec = rec["spec"]
    byid = {t["id"]: t for t in spec["tasks"]}
    pts = rec["points"]
    picks = [engine.name_to_id(a) for (_, kind, a) in pts if kind == "protocol.in"]
    reported = [engine.name_to_id(a) for (_, kind, a) in pts if kind == "logend.out"]
    state_commits = sum(1 for (_, kind, a) in pts if kind == "commit.after" and a == "state")
    log = rec["obs"]["log"]
    started = [int(e[1]) for e in log if e[0] == "S"]
    ended = [int(e[1]) for e in log if e[0] == "E"]
    failed = [int(e[1]) for e in log if e[0] == "X"]
    writes = 0
    for t in ended:
        b = byid[t].get("beh", "ok")
        writes += len(byid[t]["prods"]) - (1 if b.startswith("omit:") and int(b.split(":")[1]) < len(byid[t]["prods"]) else 0)
    mid = None
    if rec["kill"] and "mid" in rec["kill"]:
        mid = int(rec["kill"]["mid"])
        if mid in started and mid not in ended and mid not in failed:
            writes += 1
    return {"picks": picks, "reported": reported, "state_commits": state_commits, "started": started, "ended": ended,
            "failed": failed, "k_model": writes + state_commits, "last_point": pts[-1][1:] if pts else None, "npoints": len(pts)}


class Unit:
    """one project directory: pre-crash history, reference run, then scenarios."""

    def __init__(self, server, case):
        self.server = server
        self.case = case
        self.root = common.scratch_dir("c05")
        self.backup = Path(str(self.root) + ".bak")
        self.clock = project.Clock()
        self.spec = copy.deepcopy(case["spec"])
        self.pre_records = []
        self.ref = None
        self.ref_memo = b"{}"

    def prepare(self):
        project.materialise(self.root, self.spec, self.clock)
        for step in self.case["pre"]:
            if step[0] == "build":
                rec = do_build(self.server, self.root, self.spec, step[1], observe=False)
            else:
                self.spec = apply_edit(self.root, self.spec, self.clock, step)
                rec = {"step": step, "spec_after": copy.deepcopy(self.spec)}
            self.pre_records.append(rec)
        shutil.copytree(self.root, self.backup)
        # reference (counting) run of the build that will be killed
        self.ref = do_build(self.server, self.root, self.spec, self.case["cfg"])
        mp = memo_path(self.root)
        self.ref_memo = mp.read_bytes() if mp.exists() else b"{}"
        return self

    def run_scenario(self, scenario, rng_seed=0):
        rng = random.Random(rng_seed)
        restore(self.root, self.backup)
        recs = []
        for item in scenario:
            if item[0] == "build":
                recs.append(do_build(self.server, self.root, self.spec, item[1], kill=item[2]))
            elif item[0] == "memo":
                mp = memo_path(self.root)
                mp.parent.mkdir(exist_ok=True)
                data = memo_variant(self.ref_memo, item[1], rng)
                mp.write_bytes(data)
                recs.append({"step": ["memo", item[1]], "bytes": len(data)})
            elif item[0] == "dbfile":
                dbfile_variant(self.root, item[1])
                recs.append({"step": ["dbfile", item[1]]})
            else:
                raise ValueError(item[0])
        return recs

    def close(self):
        shutil.rmtree(self.root, ignore_errors=True)
        shutil.rmtree(self.backup, ignore_errors=True)


# ------------------------------------------------------------------------------------------------
# oracle (implementation observations only)
# ------------------------------------------------------------------------------------------------

def judge(case, recs, pre_records=()):
    """-> list of (kind, message). kinds: returns, stale, converge, quiet, redo, never-ran, abort, kill."""
    bad = []
    builds = [r for r in recs if r["step"][0] == "build"]
    prev = None
    # tasks whose body ever ran to its end in this project directory (pre-crash history, killed builds, recovery builds)
    ever_done = set()
    for r in pre_records:
        if r["step"][0] == "build":
            ever_done |= {int(e[1]) for e in r["obs"].get("log", []) if e[0] == "E"}
    for r in builds:
        spec, obs, cfg = r["spec"], r["obs"], r["cfg"]
        done_before = set(ever_done)
        ever_done |= {int(e[1]) for e in obs.get("log", []) if e[0] == "E"}
        if r["kill"] and not r["died"] and r["kill"].get("k", 0) <= 0:
            bad.append(("kill", f"kill descriptor {r['kill']} invalid"))
        if r["died"]:
            if obs.get("status") != 137:
                bad.append(("returns", f"build process died with status {obs.get('status')} (not killed by the harness)"))
            prev = r
            continue
        if obs.get("raised") or obs.get("exit") not in (0, 1):
            bad.append(("returns", f"recovery build raised {obs.get('raised')!r} / exit {obs.get('exit')} (cfg {cfg})"))
            prev = r
            continue
        outs = engine.outcomes(obs)
        ex = engine.executed(obs)
        # exit code 1 must come from a task that really fails: a FAIL report of a task whose body raises (or that sits below one)
        byid = {t["id"]: t for t in spec["tasks"]}
        fails = [t for t, o in outs.items() if o == "FAIL"]
        if obs["exit"] == 1 and not fails:
            bad.append(("abort", f"a build after the kill ended with exit code 1 without reporting any failed task (reports {outs}): "
                                 f"the project does not converge"))
        for t in fails:
            if t in byid and byid[t].get("beh", "ok") == "ok":
                bad.append(("abort", f"a build after the kill reports task {t} FAIL although its body does not fail (log {obs.get('log')})"))
        for t, o in outs.items():
            if o == "SKIP_UNCHANGED" and t not in done_before:
                bad.append(("never-ran", f"task {t} is reported SKIP_UNCHANGED although its body never ran to completion in this project"))
        if not cfg.get("dry"):
            prods = {p for t in spec["tasks"] for p in t["prods"]}
            inputs = {n: v for n, v in r["post"].items() if n not in prods}
            want = engine.scratch_contents(spec, inputs)
            for t in spec["tasks"]:
                o = outs.get(t["id"])
                if o in ("SKIP_UNCHANGED", "SUCCESS"):
                    for p in t["prods"]:
                        if r["post"].get(p) != want.get(p):
                            kind = "stale" if o == "SKIP_UNCHANGED" else "converge"
                            bad.append((kind, f"after a kill, a later build reported task {t['id']} {o} but its product n{p} holds "
                                              f"{r['post'].get(p)}; a from-scratch build gives {want.get(p)}"))
            if obs["exit"] == 0 and not any(cfg.get(x) for x in ("k", "m")):
                for t in spec["tasks"]:
                    for p in t["prods"]:
                        if r["post"].get(p) != want.get(p):
                            bad.append(("converge", f"recovery build exited 0 but product n{p} of task {t['id']} ({outs.get(t['id'])}) holds "
                                                    f"{r['post'].get(p)}; a from-scratch build gives {want.get(p)}"))
        plain = not any(cfg.get(x) for x in ("force", "dry", "k", "m", "maxfail"))
        if prev is not None and plain:
            pplain = not any(prev["cfg"].get(x) for x in ("dry", "k", "m", "maxfail"))
            if not prev["died"] and pplain and prev["obs"].get("exit") == 0 and ex:
                bad.append(("quiet", f"the build after a successful recovery build executed {ex}"))
            if prev["died"] and not prev["cfg"].get("dry"):
                cs = crash_summary(prev)
                done = [t for t in cs["reported"] if t not in cs["failed"] and (t in cs["ended"] or t not in cs["started"])]
                redo = [t for t in done if t in ex]
                if redo:
                    bad.append(("redo", f"tasks {redo} had been reported complete before the kill (last point {cs['last_point']}) "
                                        f"but were executed again by the recovery build"))
        prev = r
    return bad


# ------------------------------------------------------------------------------------------------
# model replay
# ------------------------------------------------------------------------------------------------

def _compare_build(drv, rec, sel_eval=None):
    obs, spec = rec["obs"], rec["spec"]
    picks, _ = engine.derive_picks(obs)
    if obs.get("raised") or any(p is None for p in picks):
        return ("build() raised or unknown task names", obs.get("raised"), None)
    ans = drv.ask(f"engine.build {engine.cfg_model_args(rec['cfg'], spec, sel_eval)} picks={','.join(map(str, picks))}")
    if not ans.startswith("ok "):
        return ("model rejects the observed schedule", f"picks={picks}", ans)
    kv = dict(p.split("=", 1) for p in ans[3:].split(" "))
    impl_reports = ",".join(f"{engine.name_to_id(r[0])}:{r[1]}" for r in obs["reports"])
    impl_log = ",".join(x[1] for x in obs["log"] if x[0] == "S")
    if kv["exit"] != str(obs["exit"]):
        return ("exit code", obs["exit"], kv["exit"])
    if kv["reports"] != impl_reports:
        return ("outcomes", impl_reports, kv["reports"])
    if kv["log"] != impl_log:
        return ("executed bodies", impl_log, kv["log"])
    if kv["complete"] != "1":
        return ("model expects more picks", impl_reports, ans)
    return _compare_fs(kv["fs"], rec["post"])


def _compare_fs(fs_text, post):
    mfs = dict(e.split(":") for e in fs_text.split(",") if e)
    for n in sorted(post):
        iv = post[n]
        mv = mfs.get(str(n))
        if (None if iv is None else str(iv)) != mv:
            return (f"content of node {n}", iv, mv)
    return None


def model_prepare(drv, case, pre_records):
    """replays the pre-crash history; returns a disagreement tuple or None. Leaves the model in the pre-crash world (saved)."""
    hist = {"spec": case["spec"], "steps": case["pre"]}
    dis = engine.replay_in_model(drv, hist, pre_records, engine.sel_eval)
    if dis:
        i, what, iv, mv = dis[0]
        return (f"pre-crash step {i}: {what}", iv, mv)
    if not pre_records:
        spec = case["spec"]
        for ln in project.model_lines(spec):
            drv.ask(ln)
        drv.ask(project.model_fs_line(spec, {int(k): v for k, v in spec["inputs"].items()}))
        drv.ask("engine.cleardb")
    drv.ask("crash.save")
    return None


def _replay_once(drv, recs, choice, cands_out):
    drv.ask("crash.restore")
    for i, r in enumerate(recs):
        if r["step"][0] == "dbfile":
            # no database / an empty one / one without the state table = no rows; a missing runtime table is invisible to the engine
            if r["step"][1] in ("delete_pytask", "zero", "drop_state"):
                drv.ask("engine.cleardb")
            continue
        if r["step"][0] != "build":
            continue   # the memo file does not exist in the model: a memo that loads as empty or coherent changes nothing
        if r["died"]:
            cs = crash_summary(r)
            if any(p is None for p in cs["picks"]):
                return ("unknown task names at protocol entry", cs["picks"], None)
            args = f"{engine.cfg_model_args(r['cfg'], r['spec'], engine.sel_eval)} picks={','.join(map(str, cs['picks']))}"
            st = drv.ask(f"crash.steps {args}")
            if not st.startswith("ok "):
                return ("model rejects the crash replay", cs, st)
            steps = [x for x in st.split("steps=", 1)[1].split(",") if x]
            nw = cs["k_model"] - cs["state_commits"]
            # prefixes of the model's step list that contain exactly the observed number of product writes
            ks, seen = [], 0
            for k in range(len(steps) + 1):
                if k > 0 and steps[k - 1].startswith("w"):
                    seen += 1
                if seen == nw:
                    ks.append(k)
            cands_out[i] = ks
            k = choice.get(i, cs["k_model"])
            ans = drv.ask(f"crash.at {args} k={k}")
            if not ans.startswith("ok "):
                return ("model rejects the crash replay", cs, ans)
            kv = dict(p.split("=", 1) for p in ans[3:].split(" "))
            if int(kv["applied"]) != k:
                return ("the killed process made more atomic updates than the model's build has steps", k, kv["n"])
            d = _compare_fs(kv["fs"], r["post"])
            if d:
                return ("after the kill: " + d[0], d[1], d[2])
        else:
            d = _compare_build(drv, r, engine.sel_eval)
            if d:
                return ("recovery build: " + d[0], d[1], d[2])
    return None


def replay_model(drv, recs):
    """The model must already hold the pre-crash world under crash.save. Returns the first disagreement (what, impl, model) or None.

    The number of atomic updates before the kill is taken from the observation log (product writes from the body log, row
    commits from the `state` commits seen). If that replay disagrees, every other prefix of the model's step list with the same
    number of product writes is tried before a disagreement is reported, so that a refactoring which batches the row commits
    differently (same kill-point worlds up to the number of rows) does not break the tie."""
    import itertools
    cands = {}
    d = _replay_once(drv, recs, {}, cands)
    if d is None:
        return None
    keys = sorted(cands)
    combos = list(itertools.islice(itertools.product(*[cands[i] for i in keys]), 60))
    for combo in combos:
        if _replay_once(drv, recs, dict(zip(keys, combo)), {}) is None:
            return None
    return d


# ------------------------------------------------------------------------------------------------
# corpus witness F50 (fixed by 637627e): a kill around the row commits of a task + an edit made after the kill
# ------------------------------------------------------------------------------------------------

F50_MODULE = '''from pathlib import Path
D = Path(__file__).resolve().parent


def task_cmp(a=D / "a.txt", b=D / "b.txt", produces=D / "same.txt"):
    produces.write_text("equal" if a.read_text() == b.read_text() else "differ")
'''


def f50_witness(server) -> dict:
    """a=b=1, build; a=b=2 (the product stays "equal"); the rebuild is killed before / after EVERY commit and EVERY INSERT/UPDATE
    statement on the state table (each in a fresh restore of the project); then b is put back to 1 and the project is built. Oracle: that build must not report the task
    SKIP_UNCHANGED / SUCCESS with same.txt == "equal" (a != b). With one commit per row the kill after the first row commit
    fails it; with one transaction per task there is a single commit and nothing fails.
    Returns {"kills": n, "stale": [ {point, outcome, same.txt} … ]}."""
    root = common.scratch_dir("c05f50")
    clock = project.Clock()
    pts = root / ".verif_points"
    out = {"kills": 0, "stale": [], "state_commits_in_full_build": 0}
    try:
        project.write_file(root / "task_cmp.py", F50_MODULE, clock)
        project.write_file(root / "a.txt", "1", clock)
        project.write_file(root / "b.txt", "1", clock)
        o1 = server.build(root, {}, env={})
        if o1.get("exit") != 0:
            raise common.InfraError(f"F50 witness: first build failed: {o1}")
        project.write_file(root / "a.txt", "2", clock)
        project.write_file(root / "b.txt", "2", clock)
        backup = Path(str(root) + ".bak")
        shutil.copytree(root, backup)
        try:
            server.build(root, {}, env={"PYTASK_VERIF": "1", "PYTASK_VERIF_POINTS": str(pts)})
            points = read_points(pts)
            ks = [(n, kind) for (n, kind, a) in points
                  if kind in ("commit.before", "commit.after", "stmt.before", "stmt.after") and a == "state"]
            out["state_commits_in_full_build"] = sum(1 for _, kind in ks if kind == "commit.after")
            for n, kind in ks:
                restore(root, backup)
                o2 = server.build(root, {}, env={"PYTASK_VERIF": "1", "PYTASK_VERIF_POINTS": str(pts), "PYTASK_VERIF_CRASH": str(n)})
                if not o2.get("died"):
                    raise common.InfraError("F50 witness: the build was not killed")
                out["kills"] += 1
                (root / ".verif_points").unlink(missing_ok=True)
                c2 = Clock2(clock)
                project.write_file(root / "b.txt", "1", c2)
                o3 = server.build(root, {}, env={})
                outs = [r[1] for r in o3.get("reports", [])]
                same = (root / "same.txt").read_text() if (root / "same.txt").exists() else None
                if o3.get("exit") == 0 and same != "differ" and outs and outs[0] in ("SKIP_UNCHANGED", "SUCCESS"):
                    out["stale"].append({"killed_at_point": n, "kind": kind, "outcome": outs, "same.txt": same, "a": "2", "b": "1"})
            return out
        finally:
            shutil.rmtree(backup, ignore_errors=True)
    finally:
        shutil.rmtree(root, ignore_errors=True)


class Clock2:
    """continues a Clock beyond the mtimes restored from a backup (edits after a restore must get fresh mtimes)"""

    def __init__(self, clock):
        self.clock = clock

    def tick(self):
        self.clock.t += 1000
        return self.clock.tick()
