#!/venv/bin/python
"""Runs op sequences on the REAL TopologicalSorter (current /repo tree). stdin: JSON list of cases;
stdout: JSON list of traces. Run under a chosen PYTHONHASHSEED so that set order varies.

case = {"id":…, "nodes":[…], "tasks":[…], "edges":[[u,v],…], "prio":{task:p}, "seed":int,
        "ns":[n,…] (cycled), "policy":"all"|"one"|"rand", "grow": [ {"at":k,"nodes":…,"tasks":…,"edges":…,"prio":…}, … ]}
"""
import json
import random
import sys

import networkx as nx

from _pytask.dag_utils import TopologicalSorter
from _pytask.mark import Mark
from _pytask.nodes import TaskWithoutPath


def mk_dag(nodes, tasks, edges, prio, cache):
    dag = nx.DiGraph()
    sig = {}
    for v in nodes:
        if v in tasks:
            if v not in cache:
                marks = []
                p = prio.get(str(v), 0)
                # priority marks may carry arguments (`@pytask.mark.try_first("reason")`, `try_last(reason=…)`): legal, same meaning
                form = (v * 7 + len(nodes)) % 3
                args = ("why",) if form == 1 else ()
                kwargs = {"reason": "because"} if form == 2 else {}
                if p == 1:
                    marks.append(Mark("try_first", args, kwargs))
                elif p == -1:
                    marks.append(Mark("try_last", args, kwargs))
                elif p == 2:  # both marks (must be rejected somewhere)
                    marks += [Mark("try_first", args, kwargs), Mark("try_last", (), {})]
                if form == 1:
                    marks.insert(0, Mark("somethingelse", (), {}))   # unrelated marks do not matter
                cache[v] = TaskWithoutPath(name=f"task_{v}", function=lambda: None, markers=marks)
            t = cache[v]
            sig[v] = t.signature
            dag.add_node(t.signature, task=t)
        else:
            sig[v] = f"node-{v}"
            dag.add_node(sig[v], node=None)
    for u, v in edges:
        dag.add_edge(sig[u], sig[v])
    return dag, sig


def run_case(c):
    rng = random.Random(c["seed"])
    cache = {}
    tasks = set(c["tasks"])
    dag, sig = mk_dag(c["nodes"], tasks, c["edges"], c["prio"], cache)
    inv = {s: v for v, s in sig.items()}
    tr = {"id": c["id"], "ops": []}
    try:
        s = TopologicalSorter.from_dag(dag)
    except ValueError as e:
        tr["new"] = {"err": "cycle" if "cycles" in str(e) else "other:" + str(e)}
        return tr
    except Exception as e:  # noqa: BLE001
        tr["new"] = {"err": f"other:{type(e).__name__}"}
        return tr

    def snap(s):
        return {"nodes": sorted(inv[x] for x in s.dag.nodes), "edges": sorted([inv[a], inv[b]] for a, b in s.dag.edges),
                "processing": sorted(inv[x] for x in s._nodes_processing), "done": sorted(inv[x] for x in s._nodes_done),
                "active": bool(s.is_active())}

    tr["new"] = snap(s)
    grow = {g["at"]: g for g in c.get("grow", [])}
    step = 0
    ns = c["ns"]
    guard = 0
    while s.is_active() and guard < 200:
        guard += 1
        if step in grow:
            g = grow.pop(step)
            tasks = set(g["tasks"])
            dag, sig2 = mk_dag(g["nodes"], tasks, g["edges"], g["prio"], cache)
            sig.update(sig2)
            inv = {s_: v for v, s_ in sig.items()}
            try:
                s = TopologicalSorter.from_dag_and_sorter(dag, s)
                tr["ops"].append(["recreate", g, snap(s)])
            except ValueError as e:
                tr["ops"].append(["recreate", g, {"err": "cycle" if "cycles" in str(e) else "other"}])
                break
            continue_ = True
        n = ns[step % len(ns)]
        step += 1
        try:
            got = s.get_ready(n)
        except ValueError:
            tr["ops"].append(["ready", n, None, "badN"])
            continue
        tr["ops"].append(["ready", n, [inv[x] for x in got], snap(s)])
        proc = sorted(s._nodes_processing, key=lambda x: inv[x])
        if not proc:
            if not got:
                tr["stuck"] = True
                break
            continue
        pol = c["policy"]
        if pol == "all":
            xs = proc
        elif pol == "one":
            xs = [proc[rng.randrange(len(proc))]]
        else:
            k = rng.randint(0 if len(proc) > 1 and rng.random() < 0.3 else 1, len(proc))
            xs = rng.sample(proc, k)
        if xs:
            s.done(*xs)
            tr["ops"].append(["done", [inv[x] for x in xs], snap(s)])
    tr["final"] = snap(s)
    return tr


def main():
    cases = json.load(sys.stdin)
    out = [run_case(c) for c in cases]
    json.dump(out, sys.stdout)


if __name__ == "__main__":
    main()
