#!/venv/bin/python
"""Worker for the C16 campaign: runs the REAL `Expression.compile_(s).evaluate(matcher)` / `KeywordMatcher` / `MarkMatcher`
/ `select_by_*` of the tree under check, the independent oracle (`expr_oracle`) and — when a driver path is given — the
Lean model on the same inputs, and returns the comparison. stdin: one JSON job; stdout: one JSON result.

job = {"driver": <path or null>, "kind": "exh", "symbols": [...], "maxlen": n, "prefixes": [[symbol indices], …], "shorter": bool}
    | {"driver": …, "kind": "list", "strings": [...]}
    | {"driver": …, "kind": "tasks", "cases": [{"tasks": [{"name","attrs","markers"}], "queries": [[mode, expr], …],
                                                 "probes": [sub, …]}]}
"""
from __future__ import annotations

import hashlib
import itertools
import json
import os
import re
import subprocess
import sys
import types
from pathlib import Path

sys.path.insert(0, str(Path(__file__).resolve().parent))
import expr_oracle as orc  # noqa: E402
import selexpr  # noqa: E402  (the resolver used by the engine campaigns; cross-checked here, never used as the C16 oracle)

from _pytask.mark.expression import Expression  # noqa: E402
from _pytask.mark.expression import ParseError  # noqa: E402

MAX_IDENTS = 6
KEEP = 12
WORD = re.compile(r"\w")
sys.setrecursionlimit(10000)


# ---------------------------------------------------------------------------------------------
# real side
# ---------------------------------------------------------------------------------------------

def real_table(s: str, idents: list[str]) -> str:
    """ok:<bits> | parse-error:<col> | other:<what>"""
    try:
        e = Expression.compile_(s)
    except ParseError as pe:
        col = getattr(pe, "column", None)
        return f"parse-error:{col}" if isinstance(col, int) and not isinstance(col, bool) else "other:ParseError-without-column"
    except BaseException as ex:  # noqa: BLE001
        return f"other:{type(ex).__name__}"
    bits = []
    for i in range(1 << len(idents)):
        env = {x: bool(i >> j & 1) for j, x in enumerate(idents)}
        try:
            r = e.evaluate(lambda x: env.get(x, False))   # identifiers beyond the listed ones are false
        except BaseException as ex:  # noqa: BLE001
            return f"other:evaluate-{type(ex).__name__}"
        if r is True:
            bits.append("1")
        elif r is False:
            bits.append("0")
        else:
            return "other:non-bool-result"
    return "ok:" + "".join(bits)


def word_cps(s: str) -> list[int]:
    """Code points of `s` that `re` classifies as \\w (the isWord parameter of the model)."""
    return sorted({ord(c) for c in s if WORD.match(c)})


def cps(s: str, sep: str = ",") -> str:
    return sep.join(str(ord(c)) for c in s)


def model_line(s: str, idents: list[str]) -> str:
    return f"expr.table cps={cps(s)} idents={';'.join(cps(x, '.') for x in idents)} words={','.join(map(str, word_cps(s)))}"


class Drv:
    def __init__(self, path):
        self.p = subprocess.Popen([path], stdin=subprocess.PIPE, stdout=subprocess.PIPE, text=True, bufsize=1 << 16)

    def batch(self, lines):
        out = []
        CH = 400
        for i in range(0, len(lines), CH):
            chunk = lines[i:i + CH]
            self.p.stdin.write("\n".join(chunk) + "\n")
            self.p.stdin.flush()
            for _ in chunk:
                a = self.p.stdout.readline()
                if a == "":
                    raise RuntimeError("driver died")
                out.append(a.rstrip("\n"))
        return out

    def close(self):
        try:
            self.p.stdin.close()
            self.p.wait(timeout=5)
        except Exception:  # noqa: BLE001
            self.p.kill()


class Acc:
    def __init__(self):
        self.n = 0
        self.hashes = bytearray()
        self.dist: dict[str, int] = {}
        self.violations: list = []
        self.disagreements: list = []
        self.samples: list = []
        self.validated = 0
        self.nviol = 0
        self.ndis = 0
        self.selexpr_check = False
        self.selfcheck: list = []

    def bump(self, k):
        self.dist[k] = self.dist.get(k, 0) + 1

    def result(self):
        return {"n": self.n, "hashes": self.hashes.hex(), "dist": self.dist, "violations": self.violations,
                "disagreements": self.disagreements, "samples": self.samples, "validated": self.validated,
                "nviol": self.nviol, "ndis": self.ndis, "selfcheck": self.selfcheck[:5]}


def h8(s: str) -> bytes:
    return hashlib.blake2b(s.encode("utf-8", "surrogatepass"), digest_size=8).digest()


# ---------------------------------------------------------------------------------------------
# expressions
# ---------------------------------------------------------------------------------------------

def check_strings(acc: Acc, strings, drv):
    """Real vs oracle for every string; real vs model in batches."""
    pend_lines, pend_meta = [], []

    def flush():
        if not pend_lines:
            return
        ans = drv.batch(pend_lines)
        for (s, idents, real), a in zip(pend_meta, ans):
            acc.validated += 1
            if a != real:
                acc.ndis += 1
                if len(acc.disagreements) < KEEP:
                    acc.disagreements.append({"what": f"expression {s!r}: implementation {real}, model {a}",
                                              "replay": {"layer": "expr", "s": s, "idents": idents, "impl": real, "model": a}})
        pend_lines.clear()
        pend_meta.clear()

    for s in strings:
        all_idents = orc.identifiers(s)
        idents = all_idents[:MAX_IDENTS]
        real = real_table(s, idents)
        want = orc.table(s, idents)
        acc.n += 1
        cls = real.split(":", 1)[0]
        acc.bump("result=" + cls)
        ok = (real == want) if want.startswith("ok:") else (cls == "parse-error" and want == "parse-error")
        if want == "too-deep":
            ok = True
        if cls == "other":
            ok = False
        if not ok:
            acc.nviol += 1
            if len(acc.violations) < KEEP:
                kind = "other-exception" if cls == "other" else ("accepts-or-rejects" if (cls == "ok") != want.startswith("ok:") else "truth-table")
                acc.violations.append({"what": f"{kind}: expression {s!r} over identifiers {idents}: pytask gives {real}, Boolean semantics give {want}",
                                       "replay": {"layer": "expr", "s": s, "idents": idents, "impl": real, "oracle": want}})
        nontrivial = cls == "ok" and len(idents) >= 1 and any(c in s for c in " \t()")
        if nontrivial:
            acc.hashes += h8(s)
            acc.bump(f"idents={len(idents)}")
            if len(acc.samples) < 3 and acc.n % 9973 == 7:
                acc.samples.append({"expr": s, "idents": idents, "result": real})
        elif cls == "parse-error":
            acc.bump("error-col=" + ("1" if real == "parse-error:1" else "end" if real == f"parse-error:{len(s) + 1}" else "inside"))
        if acc.selexpr_check and want != "too-deep" and len(all_idents) <= MAX_IDENTS:
            # harness self-check: the older resolver `selexpr.evaluate` must agree with the C16 oracle (all identifiers true / false)
            for val in (True, False):
                try:
                    got = "ok:" + ("1" if selexpr.evaluate(s, lambda _x, val=val: val) else "0")
                except selexpr.BadExpr:
                    got = "parse-error"
                exp = want if not want.startswith("ok:") else "ok:" + (want[-1] if val else want[3])
                if got != exp:
                    acc.selfcheck.append(f"selexpr.evaluate({s!r}, all {val}) = {got}, expr_oracle = {exp}")
        if drv is not None:
            pend_lines.append(model_line(s, idents))
            pend_meta.append((s, idents, real))
            if len(pend_lines) >= 2000:
                flush()
    if drv is not None:
        flush()


def enumerate_strings(symbols, maxlen, prefixes, shorter):
    """All concatenations of ≤ maxlen symbols that start with one of the symbol-index `prefixes` (all of one length p);
    with `shorter`, also every concatenation of < p symbols (the empty string included)."""
    p = len(prefixes[0]) if prefixes else 0
    if shorter:
        for n in range(0, min(p, maxlen + 1)):
            for seq in itertools.product(symbols, repeat=n):
                yield "".join(seq)
    if p > maxlen:
        return
    for pre in prefixes:
        head = "".join(symbols[i] for i in pre)
        for n in range(0, maxlen - p + 1):
            for tail in itertools.product(symbols, repeat=n):
                yield head + "".join(tail)


# ---------------------------------------------------------------------------------------------
# matchers and selections
# ---------------------------------------------------------------------------------------------

def mk_tasks(specs):
    import networkx as nx
    from _pytask.mark import Mark
    from _pytask.nodes import TaskWithoutPath

    tasks = []
    dag = nx.DiGraph()
    for sp in specs:
        def fn():
            return None
        for a in sp["attrs"]:
            fn.__dict__[a] = 1
        t = TaskWithoutPath(name=sp["name"], function=fn, markers=[Mark(m, (), {}) for m in sp["markers"]])
        tasks.append(t)
        dag.add_node(t.signature, task=t)
    return tasks, dag


def real_select(mode, expr, tasks, dag):
    """'none' | 'value-error' | sorted indices | 'other:<Exc>'"""
    from _pytask import mark as M

    sig = {t.signature: i for i, t in enumerate(tasks)}
    session = types.SimpleNamespace(tasks=tasks, config={"expression": expr if mode == "k" else "", "marker_expression": expr if mode == "m" else ""})
    try:
        if mode == "k":
            r = M.select_by_keyword(session, dag)
        elif mode == "m":
            r = M.select_by_mark(session, dag)
        else:
            r = M.select_by_after_keyword(session, expr)
    except ValueError:
        return "parse-error"
    except BaseException as ex:  # noqa: BLE001
        return f"other:{type(ex).__name__}"
    if r is None:
        return "none"
    try:
        return sorted(sig[x] for x in r)
    except KeyError:
        return "other:unknown-signature"


def check_tasks(acc: Acc, cases, drv):
    from _pytask.mark import KeywordMatcher
    from _pytask.mark import MarkMatcher

    for case in cases:
        specs = case["tasks"]
        tasks, dag = mk_tasks(specs)
        # --- matcher probes
        for sub in case.get("probes", []):
            for i, (t, sp) in enumerate(zip(tasks, specs)):
                acc.n += 1
                try:
                    rk = bool(KeywordMatcher.from_task(t)(sub))
                    rm = bool(MarkMatcher.from_task(t)(sub))
                except BaseException as ex:  # noqa: BLE001
                    rk = rm = f"other:{type(ex).__name__}"
                wk, wm = orc.kw_matches(sp, sub), orc.mark_matches(sp, sub)
                acc.bump(f"probe-k={rk}")
                if rk is True or rm is True:
                    acc.hashes += h8(json.dumps([sp, sub], sort_keys=True))
                if (rk, rm) != (wk, wm):
                    acc.nviol += 1
                    if len(acc.violations) < KEEP:
                        which = "KeywordMatcher" if rk != wk else "MarkMatcher"
                        acc.violations.append({"what": f"matcher: {which} on task {sp} with {sub!r}: pytask gives -k {rk} / -m {rm}, the property gives -k {wk} / -m {wm}",
                                               "replay": {"layer": "tasks", "case": {"tasks": [sp], "probes": [sub], "queries": []}}})
        # --- selections
        lines, meta = [], []
        for mode, expr in case.get("queries", []):
            acc.n += 1
            real = real_select(mode, expr, tasks, dag)
            want = orc.select(mode, expr, specs)
            acc.bump(f"select-{mode}=" + (real if isinstance(real, str) else "some" if real else "empty"))
            if isinstance(real, list) and 0 < len(real) < len(tasks):
                acc.hashes += h8(json.dumps([specs, mode, expr], sort_keys=True))
                if len(acc.samples) < 3:
                    acc.samples.append({"tasks": specs, "mode": mode, "expr": expr, "selected": real})
            if real != want:
                acc.nviol += 1
                if len(acc.violations) < KEEP:
                    acc.violations.append({"what": f"selection: mode {mode} expression {expr!r} on tasks {specs}: pytask selects {real}, the property gives {want}",
                                           "replay": {"layer": "tasks", "case": {"tasks": specs, "probes": [], "queries": [[mode, expr]]}}})
            if drv is not None:
                names = {expr_id for expr_id in orc.identifiers(expr)}
                for sp in specs:
                    names.update([sp["name"], *sp["attrs"], *sp["markers"]])
                lower = ",".join(f"{cps(x, '.')}:{cps(x.lower(), '.')}" for x in sorted(names) if x.lower() != x)
                tl = "|".join(f"{cps(sp['name'], '.')}/{';'.join(cps(a, '.') for a in sp['attrs'])}/{';'.join(cps(m, '.') for m in sp['markers'])}" for sp in specs)
                lines.append(f"expr.select mode={mode} cps={cps(expr)} words={','.join(map(str, word_cps(expr)))} tasks={tl} lower={lower}")
                meta.append((mode, expr, real))
        if drv is not None and lines:
            for (mode, expr, real), a in zip(meta, drv.batch(lines)):
                acc.validated += 1
                shown = real if isinstance(real, str) else "sel:" + ",".join(map(str, real))
                a_cmp = "parse-error" if a.startswith("parse-error:") else a
                if a_cmp != shown:
                    acc.ndis += 1
                    if len(acc.disagreements) < KEEP:
                        acc.disagreements.append({"what": f"selection mode {mode} {expr!r} on {specs}: implementation {shown}, model {a}",
                                                  "replay": {"layer": "tasks", "case": {"tasks": specs, "probes": [], "queries": [[mode, expr]]}}})


# ---------------------------------------------------------------------------------------------
# `after="<expr>"` on whole projects
# ---------------------------------------------------------------------------------------------

def check_after_projects(acc: Acc, cases):
    """API level: the real DAG construction (`create_dag_from_session`) on tasks that carry `after` strings, for several
    orders of `session.tasks`; the after-predecessors of every task are read off the resulting graph."""
    from _pytask import dag as D
    from _pytask.mark import Mark
    from _pytask.nodes import PathNode
    from _pytask.nodes import TaskWithoutPath

    for case in cases:
        specs = case["tasks"]
        kind, want = orc.after_preds(specs)
        shared = len({sp["after"] for sp in specs if sp.get("after") is not None}) < sum(1 for sp in specs if sp.get("after") is not None)
        for order in case["orders"]:
            acc.n += 1
            objs = {}
            for i in order:
                sp = specs[i]

                def fn():
                    return None
                for a in sp["attrs"]:
                    fn.__dict__[a] = 1
                objs[i] = TaskWithoutPath(name=sp["name"], function=fn, markers=[Mark(m, (), {}) for m in sp["markers"]],
                                          produces={"out": PathNode(name=f"product-{i}", path=Path(f"/nonexistent-c16/product-{i}.txt"))},
                                          attributes={"after": sp["after"]} if sp.get("after") is not None else {})
            session = types.SimpleNamespace(tasks=[objs[i] for i in order], config={"paths": [], "expression": "", "marker_expression": ""})
            try:
                dag = D.create_dag_from_session(session)
            except BaseException as ex:  # noqa: BLE001
                real = "error"
                err = type(ex).__name__
            else:
                producer = {}
                for i, t in objs.items():
                    for p in dag.successors(t.signature):
                        producer[p] = i
                sig = {t.signature: i for i, t in objs.items()}
                real = []
                for i in range(len(specs)):
                    ps = set()
                    for p in dag.predecessors(objs[i].signature):
                        if p in producer:
                            ps.add(producer[p])
                        elif p in sig:
                            ps.add(sig[p])
                    real.append(sorted(ps))
            acc.bump(f"after-project={kind}" + ("+shared" if shared else ""))
            ok = (real == "error") if kind != "ok" else (real == want)
            if kind == "ok" and shared and any(want):
                acc.hashes += h8(json.dumps([specs, order], sort_keys=True))
                if len(acc.samples) < 2:
                    acc.samples.append({"tasks": [[sp["name"], sp.get("after")] for sp in specs], "order": order, "after-predecessors": real})
            if not ok:
                acc.nviol += 1
                if len(acc.violations) < KEEP:
                    shown = [[sp["name"], sp.get("after")] for sp in specs]
                    exp = f"predecessors {want}" if kind == "ok" else f"an error ({kind})"
                    acc.violations.append({"what": f"after-project: tasks (name, after) {shown} processed in order {order}: pytask's DAG gives after-predecessors "
                                                   f"{real}, the formulas give {exp}",
                                           "replay": {"layer": "after", "case": {"tasks": specs, "orders": [order]}}})


E2E_CHILD = r'''
import json, sys
from pathlib import Path
import pytask
root = Path(sys.argv[1])
s = pytask.build(paths=[root], capture="no")
log = root / "log.txt"
print("RESULT " + json.dumps({"exit": int(s.exit_code), "tasks": [[getattr(t, "base_name", t.name), t.name, sorted(t.function.__dict__)] for t in s.tasks],
                              "order": log.read_text().split() if log.exists() else []}))
'''


def check_after_e2e(acc: Acc, cases):
    """End to end: generated modules with `@task(after="<expr>")`, real `pytask.build` in a fresh process per project and
    PYTHONHASHSEED; the observed execution order must respect every formula."""
    import shutil
    import tempfile

    for case in cases:
        root = Path(tempfile.mkdtemp(prefix="pv-c16-"))
        try:
            lines = ["from pathlib import Path", "import pytask", "from pytask import task", "HERE = Path(__file__).parent", ""]
            for sp in case["tasks"]:
                deco = [f"produces=HERE / {sp['func'] + '.txt'!r}"]
                if sp.get("after") is not None:
                    deco.insert(0, f"after={sp['after']!r}")
                if sp.get("try_first"):
                    lines.append("@pytask.mark.try_first")
                lines.append(f"@task({', '.join(deco)})")
                lines.append(f"def {sp['func']}():")
                lines.append(f"    with (HERE / 'log.txt').open('a') as f:\n        f.write({sp['func']!r} + '\\n')")
                lines.append(f"    return {sp['func']!r}")
                lines.append("")
            (root / f"task_{case['mod']}.py").write_text("\n".join(lines))
            for hs in case["hashseeds"]:
                acc.n += 1
                for f in root.glob("*.txt"):
                    f.unlink()
                shutil.rmtree(root / ".pytask", ignore_errors=True)
                env = dict(os.environ, PYTHONHASHSEED=str(hs), PYTHONDONTWRITEBYTECODE="1")
                p = subprocess.run([sys.executable, "-c", E2E_CHILD, str(root)], capture_output=True, text=True, env=env, cwd=str(root), timeout=300)
                res = [l for l in p.stdout.splitlines() if l.startswith("RESULT ")]
                if not res:
                    acc.selfcheck.append(f"after-e2e child failed: {p.stderr[-400:]}")
                    continue
                r = json.loads(res[-1][7:])
                by_func = {b: (n, attrs) for b, n, attrs in r["tasks"]}
                if set(by_func) != {sp["func"] for sp in case["tasks"]}:
                    acc.selfcheck.append(f"after-e2e: collected {sorted(by_func)}, generated {[sp['func'] for sp in case['tasks']]}")
                    continue
                specs = [{"name": by_func[sp["func"]][0], "attrs": by_func[sp["func"]][1], "markers": ["try_first"] if sp.get("try_first") else [],
                          "after": sp.get("after")} for sp in case["tasks"]]
                kind, want = orc.after_preds(specs)
                funcs = [sp["func"] for sp in case["tasks"]]
                acc.bump(f"after-e2e={kind}")
                bad = None
                if kind != "ok":
                    if r["exit"] == 0 or r["order"]:
                        bad = f"exit code {r['exit']}, executed {r['order']}, but the after formulas give {kind}"
                else:
                    pos = {f: k for k, f in enumerate(r["order"])}
                    if r["exit"] != 0 or sorted(r["order"]) != sorted(funcs):
                        bad = f"exit code {r['exit']}, executed {r['order']}"
                    else:
                        for i, ps in enumerate(want):
                            for j in ps:
                                if pos[funcs[j]] > pos[funcs[i]]:
                                    bad = f"{funcs[i]} (after={specs[i]['after']!r}) ran before {funcs[j]}, which its formula matches; order {r['order']}"
                    if any(want):
                        acc.hashes += h8(json.dumps([case["tasks"], hs], sort_keys=True))
                if bad:
                    acc.nviol += 1
                    if len(acc.violations) < KEEP:
                        acc.violations.append({"what": f"after-e2e: project {[(sp['func'], sp.get('after'), bool(sp.get('try_first'))) for sp in case['tasks']]} "
                                                       f"under PYTHONHASHSEED={hs}: {bad}",
                                               "replay": {"layer": "after-e2e", "case": dict(case, hashseeds=[hs])}})
        finally:
            shutil.rmtree(root, ignore_errors=True)


# ---------------------------------------------------------------------------------------------
# -k / -m at project level: which tasks stay selected
# ---------------------------------------------------------------------------------------------

def check_select_projects(acc: Acc, cases, drv):
    """API level: the real `select_tasks_by_marks_and_expressions(session, dag)` on fresh task objects (graph without edges);
    a task is deselected iff a `skip` mark with a "Deselected …" reason was attached to it."""
    from _pytask import mark as M

    lines, meta = [], []
    for case in cases:
        specs = case["tasks"]
        for kexpr, mexpr in case["queries"]:
            acc.n += 1
            tasks, dag = mk_tasks(specs)
            before = [len(t.markers) for t in tasks]
            session = types.SimpleNamespace(tasks=tasks, config={"expression": kexpr, "marker_expression": mexpr})
            try:
                M.select_tasks_by_marks_and_expressions(session, dag)
            except ValueError:
                real = "parse-error"
            except BaseException as ex:  # noqa: BLE001
                real = f"other:{type(ex).__name__}"
            else:
                real = []
                for i, t in enumerate(tasks):
                    new = t.markers[before[i]:]
                    desel = any(m.name == "skip" and str(m.kwargs.get("reason", "")).startswith("Deselected") for m in new)
                    if not desel:
                        real.append(i)
            want = orc.project_selection(kexpr, mexpr, specs)
            cls = "error" if isinstance(want, str) else "none" if not want else "all" if len(want) == len(specs) else "one" if len(want) == 1 else "some"
            acc.bump(f"project-selection={cls}" + ("+k" if kexpr else "") + ("+m" if mexpr else ""))
            if isinstance(want, list) and (kexpr or mexpr):
                acc.hashes += h8(json.dumps([specs, kexpr, mexpr], sort_keys=True))
                if cls == "none" and len(acc.samples) < 2:
                    acc.samples.append({"tasks": [sp["name"] for sp in specs], "-k": kexpr, "-m": mexpr, "selected": real})
            if real != want:
                acc.nviol += 1
                if len(acc.violations) < KEEP:
                    acc.violations.append({"what": f"project-selection: -k {kexpr!r} -m {mexpr!r} on tasks {[[sp['name'], sp['markers']] for sp in specs]}: pytask keeps "
                                                   f"{real} selected, the formulas keep {want}",
                                           "replay": {"layer": "select-project", "case": {"tasks": specs, "queries": [[kexpr, mexpr]]}}})
            if drv is not None:
                names = set(orc.identifiers(kexpr))
                for sp in specs:
                    names.update([sp["name"], *sp["attrs"], *sp["markers"]])
                lower = ",".join(f"{cps(x, '.')}:{cps(x.lower(), '.')}" for x in sorted(names) if x.lower() != x)
                tl = "|".join(f"{cps(sp['name'], '.')}/{';'.join(cps(a, '.') for a in sp['attrs'])}/{';'.join(cps(m, '.') for m in sp['markers'])}" for sp in specs)
                lines.append(f"expr.project k={cps(kexpr)} m={cps(mexpr)} words={','.join(map(str, word_cps(kexpr + mexpr)))} tasks={tl} lower={lower}")
                meta.append((kexpr, mexpr, specs, real))
    if drv is not None and lines:
        for (kexpr, mexpr, specs, real), a in zip(meta, drv.batch(lines)):
            acc.validated += 1
            shown = real if isinstance(real, str) else "sel:" + ",".join(map(str, real))
            a_cmp = "parse-error" if a.startswith("parse-error:") else a
            if a_cmp != shown:
                acc.ndis += 1
                if len(acc.disagreements) < KEEP:
                    acc.disagreements.append({"what": f"project selection -k {kexpr!r} -m {mexpr!r} on {specs}: implementation {shown}, model {a}",
                                              "replay": {"layer": "select-project", "case": {"tasks": specs, "queries": [[kexpr, mexpr]]}}})


SELECT_E2E_CHILD = r'''
import json, sys
from pathlib import Path
import pytask
root = Path(sys.argv[1])
kw = json.loads(sys.argv[2])
s = pytask.build(paths=[root], capture="no", **kw)
log = root / "log.txt"
print("RESULT " + json.dumps({"exit": int(s.exit_code), "tasks": [[getattr(t, "base_name", t.name), t.name, sorted(t.function.__dict__)] for t in s.tasks],
                              "order": log.read_text().split() if log.exists() else []}))
'''


def check_select_e2e(acc: Acc, cases):
    """End to end: generated modules (independent tasks, optional markers, optionally a task generator whose children only come
    into existence during the build), real `pytask.build(expression=…, marker_expression=…)` in a fresh process; the executed
    tasks must be exactly those for which every given expression is true — generated children included (a child is judged
    only if its generator ran)."""
    import shutil
    import tempfile

    def body(func, indent):
        pad = " " * indent
        return [f"{pad}def {func}():", f"{pad}    _log({func!r})", f"{pad}    return {func!r}"]

    for case in cases:
        root = Path(tempfile.mkdtemp(prefix="pv-c16s-"))
        try:
            lines = ["from pathlib import Path", "import pytask", "from pytask import task", "HERE = Path(__file__).parent", "",
                     "def _log(name):", "    with (HERE / 'log.txt').open('a') as f:", "        f.write(name + '\\n')", ""]
            gen = case.get("generator")
            for sp in case["tasks"]:
                for m in sp["markers"]:
                    lines.append(f"@pytask.mark.{m}")
                lines.append(f"@task(produces=HERE / {sp['func'] + '.txt'!r})")
                lines += body(sp["func"], 0) + [""]
            if gen:
                for m in gen["markers"]:
                    lines.append(f"@pytask.mark.{m}")
                lines.append("@task(is_generator=True)")
                lines.append(f"def {gen['func']}():")
                lines.append(f"    _log({gen['func']!r})")
                for ch in gen["children"]:
                    for m in ch["markers"]:
                        lines.append(f"    @pytask.mark.{m}")
                    lines.append(f"    @task(produces=HERE / {ch['func'] + '.txt'!r})")
                    lines += body(ch["func"], 4) + [""]
            (root / f"task_{case['mod']}.py").write_text("\n".join(lines))
            (root / "pyproject.toml").write_text("[tool.pytask.ini_options]\nmarkers = {" + ", ".join(f'{m} = "m"' for m in case["all_markers"]) + "}\n")
            static = list(case["tasks"]) + ([{"func": gen["func"], "markers": gen["markers"]}] if gen else [])
            children = gen["children"] if gen else []
            for kexpr, mexpr in case["queries"]:
                acc.n += 1
                for f in root.glob("*.txt"):
                    f.unlink()
                shutil.rmtree(root / ".pytask", ignore_errors=True)
                kw = {}
                if kexpr:
                    kw["expression"] = kexpr
                if mexpr:
                    kw["marker_expression"] = mexpr
                env = dict(os.environ, PYTHONHASHSEED=str(case["hashseed"]), PYTHONDONTWRITEBYTECODE="1")
                p = subprocess.run([sys.executable, "-c", SELECT_E2E_CHILD, str(root), json.dumps(kw)], capture_output=True, text=True, env=env,
                                   cwd=str(root), timeout=300)
                res = [l for l in p.stdout.splitlines() if l.startswith("RESULT ")]
                if not res:
                    acc.selfcheck.append(f"select-e2e child failed: {p.stderr[-400:]}")
                    continue
                r = json.loads(res[-1][7:])
                by_func = {b: (n, attrs) for b, n, attrs in r["tasks"]}

                def spec(sp):
                    # every task created with @task carries the marker `task`
                    n, attrs = by_func.get(sp["func"], (sp["func"], []))
                    return {"name": n, "attrs": attrs, "markers": [*sp["markers"], "task"], "func": sp["func"]}

                sspecs = [spec(sp) for sp in static]
                want_s = orc.project_selection(kexpr, mexpr, sspecs)
                if isinstance(want_s, str):
                    bad = None if (r["exit"] != 0 and not r["order"]) else f"exit code {r['exit']}, executed {r['order']} although an expression is malformed"
                    acc.bump("select-e2e=error")
                else:
                    if not {sp["func"] for sp in static} <= set(by_func):
                        acc.selfcheck.append(f"select-e2e: collected {sorted(by_func)}, generated {[sp['func'] for sp in static]}: {p.stdout[-300:]}")
                        continue
                    gen_runs = bool(gen) and (len(static) - 1) in want_s
                    allspecs = sspecs + ([spec(ch) for ch in children] if gen_runs else [])
                    want = orc.project_selection(kexpr, mexpr, allspecs)
                    exp = sorted(allspecs[i]["func"] for i in want)
                    ran = sorted(r["order"])
                    bad = None if (ran == exp and r["exit"] == 0) else f"exit code {r['exit']}, executed {ran}, the formulas select {exp}"
                    if gen_runs:
                        nsel = sum(1 for i in want if i >= len(sspecs))
                        acc.bump("select-e2e=generated-children:" + ("none" if nsel == 0 else "all" if nsel == len(children) else "some"))
                    else:
                        acc.bump("select-e2e=" + ("none" if not want else "all" if len(want) == len(allspecs) else "some"))
                    acc.hashes += h8(json.dumps([case["tasks"], gen, kexpr, mexpr], sort_keys=True))
                if bad:
                    acc.nviol += 1
                    if len(acc.violations) < KEEP:
                        shown = [(sp["func"], sp["markers"]) for sp in case["tasks"]]
                        g = f" + generator {gen['func']} {gen['markers']} creating {[(c['func'], c['markers']) for c in children]}" if gen else ""
                        acc.violations.append({"what": f"select-e2e: project {shown}{g} built with -k {kexpr!r} -m {mexpr!r}: {bad}",
                                               "replay": {"layer": "select-e2e", "case": dict(case, queries=[[kexpr, mexpr]])}})
        finally:
            shutil.rmtree(root, ignore_errors=True)


def main():
    job = json.load(sys.stdin)
    acc = Acc()
    drv = Drv(job["driver"]) if job.get("driver") else None
    try:
        if job["kind"] == "exh":
            check_strings(acc, enumerate_strings(job["symbols"], job["maxlen"], job["prefixes"], job.get("shorter", False)), drv)
        elif job["kind"] == "list":
            acc.selexpr_check = True
            check_strings(acc, job["strings"], drv)
        elif job["kind"] == "tasks":
            check_tasks(acc, job["cases"], drv)
        elif job["kind"] == "select_project":
            check_select_projects(acc, job["cases"], drv)
        elif job["kind"] == "select_e2e":
            check_select_e2e(acc, job["cases"])
        elif job["kind"] == "after":
            check_after_projects(acc, job["cases"])
        elif job["kind"] == "after_e2e":
            check_after_e2e(acc, job["cases"])
        else:
            raise SystemExit(f"unknown job kind {job['kind']}")
    finally:
        if drv is not None:
            drv.close()
    json.dump(acc.result(), sys.stdout)


if __name__ == "__main__":
    main()
