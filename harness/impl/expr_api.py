"""C16 campaign: generators, job distribution over `expr_worker.py` processes, result accounting.

The workers run the real pytask code, the independent oracle and the Lean driver side by side; this module only generates
inputs (from `ctx.rng`), splits them into jobs and merges the answers into the check context.
"""
from __future__ import annotations

import json
import os
import subprocess
import unicodedata
from concurrent.futures import ThreadPoolExecutor
from pathlib import Path

import common

WORKER = Path(__file__).resolve().parent / "expr_worker.py"

# DESIGN §5 C16: the full symbol set (short strings) and its 9-symbol core (one representative per token class; longer strings)
SYMBOLS_FULL = ["(", ")", " ", "\t", "or", "and", "not", "a", "b", "nota", "x-y", "a:b[1]/c\\d", "é", "$", "!"]
SYMBOLS_CORE = ["(", ")", " ", "or", "and", "not", "a", "b", "$"]

# identifier material for the random strings: ASCII, the literal class members, Unicode letters / digits / numerics of
# several categories (all \w), and characters that are NOT in the alphabet (other white space, marks, punctuation, symbols)
WORDISH = list("abcXYZ_019") + ["é", "ß", "Ω", "ж", "中", "あ", "٣", "②", "²", "½", "ª", "İ", "ǅ", "𝒳", "ⅷ"]
EXTRA = list(":+-.[]/\\")
OUTSIDE = ["$", "!", "\n", "\r", "\x0b", "\x0c", "\u00a0", "\u3000", "\u0301", "\u200b", "=", "*", "'", '"', ",", "&", "|", "~", "{", "#", "\x00", "€", "°"]
KEYWORDS = ["or", "and", "not"]


def check_unicode_assumption():
    """`\\w` of `re` must be `str.isalnum() or '_'` (the oracle's definition) and must exclude blank and parentheses —
    the assumption under which the model parameter isWord is supplied. Returns a message or None."""
    import re
    w = re.compile(r"\w")
    pool = set(WORDISH + EXTRA + OUTSIDE + list(" \t()")) | {chr(c) for c in range(0x0, 0x3000)}
    for c in pool:
        if bool(w.match(c)) != (c == "_" or c.isalnum()):
            return f"re \\w and str.isalnum disagree on U+{ord(c):04X}"
    for c in " \t()":
        if w.match(c):
            return f"\\w matches {c!r}"
    return None


# ---------------------------------------------------------------------------------------------
# random expressions
# ---------------------------------------------------------------------------------------------

def rand_ident(rng, pool):
    if pool and rng.random() < 0.75:
        return rng.choice(pool)
    n = rng.choice([1, 1, 2, 3, 5])
    chars = [rng.choice(WORDISH if rng.random() < 0.7 else EXTRA) for _ in range(n)]
    s = "".join(chars)
    if rng.random() < 0.15:
        s = rng.choice(KEYWORDS) + s          # keyword prefix: still an identifier
    if rng.random() < 0.1:
        s = s + rng.choice(KEYWORDS)
    if rng.random() < 0.08:
        s = rng.choice(["Or", "AND", "nOt", "True", "False", "None", "__import__", "not1", "or_", "and.x"])
    return "x" if s in KEYWORDS else s


def rand_tree(rng, depth, budget, pool):
    """Random derivation of the grammar as a symbol list (parentheses only where we choose; nesting ≤ depth)."""
    if budget[0] <= 1 or depth <= 0:
        budget[0] -= 1
        return [rand_ident(rng, pool)]
    r = rng.random()
    if r < 0.2:
        budget[0] -= 1
        return [rand_ident(rng, pool)]
    if r < 0.4:
        budget[0] -= 1
        return ["not"] + rand_tree(rng, depth - 1, budget, pool)
    if r < 0.62:
        budget[0] -= 2
        return ["("] + rand_tree(rng, depth - 1, budget, pool) + [")"]
    op = "and" if r < 0.81 else "or"
    budget[0] -= 1
    left = rand_tree(rng, depth - 1, budget, pool)
    right = rand_tree(rng, depth - 1, budget, pool)
    return left + [op] + right


def render(rng, syms):
    """Join symbols with blanks: mandatory between two word-like symbols, optional elsewhere; random leading/trailing."""
    out = []
    blank = lambda force: "".join(rng.choice(" \t") for _ in range(rng.choice([1, 1, 1, 2, 3]) if force or rng.random() < 0.3 else 0))  # noqa: E731
    out.append(blank(False))
    for i, s in enumerate(syms):
        if i:
            out.append(blank(syms[i - 1] not in "()" and s not in "()"))
        out.append(s)
    out.append(blank(False))
    return "".join(out)


def mutate(rng, syms):
    syms = list(syms)
    for _ in range(rng.choice([1, 1, 2])):
        k = rng.random()
        i = rng.randrange(len(syms) + 1)
        if k < 0.3 and syms:
            del syms[min(i, len(syms) - 1)]
        elif k < 0.6:
            syms.insert(i, rng.choice(["(", ")", "or", "and", "not", "a", rng.choice(OUTSIDE)]))
        elif k < 0.8 and len(syms) >= 2:
            j = min(i, len(syms) - 2)
            syms[j], syms[j + 1] = syms[j + 1], syms[j]
        else:
            syms.insert(i, rng.choice(OUTSIDE))
    return syms


def random_strings(rng, n):
    out = []
    for _ in range(n):
        pool = [rand_ident(rng, []) for _ in range(rng.randint(1, 5))]
        kind = rng.random()
        if kind < 0.15:
            # deep nesting: up to 25 levels of parentheses / not
            depth = rng.randint(5, 25)
            syms = [rand_ident(rng, pool)]
            for _ in range(depth):
                if rng.random() < 0.6:
                    syms = ["("] + syms + [")"]
                else:
                    syms = ["not"] + syms
                if rng.random() < 0.25 and len(syms) < 50:
                    syms = syms + [rng.choice(["and", "or"]), rand_ident(rng, pool)]
        else:
            syms = rand_tree(rng, rng.randint(1, 12), [rng.randint(1, 40)], pool)
        syms = syms[:60]
        if kind > 0.55:
            syms = mutate(rng, syms)
        if kind > 0.93:
            syms = [rng.choice(SYMBOLS_FULL + OUTSIDE + WORDISH) for _ in range(rng.randint(1, 30))]
            out.append("".join(syms) if rng.random() < 0.5 else render(rng, syms))
            continue
        out.append(render(rng, syms))
    return out


# ---------------------------------------------------------------------------------------------
# random tasks for the matchers
# ---------------------------------------------------------------------------------------------

NAME_PARTS = ["task", "Task", "TASK", "prepare", "Data", "fit", "Model", "plot", "İstanbul", "straße", "ΣΑΣ", "é", "x", "1", "2"]
MARKS = ["skip", "Slow", "slow", "persist", "try_first", "gpu", "GPU", "wip", "skipif", "m.x", "a-b"]
ATTRS = ["pytask_meta", "Custom", "custom_attr", "__wrapped__", "slowish", "X", "tag:1"]


def rand_task(rng):
    n = rng.randint(1, 3)
    base = "_".join(rng.choice(NAME_PARTS) for _ in range(n))
    style = rng.random()
    if style < 0.35:
        name = f"src/{rng.choice(['a', 'B', 'pkg.sub'])}/task_{base}.py::task_{base}"
    elif style < 0.55:
        name = f"task_{base}[{rng.choice(['0', 'A-1', 'x.y', 'data/in.csv', 'p+q'])}]"
    else:
        name = base
    return {"name": name,
            "attrs": sorted(set(rng.sample(ATTRS, rng.choice([0, 0, 1, 2])))),
            "markers": [rng.choice(MARKS) for _ in range(rng.choice([0, 1, 1, 2, 3]))]}


def rand_query(rng, tasks):
    """An expression over fragments of the tasks' names / markers / attributes (random case), some misses, some syntax errors."""
    frags = []
    for t in tasks:
        for s in [t["name"], *t["attrs"], *t["markers"]]:
            if not s:
                continue
            i = rng.randrange(len(s))
            j = rng.randint(i + 1, min(len(s), i + 6))
            frags.append(s[i:j])
            frags.append(s)
    frags += ["zzz", "slow", "SKIP", "task", "::", "[", "1]"]

    def atom():
        f = rng.choice(frags)
        f = "".join(c for c in f if c == "_" or c.isalnum() or c in ":+-.[]/\\") or "q"
        r = rng.random()
        if r < 0.25:
            f = f.upper()
        elif r < 0.5:
            f = f.lower()
        elif r < 0.6:
            f = f.swapcase()
        return "q" if f in KEYWORDS else f
    n = rng.choice([1, 1, 2, 2, 3])
    syms = []
    for i in range(n):
        if i:
            syms.append(rng.choice(["and", "or"]))
        if rng.random() < 0.3:
            syms.append("not")
        syms.append(atom())
    if rng.random() < 0.2:
        syms = ["not", "("] + syms + [")"]
    if rng.random() < 0.08:
        syms = mutate(rng, syms)
    return " ".join(syms) if rng.random() < 0.9 else render(rng, syms)


def random_task_cases(rng, n):
    cases = []
    for _ in range(n):
        tasks = [rand_task(rng) for _ in range(rng.randint(1, 6))]
        if len({t["name"] for t in tasks}) != len(tasks):
            continue
        queries = []
        for _ in range(rng.randint(2, 5)):
            queries.append([rng.choice(["k", "m", "after"]), rand_query(rng, tasks)])
        if rng.random() < 0.2:
            queries.append([rng.choice(["k", "m", "after"]), ""])
        probes = []
        for _ in range(rng.randint(1, 4)):
            t = rng.choice(tasks)
            s = rng.choice([t["name"], *t["attrs"], *t["markers"]])
            i = rng.randrange(len(s))
            sub = s[i:rng.randint(i + 1, len(s))]
            probes.append(rng.choice([sub, sub.upper(), sub.lower(), sub.swapcase(), s, s + "x"]))
        cases.append({"tasks": tasks, "queries": queries, "probes": probes})
    return cases


# ---------------------------------------------------------------------------------------------
# running
# ---------------------------------------------------------------------------------------------

def run_jobs(jobs, use_model: bool, max_workers: int = 12):
    drv = str(common.LEAN / ".lake" / "build" / "bin" / "driver") if use_model else None

    def one(job):
        job = dict(job, driver=drv)
        env = dict(os.environ, PYTHONHASHSEED="0")
        p = subprocess.run([common.PY, str(WORKER)], input=json.dumps(job), capture_output=True, text=True, env=env, cwd="/")
        if p.returncode != 0:
            raise common.InfraError(f"expr worker failed: {p.stderr[-800:]}")
        return json.loads(p.stdout)

    with ThreadPoolExecutor(max_workers=max_workers) as ex:
        return list(ex.map(one, jobs))


def merge(ctx, results, tag):
    for r in results:
        if r.get("selfcheck"):
            raise common.InfraError("harness self-check failed (selexpr.py vs expr_oracle.py, or an after-project child): " + r["selfcheck"][0])
        ctx.evaluations += r["n"]
        hx = r["hashes"]
        for i in range(0, len(hx), 16):
            ctx.nontrivial.add(hx[i:i + 16])
        for k, v in r["dist"].items():
            ctx.dist[f"{tag}:{k}"] += v
        ctx.traces_validated += r["validated"]
        for s in r["samples"]:
            if len(ctx.samples) < 6:
                ctx.samples.append(s)
        for v in r["violations"]:
            ctx.violation(v["what"], v["replay"], None)
        for d in r["disagreements"]:
            ctx.disagreement(d["what"], d["replay"])


def exhaustive_jobs(symbols, maxlen, target_jobs=24):
    """Split the set of all concatenations of ≤ maxlen symbols into jobs of equal size by symbol-index prefix."""
    import itertools
    k = len(symbols)
    p = 1
    while k ** p < target_jobs and p < maxlen:
        p += 1
    prefixes = [list(t) for t in itertools.product(range(k), repeat=p)]
    per = max(1, len(prefixes) // max(target_jobs, 1))
    jobs = []
    for i in range(0, len(prefixes), per):
        jobs.append({"kind": "exh", "symbols": symbols, "maxlen": maxlen, "prefixes": prefixes[i:i + per], "shorter": i == 0})
    return jobs


# ---------------------------------------------------------------------------------------------
# projects whose tasks carry `after="<expr>"` strings (several tasks sharing one string, self-matching declarers)
# ---------------------------------------------------------------------------------------------

STEMS = ["prep", "fit", "plot", "load", "clean", "sum", "Prep", "FIT"]
TAILS = ["a", "b", "c", "x1", "x2", "raw", "all", "A"]


def _after_names(rng, n):
    names = []
    while len(names) < n:
        k = rng.random()
        if k < 0.6:
            nm = f"task_{rng.choice(STEMS)}_{rng.choice(TAILS)}"
        elif k < 0.85:
            nm = f"task_{rng.choice(STEMS)}_{rng.choice(STEMS)}"
        else:
            nm = f"task_{rng.choice(STEMS)}"
        if nm.lower() not in {x.lower() for x in names}:
            names.append(nm)
    return names


def _after_expr(rng, names):
    """An expression over fragments of the task names (stems, tails, whole names), sometimes with operators."""
    def atom():
        nm = rng.choice(names)
        parts = nm.split("_")[1:]
        f = rng.choice(parts + [nm, "_".join(parts)])
        r = rng.random()
        return f.upper() if r < 0.15 else f.lower() if r < 0.4 else f
    r = rng.random()
    if r < 0.55:
        return atom()
    if r < 0.7:
        return f"{atom()} or {atom()}"
    if r < 0.8:
        return f"{atom()} and not {atom()}"
    if r < 0.9:
        return f"not {atom()}"
    if r < 0.95:
        return f"({atom()} or {atom()}) and {atom()}"
    return rng.choice(["", "prep and", "zzz", "a b"])


def random_after_project(rng, e2e=False):
    """Mostly projects whose after-relation is well-formed (judged on the bare names: the generator may use the evaluator it
    generates for), some cyclic / malformed ones."""
    from impl import expr_oracle
    for _ in range(8):
        tasks = _random_after_project(rng, e2e)
        kind, preds = expr_oracle.after_preds(tasks)
        if (kind == "ok" and any(preds)) or rng.random() < 0.12:
            break
    return tasks


def _random_after_project(rng, e2e=False):
    n = rng.randint(3, 6)
    names = _after_names(rng, n)
    tasks = [{"name": nm, "func": nm, "attrs": [], "markers": [], "after": None} for nm in names]
    # one expression shared by 2-4 tasks; prefer that it matches at least one of its declarers
    for _ in range(rng.choice([1, 1, 2])):
        e = _after_expr(rng, names)
        k = min(n, rng.randint(2, 4))
        decl = rng.sample(range(n), k)
        if rng.random() < 0.7:
            # make a declarer self-matching: pick a task whose name contains the first identifier, if any
            frag = e.split()[0].strip("()").lower() if e.split() else ""
            hits = [i for i, nm in enumerate(names) if frag and frag in nm.lower()]
            if hits and not set(hits) & set(decl):
                decl[0] = rng.choice(hits)
        for i in set(decl):
            tasks[i]["after"] = e
    # the others: a different expression, or none
    for t in tasks:
        if t["after"] is None and rng.random() < 0.35:
            t["after"] = _after_expr(rng, names)
    if not e2e:
        for t in tasks:
            if rng.random() < 0.2:
                t["markers"] = [rng.choice(["slow", "prep", "fit"])]
            if rng.random() < 0.1:
                t["attrs"] = [rng.choice(["Prep_helper", "custom"])]
            if rng.random() < 0.3:
                t["name"] = f"src/task_mod.py::{t['name']}"
    else:
        for t in tasks:
            t["try_first"] = t["after"] is not None and rng.random() < 0.6
    return tasks


def after_orders(rng, n, k):
    import itertools
    if n <= 3:
        return [list(p) for p in itertools.permutations(range(n))][:k]
    out = [list(range(n)), list(range(n - 1, -1, -1))]
    while len(out) < k:
        p = list(range(n))
        rng.shuffle(p)
        if p not in out:
            out.append(p)
    return out


def after_cases(rng, n):
    cases = []
    # the canonical shape of the class first: b and c share the string, b matches it itself
    cases.append({"tasks": [{"name": "task_prep_a", "attrs": [], "markers": [], "after": None},
                            {"name": "task_prep_b", "attrs": [], "markers": [], "after": "prep"},
                            {"name": "task_summary", "attrs": [], "markers": [], "after": "prep"}],
                  "orders": [[0, 1, 2], [2, 1, 0], [1, 2, 0], [1, 0, 2], [2, 0, 1], [0, 2, 1]]})
    for _ in range(n):
        tasks = random_after_project(rng)
        cases.append({"tasks": tasks, "orders": after_orders(rng, len(tasks), 6)})
    return cases


def after_e2e_cases(rng, n, nseeds):
    cases = []
    for k in range(n):
        tasks = random_after_project(rng, e2e=True)
        cases.append({"mod": f"p{k}", "tasks": tasks, "hashseeds": [rng.randrange(1, 4_000_000_000) for _ in range(nseeds)]})
    return cases


# ---------------------------------------------------------------------------------------------
# -k / -m at project level: expressions that are false for every task, true for every task, true for exactly one; both options
# ---------------------------------------------------------------------------------------------

def _clean_ident(f):
    f = "".join(c for c in f if c == "_" or c.isalnum() or c in ":+-.[]/\\") or "q"
    return "q" if f in KEYWORDS else f


def project_queries(rng, tasks, e2e=False):
    """(-k, -m) pairs for one project, by intended extent of the selection; the oracle decides what they really select."""
    names = [t["name"] for t in tasks]
    marks = sorted({m for t in tasks for m in t["markers"]})
    one = _clean_ident(rng.choice(names).split("::")[-1])
    other = _clean_ident(rng.choice(names).split("::")[-1])
    common = "task" if all("task" in n.lower() for n in names) else _clean_ident(names[0][:1])
    k_none = rng.choice(["zzz_no_such", "delta_q", f"{one} and not {one}", f"{one} and zzz", f"not {common}", "qqq or www"])
    k_all = rng.choice([common, f"{one} or not {one}", f"not zzz", f"{common} or zzz"])
    k_one = rng.choice([one, one.upper(), f"{one} and not zzz"])
    m_none = rng.choice(["nomark", "zz.y", f"{marks[0]} and not {marks[0]}" if marks else "nomark", "not not nomark"])
    m_all = rng.choice(["not nomark", f"{marks[0]} or not {marks[0]}" if marks else "not nomark"])
    m_some = rng.choice(marks) if marks else "slow"
    qs = [(k_none, ""), ("", m_none), (k_none, m_none), (k_all, m_none), (k_none, m_all), (k_all, ""), ("", m_all), (k_all, m_all),
          (k_one, ""), (k_one, m_all), (k_one, m_none), ("", m_some), (k_all, m_some), (k_none, m_some), (k_one, m_some), ("", ""),
          (f"{one} or {other}", ""), (f"{one} and {other}", ""), (f"not {one}", f"not {m_some}")]
    if not e2e:
        qs += [(rand_query(rng, tasks), rng.choice(["", m_some, m_none])) for _ in range(3)]
        qs += [("(", ""), ("", "a b"), (k_none, "and")]
        return [list(q) for q in qs]
    return [list(q) for q in rng.sample(qs, 3)] + [[k_none, ""], ["", m_none]]


def select_project_cases(rng, n):
    cases = []
    # canonical shapes of the class first
    base = [{"name": "task_alpha", "attrs": [], "markers": []}, {"name": "task_beta", "attrs": [], "markers": ["slow"]},
            {"name": "task_gamma", "attrs": [], "markers": []}]
    cases.append({"tasks": base, "queries": [["delta", ""], ["alpha and beta", ""], ["not task_", ""], ["", "fast"], ["alpha", "fast"],
                                             ["delta", "slow"], ["alpha", ""], ["", "slow"], ["task", "slow"], ["", ""]]})
    for _ in range(n):
        tasks = [rand_task(rng) for _ in range(rng.randint(1, 5))]
        if len({t["name"] for t in tasks}) != len(tasks):
            continue
        cases.append({"tasks": tasks, "queries": project_queries(rng, tasks)})
    return cases


E2E_MARKS = ["slow", "gpu", "wip"]


def select_e2e_cases(rng, n):
    """Projects for real builds with -k / -m; most have a task generator whose children (names / markers making the formulas true
    for some and false for others) only exist once the generator has run."""
    cases = []
    for k in range(n):
        names = _after_names(rng, rng.randint(1, 3))
        tasks = [{"func": nm, "name": nm, "attrs": [], "markers": sorted(set(rng.sample(E2E_MARKS, rng.choice([0, 0, 1, 2]))))} for nm in names]
        case = {"mod": f"s{k}", "tasks": tasks, "all_markers": E2E_MARKS, "hashseed": rng.randrange(1, 4_000_000_000)}
        if k == 0 or rng.random() < 0.7:
            tails = rng.sample(["alpha", "beta", "gamma", "delta"], rng.randint(2, 3))
            gm = sorted(set(rng.sample(E2E_MARKS, rng.choice([0, 1]))))
            children = [{"func": f"task_child_{t}", "markers": sorted(set(rng.sample(E2E_MARKS, rng.choice([0, 1, 1]))))} for t in tails]
            case["generator"] = {"func": "task_gen_main", "markers": gm, "children": children}
            one, other = tails[0], tails[-1]
            gmk = gm[0] if gm else "task"       # a marker expression under which the generator itself runs
            cm = next((c["markers"][0] for c in children if c["markers"]), "slow")
            qs = [[f"gen or {one}", ""], ["gen", ""], [f"gen or child and not {other}", ""], ["", f"{gmk} and not {cm}" if gmk != cm else gmk],
                  [f"gen or {one}", "task"], ["gen or child", f"{gmk} or {cm}"], [f"not {one}", ""], ["", ""], [f"{one}", ""]]
            static_q = project_queries(rng, tasks, e2e=True)
            case["queries"] = qs[:3] + [list(q) for q in rng.sample(qs[3:], 3)] + static_q[:1]
        else:
            case["queries"] = project_queries(rng, tasks, e2e=True)
        cases.append(case)
    return cases


def corpus_strings():
    """Hand-picked strings: documented examples, boundary cases of the alphabet and of keyword recognition."""
    return [
        "", " ", "\t \t", "a", " a ", "not a", "a or b", "a and b", "a or b and c", "a and b or c", "not a or b", "not a and b",
        "not (a or b)", "not not a", "(a)", "((a))", "(a or b) and c", "a or (b and c)", "a and (b or c)", "not(a)", "a and not b",
        "nota", "not_a", "ora", "or1", "and-x", "andy or orlando", "not nota", "a:b[1]/c\\d", "x-y", "a.b", "a+b", "a/b", "[a]", "a::b",
        ":", "::", ":a", "a:", "-", "+", ".", "/", "\\", "[", "]", "é", "é or a", "á", "a b", "a\nb", "a\rb", "a\x0bb", "a\x0cb",
        "a\u3000b", "a\u00a0b", "e\u0301", "$", "a $", "a b $", "a (b)", "(a) b", "a or", "or a", "a or or b", "and", "or", "not", "()", "(", ")", "(a",
        "a)", ")a(", "a and", "not and", "a not b", "a not", "(a or b", "a or b)", "True", "False", "None", "not True", "__class__",
        "a and b and c", "a or b or c", "not not not a", "a and not not b", "1", "1 or 2", "0", "a=b", "a,b", "a&b", "a|b", "a or b,",
        "OR", "a OR b", "a AND b", "NOT a", "Not a", "task_x[1-2]", "src/task_a.py::task_b", "a" * 50, "(" * 20 + "a" + ")" * 20,
        "not " * 25 + "a", "a" + " or b" * 25, "a" + " and b" * 25, "a\t\tor\t\tb", "\ta", "a\t", "((a) or (b)) and ((c))",
        "中 or あ", "٣", "②", "½", "ª", "𝒳 and a", "a𝒳$", "a €", "İ", "ǅ", "_", "_ or __", "a.b.c and d/e", "[1] or [2]", "\\d",
    ]
