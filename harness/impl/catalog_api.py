"""C20 campaign on the real DataCatalog / PickleNode / pytask.build vs the Lean model M9b + an independent oracle."""
from __future__ import annotations

import base64
import hashlib
import itertools
import json
import os
import pickle
import random
import re
import shutil
import subprocess
from concurrent.futures import ThreadPoolExecutor
from pathlib import Path

import common
from impl.catalog_canon import canon

HERE = Path(__file__).resolve().parent
WORKER = HERE / "catalog_worker.py"
BUILD_WORKER = HERE / "collect_build_worker.py"
CANON_SRC = (HERE / "catalog_canon.py").read_text()

# the documented alphabet — the oracle's own statement of the rule (independent of the code and of the model)
DOC = re.compile(r"[A-Za-z0-9_-]+")
SMALL_ALPHABET = ["a", "Z", "0", "-", "_", "/", ".", " ", "é", "\n"]
PYPROJECT = "[tool.pytask.ini_options]\n"


# entry names that are DIFFERENT strings but easy to identify by a lossy normalisation (unicode normal forms, compatibility
# characters, case, surrounding white space, separator spellings): different entries must never share a location
CONFUSABLE_ENTRIES = [
    ["\u00e9", "e\u0301"], ["\u00c5", "\u212b", "A\u030a"], ["\ufb01", "fi"], ["\u2460", "1"], ["\uff21", "A"],
    ["\uac00", "\u1100\u1161"], ["\u00f1", "n\u0303"], ["x", "x ", " x", "x\t", "x\n"], ["data", "Data", "DATA"],
    ["\u00df", "ss", "\u1e9e"], ["a/b", "a\\b", "a//b", "a/./b", "a/b/"], ["\u03a9", "\u2126"], ["\u0130", "i\u0307", "i"],
]


# how the top of a project is marked (config_utils.find_project_root_and_config): a pyproject.toml with / without the pytask
# section, a `.git` directory, a `.git` FILE (linked work tree, submodule), nothing at all
LAYOUTS = ["gitfile", "section", "gitdir", "nosection", "nothing"]
MARKED = {"gitfile", "section", "gitdir"}     # layouts in which the top is a stop for the root search


def doc_ok(name: str) -> bool:
    return DOC.fullmatch(name) is not None


def f5_shape(name: str) -> bool:
    """The F5 class: valid first character, but some character outside the documented alphabet."""
    return bool(name) and doc_ok(name[0]) and not doc_ok(name)


def cps(s: str) -> list[int]:
    return [ord(c) for c in s]


def fmt(cp: list[int]) -> str:
    return ",".join(map(str, cp))


# ---------------------------------------------------------------------------------------------
# generators
# ---------------------------------------------------------------------------------------------

def small_names(maxlen: int = 3):
    yield ""
    for k in range(1, maxlen + 1):
        for t in itertools.product(SMALL_ALPHABET, repeat=k):
            yield "".join(t)


def rand_unicode(rng, n: int) -> str:
    out = []
    for _ in range(n):
        r = rng.random()
        if r < 0.35:
            out.append(rng.choice("abcXYZ019-_"))
        elif r < 0.5:
            out.append(rng.choice("/\\. \t\n:~*?'\"[]{}$%"))
        elif r < 0.8:
            out.append(chr(rng.choice([rng.randrange(0xA0, 0x250), rng.randrange(0x370, 0x400), rng.randrange(0x4E00, 0x4F00),
                                       rng.randrange(0x1F600, 0x1F640), 0x130, 0x131, 0xDF, 0x212A, 0xFF21, 0x660])))
        else:
            c = rng.randrange(1, 0x2000)
            out.append(chr(c))
    return "".join(out)


def random_names(rng, n: int) -> list[str]:
    names: list[str] = []
    valid_chars = "abcdefghijklmnopqrstuvwxyzABCDEFGHIJKLMNOPQRSTUVWXYZ0123456789-_"
    while len(names) < n:
        kind = rng.choice(["long_ok", "long_ok", "too_long", "sep", "case", "uni", "uni", "first_ok", "first_bad", "valid", "dots", "nul"])
        if kind == "long_ok":
            names.append("".join(rng.choice(valid_chars) for _ in range(rng.choice([64, 200, 255]))))
        elif kind == "too_long":
            names.append("".join(rng.choice(valid_chars) for _ in range(rng.choice([256, 300, 5000]))))
        elif kind == "sep":
            parts = ["".join(rng.choice(valid_chars) for _ in range(rng.randint(1, 4))) for _ in range(rng.randint(2, 4))]
            names.append(rng.choice(["/", "//", "/./", "/../", "\\"]).join(parts))
        elif kind == "case":
            base = "".join(rng.choice("abcdefgh") for _ in range(rng.randint(1, 6)))
            names += [base, base.upper(), base.capitalize()]
        elif kind == "uni":
            names.append(rand_unicode(rng, rng.randint(1, 12)))
        elif kind == "first_ok":
            names.append(rng.choice(valid_chars) + rand_unicode(rng, rng.randint(1, 6)))
        elif kind == "first_bad":
            names.append(rng.choice("/. é\n~") + "".join(rng.choice(valid_chars) for _ in range(rng.randint(0, 5))))
        elif kind == "valid":
            names.append("".join(rng.choice(valid_chars) for _ in range(rng.randint(1, 12))))
        elif kind == "dots":
            names.append(rng.choice(["a/..", "a/../..", "b/../../x", "a/.", "..", ".", "a..b", "a/../a", "x/../y/../x"]))
        elif kind == "nul":
            names.append("a\x00b")
    return names


def random_entry_names(rng, n: int) -> list[str]:
    base = ["e", "E", "", " ", "a/b", "../x", "é", "e\n", "x" * 3000, "data.pkl", "0", "-node", "ǅ", "İ"]
    return base[: max(2, min(len(base), n // 2))] + [rand_unicode(rng, rng.randint(0, 20)) for _ in range(n)]


def random_value(rng, depth: int = 0):
    kinds = ["int", "bigint", "float", "special", "str", "bytes", "none", "bool", "complex"]
    if depth < 3:
        kinds += ["list", "tuple", "dict", "fset", "list", "dict"]
    k = rng.choice(kinds)
    if k == "int":
        return rng.randint(-1000, 1000)
    if k == "bigint":
        return rng.randint(-(1 << 200), 1 << 200)
    if k == "float":
        return rng.uniform(-1e6, 1e6) if rng.random() < 0.7 else rng.random() * 10.0 ** rng.randint(-300, 300)
    if k == "special":
        return rng.choice([float("nan"), float("inf"), float("-inf"), -0.0, 0.0, 5e-324, 1.7976931348623157e308])
    if k == "str":
        return rand_unicode(rng, rng.randint(0, 30))
    if k == "bytes":
        return bytes(rng.randrange(256) for _ in range(rng.randint(0, 40)))
    if k == "none":
        return None
    if k == "bool":
        return rng.random() < 0.5
    if k == "complex":
        return complex(rng.uniform(-5, 5), rng.uniform(-5, 5))
    if k == "list":
        return [random_value(rng, depth + 1) for _ in range(rng.randint(0, 4))]
    if k == "tuple":
        return tuple(random_value(rng, depth + 1) for _ in range(rng.randint(0, 4)))
    if k == "dict":
        return {rng.choice([rng.randint(0, 50), rand_unicode(rng, 3), (1, rng.randint(0, 9)), None]): random_value(rng, depth + 1)
                for _ in range(rng.randint(0, 4))}
    return frozenset(rng.randint(0, 100) for _ in range(rng.randint(0, 5)))


def twinnable_value(rng, depth: int = 0):
    """A value that has a Python-equal but different sibling (see `equal_twin`)."""
    kinds = ["small", "small", "int", "float_int", "zero", "bool", "complex"]
    if depth < 2:
        kinds += ["list", "tuple", "dict", "dict_order", "dict_key"]
    k = rng.choice(kinds)
    if k == "small":
        return rng.choice([0, 1])
    if k == "int":
        return rng.randint(-10**6, 10**6)
    if k == "float_int":
        return float(rng.randint(-1000, 1000))
    if k == "zero":
        return rng.choice([0.0, -0.0])
    if k == "bool":
        return rng.random() < 0.5
    if k == "complex":
        return complex(rng.randint(-5, 5), 0)
    if k == "list":
        return [random_value(rng, 2) for _ in range(rng.randint(0, 2))] + [twinnable_value(rng, depth + 1)]
    if k == "tuple":
        return (twinnable_value(rng, depth + 1), *[random_value(rng, 2) for _ in range(rng.randint(0, 2))])
    if k == "dict":
        return {"k": twinnable_value(rng, depth + 1), rand_unicode(rng, 2) + "_": random_value(rng, 2)}
    if k == "dict_order":
        return {key: rng.randint(0, 9) for key in rng.sample(["a", "b", "c", "d", 7, None], rng.randint(2, 4))}
    return {rng.choice([0, 1]): rand_unicode(rng, 3), "z": rng.randint(0, 9)}


def equal_twin(rng, v):
    """A value w with `w == v` in Python that is nevertheless a different value (other type, other sign of zero, other dict
    order): storing w over v must replace v. Returns v itself if it knows no such sibling."""
    if isinstance(v, bool):
        return rng.choice([int(v), float(v)])
    if isinstance(v, int):
        opts = [float(v), complex(v, 0)] if abs(v) < 2**53 else []
        if v in (0, 1):
            opts.append(bool(v))
        return rng.choice(opts) if opts else v
    if isinstance(v, float):
        if v == 0.0:
            return rng.choice([-v, 0, False]) if rng.random() < 0.7 else -v
        if v == v and abs(v) < 2**53 and v == int(v):
            return int(v)
        return v
    if isinstance(v, complex):
        return v.real if v.imag == 0 else v
    if isinstance(v, (list, tuple)):
        idx = [i for i, x in enumerate(v) if canon(equal_twin(random.Random(0), x)) != canon(x)]
        if not idx:
            return v
        i = rng.choice(idx)
        w = list(v)
        w[i] = equal_twin(rng, v[i])
        return type(v)(w)
    if isinstance(v, dict):
        items = list(v.items())
        if len(items) >= 2 and rng.random() < 0.6:
            return dict(reversed(items))
        for j, (k, x) in enumerate(items):
            kt = equal_twin(rng, k) if isinstance(k, (bool, int, float)) else k
            if canon(kt) != canon(k):
                items[j] = (kt, x)
                return dict(items)
            xt = equal_twin(rng, x)
            if canon(xt) != canon(x):
                items[j] = (k, xt)
                return dict(items)
        return dict(reversed(items)) if len(items) >= 2 else v
    return v


def twin_pair(rng):
    """(v, w): w == v, canon(w) != canon(v)."""
    for _ in range(50):
        v = twinnable_value(rng)
        w = equal_twin(rng, v)
        try:
            same = bool(w == v)
        except Exception:  # noqa: BLE001
            same = False
        if same and canon(w) != canon(v):
            return v, w
    return 1, True


def b64(v) -> str:
    return base64.b64encode(pickle.dumps(v, protocol=4)).decode()


# ---------------------------------------------------------------------------------------------
# running the real code
# ---------------------------------------------------------------------------------------------

def new_project(base: Path, name: str) -> Path:
    d = base / name
    d.mkdir(parents=True)
    (d / "pyproject.toml").write_text(PYPROJECT)
    return d.resolve()


def run_session(projects: list[dict], hashseed: int, timeout: int = 300) -> list[list[dict]]:
    env = dict(os.environ, PYTHONHASHSEED=str(hashseed), PYTHONPATH=str(HERE) + (":" + os.environ["PYTHONPATH"] if os.environ.get("PYTHONPATH") else ""))
    p = subprocess.run([common.PY, str(WORKER)], input=json.dumps({"projects": projects}), capture_output=True, text=True,
                       env=env, cwd="/", timeout=timeout)
    if p.returncode != 0:
        raise common.InfraError(f"catalog worker failed: {p.stderr[-800:]}")
    return json.loads(p.stdout)["results"]


def run_sessions_parallel(jobs: list[tuple[list[dict], int]]) -> list[list[list[dict]]]:
    with ThreadPoolExecutor(max_workers=min(16, max(1, len(jobs)))) as ex:
        return list(ex.map(lambda a: run_session(*a), jobs))


def run_build(paths: list[str], hashseed: int, out: Path, kwargs: dict | None = None, timeout: int = 180) -> dict:
    job = {"paths": paths, "kwargs": kwargs or {}, "out": str(out), "chdir": None}
    env = dict(os.environ, PYTHONHASHSEED=str(hashseed), COLUMNS="200")
    p = subprocess.run([common.PY, str(BUILD_WORKER), json.dumps(job)], stdout=subprocess.DEVNULL, stderr=subprocess.PIPE, text=True,
                       env=env, cwd="/", timeout=timeout)
    if p.returncode != 0 or not out.exists():
        raise common.InfraError(f"build worker failed (rc={p.returncode}): {p.stderr[-800:]}")
    res = json.loads(out.read_text())
    out.unlink()
    return res


def relnorm(path: str, root: Path) -> str:
    ap = path if os.path.isabs(path) else os.path.join(str(root), path)
    return os.path.normpath(ap)


# ---------------------------------------------------------------------------------------------
# part 1: names and locations
# ---------------------------------------------------------------------------------------------

def run_names(proj: Path, names: list[str], entries: list[str], hashseeds: list[int]) -> list[list[dict]]:
    """Construct DataCatalog(name=n) for every n and ask for the entries' nodes, once per hash seed, each time in a fresh
    interpreter (sequential: a later session re-opens what the earlier one persisted). Only runs the real code."""
    ops = [{"k": "make", "cat": cps(n), "entries": [cps(e) for e in entries]} for n in names]
    return [run_session([{"dir": str(proj), "ops": ops}], hs)[0] for hs in hashseeds]


def check_names(ctx, proj: Path, names: list[str], entries: list[str], hashseeds: list[int], label: str, model_rows: list,
                sessions: list | None = None):
    """Judge acceptance, stability over sessions and isolation of `run_names`' observations."""
    if sessions is None:
        sessions = run_names(proj, names, entries, hashseeds)
    first = sessions[0]
    where: dict[str, set] = {}
    dirs: dict[str, set] = {}
    for i, n in enumerate(names):
        r = first[i]
        out = r["out"]
        ok_doc = doc_ok(n)
        too_long = any(len(part.encode()) > 255 for part in n.split("/")) or len(n.encode()) > 3000
        accepted = out == "ok" or (out == "OSError")
        nontrivial = (len(n) >= 2 and ok_doc != doc_ok(n[:1])) or (ok_doc and len(n) >= 2) or f5_shape(n)
        ctx.case(["name", n], nontrivial, {"name": n, "outcome": out})
        ctx.dist[f"name:{'doc' if ok_doc else ('f5shape' if f5_shape(n) else 'bad')}:{out}"] += 1
        rep = {"kind": "name", "name": cps(n)}
        if out in ("other", "TypeError", "bad-op"):
            ctx.violation(f"name-crash: DataCatalog(name={n[:40]!r}) raised {r}", rep)
        elif out == "OSError" and not (ok_doc and too_long):
            if ok_doc:
                ctx.violation(f"name-oserror: documented name {n[:40]!r} fails with OSError errno={r.get('errno')}", rep)
            else:
                ctx.violation(f"name-accept: undocumented name {n[:40]!r} passed validation (then OSError)", rep,
                              finding="F5" if f5_shape(n) else None)
        elif accepted and not ok_doc:
            ctx.violation(f"name-accept: DataCatalog(name={n[:40]!r}) is accepted although it is outside [A-Za-z0-9_-]+", rep,
                          finding="F5" if f5_shape(n) else None)
        elif not accepted and ok_doc:
            ctx.violation(f"name-reject: documented name {n[:40]!r} is rejected ({out})", rep)
        # stability across sessions
        for k, ses in enumerate(sessions[1:], start=1):
            r2 = ses[i]
            if r2["out"] != out:
                ctx.violation(f"name-unstable: DataCatalog(name={n[:40]!r}) {out} in session 0 but {r2['out']} in session {k}", rep)
            elif out == "ok":
                if relnorm(r2["dir"], proj) != relnorm(r["dir"], proj) or [relnorm(p, proj) for p in r2["entries"]] != [relnorm(p, proj) for p in r["entries"]]:
                    ctx.violation(f"path-unstable: catalog {n[:40]!r}: entry paths differ between session 0 and session {k}",
                                  {"kind": "paths", "names": [cps(n)], "entries": [cps(e) for e in entries]})
        if out == "ok":
            dirs.setdefault(relnorm(r["dir"], proj), set()).add(n)
            for e, p in zip(entries, r["entries"]):
                where.setdefault(relnorm(p, proj), set()).add((n, e))
            model_rows.append((proj, n, entries, relnorm(r["dir"], proj), [relnorm(p, proj) for p in r["entries"]]))
        if "\x00" not in n and not (out == "OSError"):
            model_rows.append((proj, n, None, out == "ok", None))
    # isolation: different (catalog, entry) pairs never share a (normalised) location
    for loc, pairs in where.items():
        ctx.case(["loc", sorted(pairs)], len(pairs) > 0)
        if len(pairs) > 1:
            cats = sorted({c for c, _ in pairs})
            f5 = any(not doc_ok(c) for c in cats)
            ctx.violation(f"entry-shared: {len(pairs)} different (catalog, entry) pairs share one file, e.g. catalogs {cats[:3]!r}",
                          {"kind": "paths", "names": [cps(c) for c in cats], "entries": [cps(e) for e in sorted({e for _, e in pairs})]},
                          finding="F5" if f5 else None)
    for loc, cs in dirs.items():
        if len(cs) > 1 and all(doc_ok(c) for c in cs):
            ctx.violation(f"dir-shared: documented catalog names {sorted(cs)[:3]!r} share one directory",
                          {"kind": "paths", "names": [cps(c) for c in sorted(cs)], "entries": []})
    ctx.dist[f"{label}:names"] += len(names)


def compare_names_with_model(ctx, model_rows: list):
    if not (ctx.use_model and model_rows):
        return
    d = ctx.driver()
    lines, meta = [], []
    seen_sha = set()
    for proj, n, entries, a, b in model_rows:
        if entries is None:
            lines.append(f"catalog.valid name={fmt(cps(n))}")
            meta.append(("valid", n, a))
            continue
        root = ";".join(fmt(cps(c)) for c in Path(proj).parts[1:])
        for e, p in zip(entries, b):
            if e not in seen_sha:
                seen_sha.add(e)
                lines.append(f"catalog.sha e={fmt(cps(e))} d={fmt(cps(hashlib.sha256(e.encode()).hexdigest()))}")
                meta.append(("sha", e, None))
            lines.append(f"catalog.path root={root} cat={fmt(cps(n))} e={fmt(cps(e))}")
            meta.append(("path", (n, e), (p, a)))
    answers = driver_batch(d, lines)
    ctx.traces_validated += len(lines)
    for line, (kind, key, exp), ans in zip(lines, meta, answers):
        if kind == "sha":
            if ans != "ok":
                ctx.disagreement(f"driver refused {line[:80]}: {ans}", {"kind": "driver"})
        elif kind == "valid":
            m = re.match(r"valid=([01]) full=([01])", ans)
            if not m or (m.group(1) == "1") != exp:
                ctx.disagreement(f"validName: model says {ans!r}, DataCatalog(name={key[:40]!r}) {'accepted' if exp else 'rejected'}",
                                 {"kind": "name", "name": cps(key)})
        else:
            p, dirp = exp
            def comps(x):
                return ";".join(fmt(cps(c)) for c in Path(x).parts[1:])
            want = f"path={comps(p)} dir={comps(dirp)}"
            if ans != want:
                ctx.disagreement(f"entryPath: model {ans[:120]!r} vs real {want[:120]!r} for catalog {key[0][:30]!r}",
                                 {"kind": "paths", "names": [cps(key[0])], "entries": [cps(key[1])]})


# ---------------------------------------------------------------------------------------------
# part 2: save / load traces over several sessions (API level)
# ---------------------------------------------------------------------------------------------

def random_trace(rng, tid: int, with_f5: bool):
    valid_chars = "abcdefghijklmnopqrstuvwxyzABCDEFGHIJKLMNOPQRSTUVWXYZ0123456789-_"
    base = "".join(rng.choice("abcdef") for _ in range(rng.randint(1, 5)))
    cats = [base, base.upper(), base + "-" + rng.choice(valid_chars), "".join(rng.choice(valid_chars) for _ in range(rng.choice([1, 8, 200])))]
    if with_f5:
        cats += rng.choice([[f"zz/../{base}"], [f"{base}/.", f"{base}//x", f"{base}/x"], [base + "\n"], [base + " ", base + "."]])
    cats = list(dict.fromkeys(cats))
    if rng.random() < 0.3:
        cats.append(rng.choice(["/abs", ".hidden", "é", ""]))      # rejected names take part too
    entries = rng.sample(["x", "X", "", "a/b", "é", "\n", "x" * 500, rand_unicode(rng, 6), rand_unicode(rng, 12), "y"], rng.randint(2, 5))
    if rng.random() < 0.4:
        entries = list(dict.fromkeys(entries + rng.choice(CONFUSABLE_ENTRIES)))
    values = [random_value(rng) for _ in range(rng.randint(3, 8))]
    sessions = []
    for _ in range(rng.randint(2, 4)):
        ops = []
        for _ in range(rng.randint(2, 9)):
            c, e = rng.choice(cats), rng.choice(entries)
            if rng.random() < 0.5:
                ops.append({"k": "save", "cat": cps(c), "e": cps(e), "vi": rng.randrange(len(values))})
            else:
                ops.append({"k": "load", "cat": cps(c), "e": cps(e)})
        sessions.append(ops)
    # successive values that are Python-equal but different (1 / True / 1.0, 0.0 / -0.0, dict order) through ONE entry of a
    # documented catalog: once across a session boundary, once within a session — the later value must be what is loaded
    ntw = 0
    for where in ("across", "within"):
        if rng.random() < 0.75:
            v, w = twin_pair(rng)
            values += [v, w]
            iv, iw = len(values) - 2, len(values) - 1
            c, e = cps(rng.choice(cats[:3])), cps(rng.choice(entries))
            k = rng.randrange(len(sessions) - 1)
            if where == "across":
                sessions[k].append({"k": "save", "cat": c, "e": e, "vi": iv})
                sessions[k + 1][:0] = [{"k": "save", "cat": c, "e": e, "vi": iw}, {"k": "load", "cat": c, "e": e}]
            else:
                sessions[k] += [{"k": "save", "cat": c, "e": e, "vi": iv}, {"k": "save", "cat": c, "e": e, "vi": iw},
                                {"k": "load", "cat": c, "e": e}]
                sessions[k + 1].append({"k": "load", "cat": c, "e": e})
            ntw += 1
    # a mutable value loaded several times in one session (the worker modifies every loaded object in place afterwards) and
    # again in the next session
    if rng.random() < 0.75:
        values.append(rng.choice([[3, 1, 2], {"k": [1, 2]}, [random_value(rng, 2), [random_value(rng, 2)]], ([1], {"a": {}})]))
        c, e = cps(rng.choice(cats[:3])), cps(rng.choice(entries))
        k = rng.randrange(len(sessions) - 1)
        sessions[k] += [{"k": "save", "cat": c, "e": e, "vi": len(values) - 1}] + [{"k": "load", "cat": c, "e": e}] * 3
        sessions[k + 1][:0] = [{"k": "load", "cat": c, "e": e}] * 2
    return {"id": f"t{tid}", "cats": [cps(c) for c in cats], "values_b64": [b64(v) for v in values], "sessions": sessions, "f5": with_f5,
            "twins": ntw}


def s_of(cp):
    return "".join(chr(c) for c in cp)


def driver_batch(d, lines: list[str]) -> list[str]:
    """`Driver.batch` in chunks of at most ~32 kB (or one line): long names make long lines, and writing more than a pipe
    buffer while the driver is blocked on its own full output pipe would dead-lock."""
    out: list[str] = []
    chunk: list[str] = []
    size = 0
    for ln in lines:
        if chunk and size + len(ln) + 1 > 32768:
            out += d.batch(chunk)
            chunk, size = [], 0
        chunk.append(ln)
        size += len(ln) + 1
    if chunk:
        out += d.batch(chunk)
    return out


def run_traces(ctx, base: Path, traces: list[dict], hashseeds: list[int]):
    """Session k of every trace runs in one fresh process (k-th process); returns per trace the list of results per session."""
    projs = {t["id"]: new_project(base, "tr_" + t["id"]) for t in traces}
    results = {t["id"]: [] for t in traces}
    maxs = max(len(t["sessions"]) for t in traces)
    nchunks = 8
    for k in range(maxs):
        live = [t for t in traces if k < len(t["sessions"])]
        chunks = [live[i::nchunks] for i in range(nchunks)]
        jobs = []
        for ci, ch in enumerate(chunks):
            if not ch:
                continue
            projects = [{"dir": str(projs[t["id"]]),
                         "ops": [dict(op, v=t["values_b64"][op["vi"]]) if op["k"] == "save" else op for op in t["sessions"][k]]} for t in ch]
            jobs.append((projects, hashseeds[(k + ci) % len(hashseeds)]))
        outs = run_sessions_parallel(jobs)
        ji = 0
        for ch in chunks:
            if not ch:
                continue
            for t, r in zip(ch, outs[ji]):
                results[t["id"]].append(r)
            ji += 1
    return projs, results


def check_trace(ctx, t: dict, proj: Path, res: list[list[dict]]):
    vals = [pickle.loads(base64.b64decode(b)) for b in t["values_b64"]]
    canons = [canon(v) for v in vals]
    last: dict[tuple, int] = {}
    names = {s_of(c) for c in t["cats"]}
    only_doc = all(doc_ok(n) for n in names if n and doc_ok(n[:1]))   # accepted-by-first-char names all documented?
    nloads = nhit = 0
    model_lines = [f"catalog.reset root={';'.join(fmt(cps(c)) for c in Path(proj).parts[1:])}"]
    model_expect = [None]
    shas = set()
    for k, (ops, rs) in enumerate(zip(t["sessions"], res)):
        if k > 0:
            model_lines.append("catalog.op k=new")
            model_expect.append("done")
        for op, r in zip(ops, rs):
            c, e = s_of(op["cat"]), s_of(op["e"])
            rep = {"kind": "trace", "trace": t}
            if e not in shas:
                shas.add(e)
                model_lines.append(f"catalog.sha e={fmt(cps(e))} d={fmt(cps(hashlib.sha256(e.encode()).hexdigest()))}")
                model_expect.append("ok")
            if r["out"] in ("ValueError",):
                if doc_ok(c):
                    ctx.violation(f"name-reject: documented name {c[:40]!r} is rejected", rep)
                model_lines.append(f"catalog.op k={op['k']} cat={fmt(op['cat'])} e={fmt(op['e'])} v={op.get('vi', 0)}")
                model_expect.append("rejected")
                continue
            if r["out"] in ("other", "TypeError", "OSError", "bad-op"):
                ctx.violation(f"catalog-crash: {op['k']} on catalog {c[:30]!r} entry {e[:30]!r} raised {r}", rep,
                              finding="F5" if (not only_doc and r["out"] == "OSError") else None)
                return
            if op["k"] == "save":
                last[(c, e)] = op["vi"]
                model_lines.append(f"catalog.op k=save cat={fmt(op['cat'])} e={fmt(op['e'])} v={op['vi']}")
                model_expect.append("done")
            else:
                nloads += 1
                want = last.get((c, e))
                got = r.get("canon") if r["out"] == "loaded" else None
                if want is not None:
                    nhit += 1
                if (want is None and r["out"] != "missing") or (want is not None and got != canons[want]):
                    ctx.violation(
                        f"roundtrip: load of ({c[:30]!r}, {e[:30]!r}) in session {k} returned {str(got)[:60]!r}, the last value saved "
                        f"through that entry was {('nothing' if want is None else canons[want][:60])!r}", rep,
                        finding=None if only_doc else "F5")
                # the model is told which value index came back (by canonical text; -1 = unknown value)
                idx = "none" if r["out"] == "missing" else next((str(i) for i, cn in enumerate(canons) if cn == got), "?")
                model_lines.append(f"catalog.op k=load cat={fmt(op['cat'])} e={fmt(op['e'])}")
                model_expect.append(f"loaded={idx}")
    ctx.case(["trace", t["cats"], t["sessions"], t["values_b64"]], nhit >= 1 and len(t["sessions"]) >= 2,
             {"catalogs": sorted(names)[:4], "sessions": len(t["sessions"]), "loads": nloads})
    ctx.dist[f"trace:loads_with_prior_save={min(nhit, 5)}"] += 1
    ctx.dist["trace:equal_but_different_resaves"] += t.get("twins", 0)
    if ctx.use_model:
        d = ctx.driver()
        ans = driver_batch(d, model_lines)
        ctx.traces_validated += 1
        for ln, ex, an in zip(model_lines, model_expect, ans):
            if ex is None:
                continue
            if ex.startswith("loaded="):
                # values with equal canonical text are the same value for the model
                exi = ex.split("=")[1]
                ani = an.split("=")[1] if an.startswith("loaded=") else an
                same = exi == ani or (exi.isdigit() and ani.isdigit() and canons[int(exi)] == canons[int(ani)])
                if not same:
                    ctx.disagreement(f"catalog trace: model answers {an!r}, implementation {ex!r} at {ln[:80]!r}", {"kind": "trace", "trace": t})
                    break
            elif an != ex:
                ctx.disagreement(f"catalog trace: model answers {an!r}, implementation {ex!r} at {ln[:80]!r}", {"kind": "trace", "trace": t})
                break


# ---------------------------------------------------------------------------------------------
# part 3: end to end — values travel from producing to consuming tasks, same and later builds
# ---------------------------------------------------------------------------------------------

MODULE_HEAD = '''\
import base64, json, pickle
from pathlib import Path
from typing import Annotated
from pytask import DataCatalog, Product, task

{canon_src}

LOG = Path({log!r})
def _log(rec):
    with open(LOG, "a") as f:
        f.write(json.dumps(rec) + "\\n")

def _s(cp):
    return "".join(chr(c) for c in cp)

CATS = {{tuple(cp): DataCatalog(name=_s(cp)) for cp in {cats!r}}}
'''

PRODUCERS = '''\
for _tag, _cat, _entry, _b64 in {specs!r}:
    def _make(tag=_tag, cat=_cat, entry=_entry, b=_b64):
        @task(id=tag, produces=CATS[tuple(cat)][_s(entry)])
        def produce():
            v = pickle.loads(base64.b64decode(b))
            _log({{"k": "prod", "tag": tag, "cat": cat, "entry": entry, "canon": canon(v)}})
            return v
    _make()
'''

CONSUMERS = '''\
for _tag, _cat, _entry in {specs!r}:
    def _make(tag=_tag, cat=_cat, entry=_entry):
        @task(id=tag, kwargs={{"x": CATS[tuple(cat)][_s(entry)]}})
        def consume(x, out: Annotated[Path, Product] = Path(__file__).parent / ("out_" + tag + ".txt")):
            _log({{"k": "cons", "tag": tag, "cat": cat, "entry": entry, "canon": canon(x)}})
            scramble(x)      # this task's copy; other dependents must still receive the value as returned
            out.write_text("done")
    _make()
'''


# one task returning SEVERAL values into several entries of one catalog (multi-leaf `produces`), optionally with a provisional
# entry (a DirectoryNode registered with catalog.add) at some position of the tuple; every ordinary entry must get ITS value
MULTI = '''\
from pytask import DirectoryNode
_M = @@SPEC@@
_mc = CATS[tuple(_M["cat"])]
_nodes = [_mc[_s(e)] for e in _M["entries"]]
for _j, _pos in enumerate(_M["prov"]):
    _mc.add("files%d_" % _j + _M["tag"], DirectoryNode(root_dir=Path(__file__).parent / ("dir%d_" % _j + _M["tag"]), pattern="*.txt"))
    _nodes.insert(_pos, _mc["files%d_" % _j + _M["tag"]])

@task(id=_M["tag"], produces=tuple(_nodes))
def produce_many():
    vals = [pickle.loads(base64.b64decode(b)) for b in _M["values"]]
    for e, v in zip(_M["entries"], vals):
        _log({"k": "prod", "tag": _M["tag"], "cat": _M["cat"], "entry": e, "canon": canon(v)})
    for j, pos in enumerate(_M["prov"]):
        d = Path(__file__).parent / ("dir%d_" % j + _M["tag"])
        d.mkdir(exist_ok=True)
        (d / "f.txt").write_text("x")
        vals.insert(pos, None)
    return tuple(vals)
'''

# a catalog whose entries live in memory (default_node=PythonNode): values travel within ONE build; dependents take several
# entries inside ONE container argument (dict / list / tuple / nested), also mixed with plain values
MEMCAT = '''\
from pytask import DataCatalog, PythonNode
NAME = @@NAME@@
MEM = DataCatalog(name="".join(chr(c) for c in NAME), default_node=PythonNode)
'''

MEM_IMPORT = '''\
import sys
sys.path.insert(0, str(Path(__file__).parent))
from memcat import MEM, NAME as _MEMNAME      # ONE catalog object shared by all task modules (its entries live in memory)
'''

MEMPROD = MEM_IMPORT + '''\
for _tag, _entry, _b64 in @@PRODS@@:
    def _make(tag=_tag, entry=_entry, b=_b64):
        @task(id=tag, produces=MEM[_s(entry)])
        def produce_mem():
            # the producer's source never changes; what it returns depends on the build (a counter file that is not a declared input)
            v = (int((Path(__file__).parent / "build_no.txt").read_text()), pickle.loads(base64.b64decode(b)))
            _log({"k": "prod", "tag": tag, "cat": _MEMNAME, "entry": entry, "canon": canon(v)})
            return v
    _make()


'''

MEMCONS = MEM_IMPORT + '''\
def _build(shape, slots):
    items = [MEM[_s(x)] if k == "e" else pickle.loads(base64.b64decode(x)) for k, x in slots]
    if shape == "list":
        return items
    if shape == "tuple":
        return tuple(items)
    if shape == "dict":
        return {"k%d" % i: it for i, it in enumerate(items)}
    return {"in": [items[0], tuple(items[1:])], "n": 0}      # nested; one extra plain leaf at the end


def _unbuild(shape, data, n):
    """the leaves of the received argument in declaration order (by the DECLARED shape: received values may be containers)"""
    try:
        if shape in ("list", "tuple"):
            return list(data) if isinstance(data, (list, tuple)) else None
        if shape == "dict":
            return [data["k%d" % i] for i in range(n)] if isinstance(data, dict) and len(data) == n else None
        first, rest = data["in"]
        return [first, *rest, data["n"]]
    except Exception:
        return None


for _tag, _shape, _slots in @@CONS@@:
    def _make(tag=_tag, shape=_shape, slots=_slots):
        @task(id=tag, kwargs={"data": _build(shape, slots)})
        def consume_many(data, out: Annotated[Path, Product] = Path(__file__).parent / ("out_" + tag + ".txt")):
            flat = _unbuild(shape, data, len(slots))
            _log({"k": "shape", "tag": tag, "n": -1 if flat is None else len(flat), "want": len(slots) + (1 if shape == "nested" else 0)})
            flat = flat or []
            for (k, x), got in zip(slots, flat):
                if k == "e":
                    _log({"k": "cons", "tag": tag, "cat": _MEMNAME, "entry": x, "canon": canon(got)})
                else:
                    _log({"k": "plain", "tag": tag, "want": canon(pickle.loads(base64.b64decode(x))), "canon": canon(got)})
            out.write_text("done")
    _make()
'''

# entries registered with a node whose path is RELATIVE, used by task modules of different directories through ONE catalog
# object: every task must agree on one location per entry, and the value returned must be the value received
RELCAT = '''\
from pathlib import Path
from pytask import DataCatalog, PathNode, PickleNode
NAME = @@NAME@@
CAT = DataCatalog(name="".join(chr(c) for c in NAME))
for _entry, _kind, _rel in @@ENTRIES@@:
    if _kind == "pickle":
        CAT.add(_entry, PickleNode(name=_entry, path=Path(_rel)))
    elif _kind == "pathnode":
        CAT.add(_entry, PathNode(name=_entry, path=Path(_rel)))
    else:
        CAT.add(_entry, Path(_rel))
'''

REL_IMPORT = '''\
import os, sys
sys.path.insert(0, @@TOP@@)
from relcat import CAT, NAME as _RELNAME
'''

RELPROD = REL_IMPORT + '''\
for _tag, _entry, _kind, _b64 in @@PRODS@@:
    def _make(tag=_tag, entry=_entry, kind=_kind, b=_b64):
        @task(id=tag, produces=CAT[entry])
        def produce_rel():
            v = pickle.loads(base64.b64decode(b))
            _log({"k": "prod", "tag": tag, "cat": _RELNAME, "entry": [ord(c) for c in entry], "canon": canon(v)})
            return v
    _make()
'''

RELCONS = REL_IMPORT + '''\
for _tag, _entry, _kind in @@CONS@@:
    def _make(tag=_tag, entry=_entry, kind=_kind):
        @task(id=tag, kwargs={"x": CAT[entry]})
        def consume_rel(x, out: Annotated[Path, Product] = Path(__file__).parent / ("out_" + tag + ".txt")):
            if kind != "pickle":        # a path node hands over its path: the value is the text stored there
                _log({"k": "eloc", "tag": tag, "cat": _RELNAME, "entry": [ord(c) for c in entry], "path": os.path.normpath(os.fspath(x))})
                x = Path(x).read_text() if Path(x).exists() else "<missing file>"
            _log({"k": "cons", "tag": tag, "cat": _RELNAME, "entry": [ord(c) for c in entry], "canon": canon(x)})
            out.write_text("done")
    _make()
'''

# where a module's catalogs store their files (logged when the module is imported)
LOC = '''\
import os
for _c, _o in CATS.items():
    _log({"k": "loc", "cat": list(_c), "path": os.path.normpath(os.fspath(_o.path)), "dir": os.path.dirname(os.path.abspath(__file__))})
'''


def write_module(path: Path, log: Path, cats, producers=None, consumers=None, multi=None, memprod=None, memcons=None, loc=False,
                 comment: str = "", relprod=None, relcons=None, top: str = ""):
    src = MODULE_HEAD.format(canon_src=CANON_SRC, log=str(log), cats=cats)
    if producers:
        src += PRODUCERS.format(specs=producers)
    if consumers:
        src += CONSUMERS.format(specs=consumers)
    if multi:
        src += MULTI.replace("@@SPEC@@", repr(multi))
    if memprod:
        src += MEMPROD.replace("@@PRODS@@", repr(memprod))
    if memcons:
        src += MEMCONS.replace("@@CONS@@", repr(memcons))
    if relprod:
        src += RELPROD.replace("@@TOP@@", repr(top)).replace("@@PRODS@@", repr(relprod))
    if relcons:
        src += RELCONS.replace("@@TOP@@", repr(top)).replace("@@CONS@@", repr(relcons))
    if loc:
        src += LOC
    src = comment + src
    path.parent.mkdir(parents=True, exist_ok=True)
    path.write_text(src)


def random_e2e(rng, pid: int, f5: bool):
    valid_chars = "abcdefghijklmnopqrstuvwxyzABCDEFGHIJKLMNOPQRSTUVWXYZ0123456789-_"
    base = "".join(rng.choice("abcdef") for _ in range(rng.randint(1, 4)))
    cats = [base, base.upper(), "".join(rng.choice(valid_chars) for _ in range(rng.choice([3, 30, 120])))]
    if f5:
        cats = [base, f"q/../{base}"]
    entries = rng.sample(["x", "X", "", "a/b", "é", "val ue", "x" * 300, "ünï", "y.pkl", "0"], 2 if f5 else rng.randint(2, 4))
    if not f5 and rng.random() < 0.35:
        entries = rng.choice(CONFUSABLE_ENTRIES)[:3]
    pairs = [(c, e) for c in cats for e in entries]
    rng.shuffle(pairs)
    pairs = pairs[: (4 if f5 else rng.randint(3, 7))]
    v1, v2 = [], []
    for _ in pairs:
        if rng.random() < 0.5:          # build 3 returns a value that is == the stored one but a different value
            a, b = twin_pair(rng)
        else:
            a, b = random_value(rng), random_value(rng)
        v1.append(b64(a))
        v2.append(b64(b))
    # one producer with a multi-leaf return over 1-3 fresh entries of one catalog, with 0-2 provisional entries in between
    m_entries = [f"m{j}" + rng.choice(["", " ", "é"]) for j in range(rng.randint(1, 3))]
    nprov = rng.choice([0, 1, 1, 1, 2])
    multi = {"tag": "pm", "cat": cps(cats[0]), "entries": [cps(e) for e in m_entries],
             "prov": sorted(rng.randint(0, len(m_entries)) for _ in range(nprov)),      # insert positions, applied left to right
             "values": [b64(random_value(rng)) for _ in m_entries]}
    # an in-memory catalog: producers into single entries, dependents taking several entries in one container argument
    mem_entries = [rng.choice(["a", "b", "A", "é", "x y", ""]) + str(j) for j in range(rng.randint(2, 4))]
    plain = lambda: b64(rng.choice([rng.randint(-9, 9), rand_unicode(rng, 4), None, rng.random(), True]))   # noqa: E731
    cons = []
    for j in range(rng.randint(2, 3)):
        shape = rng.choice(["dict", "list", "tuple", "nested"])
        k_e = rng.randint(2, len(mem_entries))
        slots = [["e", cps(e)] for e in rng.sample(mem_entries, k_e)]
        if rng.random() < 0.5:         # mixed with plain values
            for _ in range(rng.randint(1, 2)):
                slots.insert(rng.randint(0, len(slots)), ["v", plain()])
        cons.append([f"cm{j}", shape, slots])
    cons.append(["cm_single", "list", [["e", cps(mem_entries[0])]]])
    memory = {"name": cps("mem-" + base), "prods": [[f"pmem{j}", cps(e), b64(random_value(rng))] for j, e in enumerate(mem_entries)],
              "cons": cons, "hashseed": rng.randrange(1, 1 << 16)}
    memory["redo"] = sorted(rng.sample(range(len(cons)), rng.randint(1, len(cons) - 1)))   # dependents whose product is deleted before build 2
    memory["late"] = ["cm_late", rng.choice(["list", "dict"]), [["e", cps(e)] for e in rng.sample(mem_entries, 2)]]
    memory["hashseeds"] = [rng.randrange(1, 1 << 16) for _ in range(3)]
    # the same catalog name constructed in modules of DIFFERENT directories, under different ways of marking the project's top
    lay_entries = rng.sample(["x", "y z", "é", "", "k.pkl"], 2)
    layout = {"kind": LAYOUTS[pid % len(LAYOUTS)], "cat": cps("shared-" + base), "entries": [cps(e) for e in lay_entries],
              "values": [b64(random_value(rng)) for _ in lay_entries], "hashseeds": [rng.randrange(1, 1 << 16) for _ in range(2)]}
    # entries registered with relative-path nodes (PickleNode / PathNode / a plain relative Path), producer and dependents in
    # modules of different directories, old files lying at every location a per-directory resolution would pick
    kinds = ["pickle", "pathnode", "plain"]
    rng.shuffle(kinds)
    rel_entries = []
    for j, kind in enumerate(kinds[: rng.randint(2, 3)]):
        rel = rng.choice(["", "store/", "deep/er/"]) + f"r{j}" + (".pkl" if kind == "pickle" else ".txt")
        val = random_value(rng) if kind == "pickle" else rand_unicode(rng, rng.randint(1, 12)) + "!"
        rel_entries.append([f"rel{j}" + rng.choice(["", " x", "é"]), kind, rel, b64(val)])
    relnode = {"cat": cps("rel-" + base), "entries": rel_entries, "hashseeds": [rng.randrange(1, 1 << 16) for _ in range(2)],
               "dirs": rng.sample(["train", "evaluate/deep", "a_first", "m/n"], 2)}
    return {"id": f"e{pid}", "cats": [cps(c) for c in cats], "pairs": [[cps(c), cps(e)] for c, e in pairs],
            "v1": v1, "v2": v2, "multi": None if f5 else multi, "relnode": None if f5 or pid % 8 not in (1, 3, 6) else relnode,
            # budget: of every 8 cases 6 carry the in-memory history and 5 the layout history (one per way of marking the top)
            "memory": None if f5 or pid % 8 >= 6 else memory, "layout": None if f5 or pid % 8 >= 5 else layout,
            "hashseeds": [rng.randrange(1, 1 << 16) for _ in range(3)], "f5": f5, "split": rng.randint(1, max(1, len(pairs) - 1))}


def _read_log(log: Path, done: int) -> list[dict]:
    lines = [json.loads(l) for l in log.read_text().splitlines()] if log.exists() else []
    return lines[done:]


def run_main_history(base: Path, case: dict):
    """3 builds in fresh processes: (1) producers A,B (+ one multi-leaf producer) + consumers; (2) + late consumers in a
    sub-directory module; (3) module B re-written with new values + more consumers."""
    proj = new_project(base, "e2e_" + case["id"])
    log = proj / "log.jsonl"
    cats, k = case["cats"], case["split"]
    multi = case.get("multi")
    pairs = case["pairs"]
    allpairs = pairs + ([[multi["cat"], e] for e in multi["entries"]] if multi else [])    # every ordinary entry gets dependents
    specA = [[f"pa{i}", c, e, case["v1"][i]] for i, (c, e) in enumerate(pairs[:k])]
    specB = [[f"pb{i}", c, e, case["v1"][k + i]] for i, (c, e) in enumerate(pairs[k:])]
    cons1 = [[f"c1_{i}", c, e] for i, (c, e) in enumerate(allpairs)]
    write_module(proj / "task_a.py", log, cats, producers=specA, multi=multi)
    write_module(proj / "task_b.py", log, cats, producers=specB, consumers=cons1[::2])
    # every second entry has two dependents in the first build (task_b and task_c), each modifying its own copy
    write_module(proj / "task_c.py", log, cats, consumers=cons1[1::2] + [[f"d1_{i}", c, e] for i, (c, e) in enumerate(allpairs)][::2])
    builds, logs = [], []

    def build(i):
        r = run_build([str(proj)], case["hashseeds"][i], proj / f"res{i}.json")
        r["label"] = f"main{i}"
        builds.append(r)
        logs.append(_read_log(log, sum(len(x) for x in logs)))

    build(0)
    write_module(proj / "sub" / "task_late.py", log, cats, consumers=[[f"c2_{i}", c, e] for i, (c, e) in enumerate(allpairs)])
    build(1)
    specB2 = [[f"pb{i}", c, e, case["v2"][k + i]] for i, (c, e) in enumerate(pairs[k:])]
    write_module(proj / "task_b.py", log, cats, producers=specB2, consumers=cons1[::2])
    write_module(proj / "task_z.py", log, cats, consumers=[[f"c3_{i}", c, e] for i, (c, e) in enumerate(allpairs)])
    build(2)
    return builds, logs


def run_memory_history(base: Path, case: dict):
    """The in-memory catalog over 3 builds (fresh interpreters). The producers' module is never touched; before build 2 the
    products of some dependents are deleted, before build 3 the dependents' module is edited and gets one more dependent."""
    memory = case["memory"]
    proj = new_project(base, "e2e_mem_" + case["id"])
    log = proj / "log.jsonl"
    (proj / "memcat.py").write_text(MEMCAT.replace("@@NAME@@", repr(memory["name"])))
    write_module(proj / "task_memprod.py", log, [], memprod=memory["prods"])
    write_module(proj / "task_memcons.py", log, [], memcons=memory["cons"])
    builds, logs = [], []

    def build(i):
        (proj / "build_no.txt").write_text(str(i))
        r = run_build([str(proj)], memory["hashseeds"][i], proj / f"res{i}.json")
        r["label"] = f"mem{i}"
        builds.append(r)
        logs.append(_read_log(log, sum(len(x) for x in logs)))

    build(0)
    for j in memory["redo"]:
        (proj / f"out_{memory['cons'][j][0]}.txt").unlink(missing_ok=True)
    build(1)
    write_module(proj / "task_memcons.py", log, [], memcons=memory["cons"] + [memory["late"]], comment="# edited before the third build\n")
    build(2)
    return builds, logs


def run_layout_history(base: Path, case: dict):
    """One catalog name constructed in modules of different directories; 2 builds (the second adds a dependent elsewhere)."""
    lay = case["layout"]
    top = (base / ("e2e_lay_" + case["id"])).resolve()
    top.mkdir(parents=True)
    kind = lay["kind"]
    if kind == "section":
        (top / "pyproject.toml").write_text(PYPROJECT)
    elif kind == "nosection":
        (top / "pyproject.toml").write_text("[tool.other]\nx = 1\n")
    elif kind == "gitdir":
        (top / ".git").mkdir()
    elif kind == "gitfile":
        (top / ".git").write_text("gitdir: /nonexistent/repo/.git/worktrees/wt\n")
    # without a marker a catalog is rooted at the directory of the module that constructs it: all its users share one directory
    dirs = ["pkg_a", "pkg_b/deep", ".", "pkg_c"] if kind in MARKED else ["pkg_a"] * 4
    log = top / "log.jsonl"
    cat = lay["cat"]
    prods = [[f"lp{i}", cat, e, v] for i, (e, v) in enumerate(zip(lay["entries"], lay["values"]))]
    cons = lambda t: [[f"{t}{i}", cat, e] for i, e in enumerate(lay["entries"])]   # noqa: E731
    write_module(top / dirs[0] / "task_prod.py", log, [cat], producers=prods, loc=True)
    write_module(top / dirs[1] / "task_cons.py", log, [cat], consumers=cons("lc"), loc=True)
    write_module(top / dirs[2] / "task_top.py", log, [cat], consumers=cons("lt"), loc=True)
    builds, logs = [], []

    def build(i):
        r = run_build([str(top)], lay["hashseeds"][i], top / f"res{i}.json")
        r["label"] = f"lay{i}"
        builds.append(r)
        logs.append(_read_log(log, sum(len(x) for x in logs)))

    build(0)
    write_module(top / dirs[3] / "task_late.py", log, [cat], consumers=cons("ll"), loc=True)
    build(1)
    return builds, logs


def run_relnode_history(base: Path, case: dict):
    """2 builds: producers in one directory, dependents in another; the second build adds dependents in a third directory
    (sorted last, so that the order in which modules are collected does not change)."""
    rel = case["relnode"]
    top = new_project(base, "e2e_rel_" + case["id"])
    log = top / "log.jsonl"
    (top / "relcat.py").write_text(RELCAT.replace("@@NAME@@", repr(rel["cat"]))
                                   .replace("@@ENTRIES@@", repr([[e, k, r] for e, k, r, _ in rel["entries"]])))
    d_prod, d_cons, d_late = rel["dirs"][0], rel["dirs"][1], rel.get("late_dir", "zz_late")
    cand = {e: [top / d / r for d in (d_prod, d_cons, d_late, ".")] for e, k, r, _ in rel["entries"]}

    def stamps():
        return {e: {str(f): (f.stat().st_mtime_ns, f.stat().st_size) for f in fs if f.exists()} for e, fs in cand.items()}
    for d in (d_prod, d_cons, d_late, "."):            # old files wherever a per-directory resolution would look
        for e, k, r, _ in rel["entries"]:
            f = top / d / r
            f.parent.mkdir(parents=True, exist_ok=True)
            if k == "pickle":
                f.write_bytes(pickle.dumps("OLD VALUE"))
            else:
                f.write_text("OLD VALUE")
    write_module(top / d_prod / "task_train.py", log, [], relprod=[[f"rp{i}", e, k, v] for i, (e, k, _, v) in enumerate(rel["entries"])], top=str(top))
    write_module(top / d_cons / "task_eval.py", log, [], relcons=[[f"rc{i}", e, k] for i, (e, k, _, _) in enumerate(rel["entries"])], top=str(top))
    builds, logs = [], []

    def build(i):
        before = stamps()
        r = run_build([str(top)], rel["hashseeds"][i % len(rel["hashseeds"])], top / f"res{i}.json")
        r["label"] = f"rel{i}"
        builds.append(r)
        lines = _read_log(log, sum(1 for x in logs for rec in x if rec["k"] != "wloc"))
        after = stamps()
        for e in cand:          # where the entry's value was WRITTEN in this build (observed on the file system)
            for f, st in after[e].items():
                if before[e].get(f) != st:
                    lines.append({"k": "wloc", "cat": rel["cat"], "entry": cps(e), "path": os.path.normpath(f)})
        logs.append(lines)

    build(0)
    write_module(top / d_late / "task_late.py", log, [], relcons=[[f"rl{i}", e, k] for i, (e, k, _, _) in enumerate(rel["entries"])], top=str(top))
    build(1)
    for i in range(len(rel["entries"])):      # third session: the same modules; the late dependents must run again
        (top / d_late / f"out_rl{i}.txt").unlink(missing_ok=True)
    build(2)
    return builds, logs


def run_e2e(ctx, base: Path, case: dict):
    """The histories of one case (main: 3 builds, in-memory catalog: 3 builds, root layout: 2 builds) run side by side; every
    build is a fresh interpreter. Returns (None, builds, logs) with builds[i]["label"] naming history and build number."""
    jobs = [] if case.get("only_relnode") else [run_main_history]
    if case.get("memory"):
        jobs.append(run_memory_history)
    if case.get("layout"):
        jobs.append(run_layout_history)
    if case.get("relnode"):
        jobs.append(run_relnode_history)
    with ThreadPoolExecutor(max_workers=len(jobs)) as ex:
        outs = list(ex.map(lambda f: f(base, case), jobs))
    builds = [b for bs, _ in outs for b in bs]
    logs = [l for _, ls in outs for l in ls]
    return None, builds, logs


def check_e2e(ctx, case: dict, builds, logs):
    rep = {"kind": "e2e", "case": case}
    names = [s_of(c) for c in case["cats"]]
    only_doc = all(doc_ok(n) for n in names)
    fid = None if only_doc else "F5"
    multi, memory = case.get("multi"), case.get("memory")
    n = len(case["pairs"]) + (len(multi["entries"]) if multi else 0)
    ctx.case(["e2e", case["pairs"], case["v1"], case["v2"], multi, memory], True, {"catalogs": [x[:20] for x in names], "pairs": n})
    if multi:
        ctx.dist[f"e2e:multi_return entries={len(multi['entries'])} provisional_at={multi['prov']}"] += 1
    if not only_doc:
        # a project that constructs a catalog with an undocumented name: the property demands rejection, i.e. every build
        # fails while collecting (ValueError from the validator when the module is imported) and no task body runs
        rejected = all(b["crash"] is None and b["exit_code"] == 3 and any(r.get("exc") == "ValueError" for r in b["collection"])
                       for b in builds) and not any(logs)
        if rejected:
            ctx.dist["e2e:undocumented_name_rejected"] += 1
            return
    labels = [b.get("label", f"main{i}") for i, b in enumerate(builds)]
    for i, lines in zip(labels, logs):      # where the catalogs store their files (known even if the build then fails)
        locs: dict[tuple, set] = {}
        for rec in lines:
            if rec["k"] == "loc":
                locs.setdefault(tuple(rec["cat"]), set()).add(rec["path"])
        for c, ps in locs.items():
            if len(ps) > 1:
                ctx.violation(f"root-split: catalog {s_of(c)[:30]!r} constructed in modules of one project (top marked by: "
                              f"{case['layout']['kind']}) resolves to {len(ps)} different storage directories in build {i}: "
                              f"{sorted(os.path.relpath(p, os.path.commonpath(sorted(ps))) for p in ps)[:3]}", rep, finding=fid)
                return
    elocs: dict[tuple, set] = {}
    for i, lines in zip(labels, logs):      # the location of an entry per build: as seen by each task that received its path
        for rec in lines:                   # ("eloc") and where its value was written ("wloc", observed on the file system)
            if rec["k"] in ("eloc", "wloc"):
                elocs.setdefault((i, tuple(rec["cat"]), tuple(rec["entry"])), set()).add(rec["path"])
    for (i, c, e), ps in elocs.items():
        if len(ps) > 1:
            ctx.violation(f"entry-split: entry ({s_of(c)[:30]!r}, {s_of(e)[:20]!r}), registered with a relative-path node and used by "
                          f"tasks of different directories, is seen at {len(ps)} locations in build {i}: "
                          f"{sorted(os.path.relpath(p, os.path.commonpath(sorted(ps))) for p in ps)[:3]}", rep, finding=fid)
            return
    # entry-location-stable: the same (catalog, entry) is at the same place in every session of the history
    if case.get("relnode"):
        kinds = {tuple(cps(e)): k for e, k, _, _ in case["relnode"]["entries"]}
        rl = [i for i in labels if i.startswith("rel")]
        for a, b in zip(rl, rl[1:]):
            for (i, c, e), ps in sorted(elocs.items()):
                qs = elocs.get((b, c, e))
                if i != a or not qs or len(ps) != 1 or len(qs) != 1 or ps == qs:
                    continue
                # F44 (narrow): the entry was registered with a node OBJECT whose path is relative, and the set of task modules
                # changed between the two sessions (here: between the first and the second build a module is added)
                f44 = kinds.get(e) in ("pickle", "pathnode") and (a, b) == ("rel0", "rel1")
                ctx.violation(f"entry-location-unstable: entry ({s_of(c)[:30]!r}, {s_of(e)[:20]!r}) [{kinds.get(e)}] is at "
                              f"{os.path.relpath(sorted(ps)[0], os.path.commonpath(sorted(ps | qs)))} in session {a} and at "
                              f"{os.path.relpath(sorted(qs)[0], os.path.commonpath(sorted(ps | qs)))} in session {b}"
                              + (" (a task module was added in between)" if (a, b) == ("rel0", "rel1") else " (same modules)"),
                              rep, finding="F44" if f44 and fid is None else fid)
    for i, b in zip(labels, builds):
        if b["crash"] or b["exit_code"] != 0:
            ctx.violation(f"e2e-exit: build {i} of a project whose tasks only pass values through catalog entries ended with "
                          f"exit code {b['exit_code']} / {b['crash']}", rep, finding=fid)
            return
    last: dict[tuple, str] = {}
    ncons = [0] * len(logs)
    for bi, (i, lines) in enumerate(zip(labels, logs)):
        if i.startswith("mem"):
            last = {k: v for k, v in last.items() if k[0] != tuple(memory["name"])}    # in-memory entries are empty in a new session
        for rec in lines:
            if rec["k"] in ("loc", "eloc", "wloc"):
                continue
            if rec["k"] == "shape":
                if rec["n"] != rec["want"]:
                    ctx.violation(f"e2e-value: dependent {rec['tag']} (build {i}) received a container argument with {rec['n']} leaves, "
                                  f"declared with {rec['want']}", rep, finding=fid)
                    return
                continue
            if rec["k"] == "plain":
                if rec["want"] != rec["canon"]:
                    ctx.violation(f"e2e-value: dependent {rec['tag']} (build {i}) received {rec['canon'][:60]!r} for the plain value "
                                  f"{rec['want'][:60]!r} given next to catalog entries", rep, finding=fid)
                    return
                continue
            key = (tuple(rec["cat"]), tuple(rec["entry"]))
            if rec["k"] == "prod":
                last[key] = rec["canon"]
            else:
                ncons[bi] += 1
                if last.get(key) != rec["canon"]:
                    ctx.violation(
                        f"e2e-value: consumer {rec['tag']} of ({s_of(rec['cat'])[:20]!r}, {s_of(rec['entry'])[:20]!r}) in build {i} received "
                        f"{rec['canon'][:60]!r}; the value last returned into that entry was {str(last.get(key))[:60]!r}", rep, finding=fid)
                    return
    ctx.dist[f"e2e:consumers_run={ncons}"] += 1
    if case.get("layout"):
        ctx.dist[f"e2e:layout={case['layout']['kind']}"] += 1
    # non-vacuity of the observation: new consumers of builds 1 and 2 must have run
    want = [] if case.get("only_relnode") else [n, n, n]
    if memory:
        ne = lambda cs: sum(1 for _, _, sl in cs for k, _ in sl if k == "e")   # noqa: E731
        want += [ne(memory["cons"]), ne([memory["cons"][j] for j in memory["redo"]]), ne(memory["cons"] + [memory["late"]])]
    if case.get("layout"):
        want += [2 * len(case["layout"]["entries"]), len(case["layout"]["entries"])]
    if case.get("relnode"):
        want += [len(case["relnode"]["entries"])] * 3
    if any(got < w for got, w in zip(ncons, want)):
        ctx.violation(f"e2e-missing: consumers that had never run did not run (per build: {ncons}, expected ≥ {want})", rep, finding=fid)


# ---------------------------------------------------------------------------------------------
# campaign
# ---------------------------------------------------------------------------------------------

def campaign(ctx):
    """All inputs are generated first (from ctx.rng only); the real code then runs for the name projects, the traces and the
    end-to-end projects CONCURRENTLY (they are independent projects in separate interpreters; sessions of one project stay
    sequential); judging and the comparison with the model follow sequentially."""
    import time as _t
    base = common.scratch_dir("c20")
    try:
        rng = ctx.rng
        t0 = _t.time()
        phases = ctx.extra.setdefault("phase_s", {})
        # ---- inputs
        jobs = []    # (label, project, names, entries, hashseeds)
        other_corpus = []
        corpus_cases: list = []
        for n, f in enumerate(sorted((common.VERIF / "corpus" / "C20").glob("*.json"))):   # 0 corpus first
            inp = json.loads(f.read_text())["input"]
            if inp.get("kind") in ("paths", "name"):
                nm = [s_of(x) for x in inp["names"]] if inp["kind"] == "paths" else [s_of(inp["name"])]
                en = [s_of(e) for e in inp.get("entries", [])] or ["e"]
                jobs.append((f"corpus{n}", new_project(base, f"corpus{n}"), nm, en, [1, 2]))
            elif inp.get("kind") == "e2e":
                corpus_cases.append(inp["case"])       # run together with the generated end-to-end cases
            else:
                other_corpus.append(inp)
            ctx.dist["corpus"] += 1
        # 1a exhaustive small scope (+ the former F5 witnesses)
        names = list(dict.fromkeys(list(small_names(3)) + ["a/b", "a b", "a/../b", "b", "a\n", "a.b"]))
        jobs.append(("small", new_project(base, "names_small"), names, ["e", "é/..\n"],
                     [rng.randrange(1, 1 << 16), rng.randrange(1, 1 << 16)]))
        # 1b random unicode / long / separators / case-only differences, more entry names, 3 sessions
        rnames = list(dict.fromkeys(random_names(rng, ctx.scale(150, 1500))))
        jobs.append(("random", new_project(base, "names_random"), rnames,
                     list(dict.fromkeys(random_entry_names(rng, ctx.scale(8, 30)))), [rng.randrange(1, 1 << 16) for _ in range(3)]))
        # 1c entry names that differ only by unicode normalisation / case / white space / separator spelling
        jobs.append(("confusable", new_project(base, "names_confusable"), ["c", "C", "c-" + str(rng.randrange(100))],
                     list(dict.fromkeys(sum(CONFUSABLE_ENTRIES, []))), [rng.randrange(1, 1 << 16) for _ in range(2)]))
        # 2 save/load traces over sessions
        nt = ctx.scale(48, 600)
        traces = [random_trace(rng, i, with_f5=(i % 6 == 5)) for i in range(nt)]
        trace_seeds = [rng.randrange(1, 1 << 16) for _ in range(4)]
        # 3 end to end
        ne = ctx.scale(8, 60)    # quick: one wave of 8 parallel projects
        cases = corpus_cases + [random_e2e(rng, i, f5=(i == ne - 1)) for i in range(ne)]
        # ---- the real code, concurrently
        with ThreadPoolExecutor(max_workers=len(jobs) + 1 + min(8, ne)) as ex:
            f_names = [ex.submit(run_names, proj, nm, en, hs) for _, proj, nm, en, hs in jobs]
            f_traces = ex.submit(run_traces, ctx, base, traces, trace_seeds)
            f_e2e = [ex.submit(run_e2e, ctx, base, c) for c in cases]
            name_sessions = [f.result() for f in f_names]
            projs, results = f_traces.result()
            outs = [f.result() for f in f_e2e]
        phases["real_code_concurrent"] = round(_t.time() - t0, 1)
        t1 = _t.time()
        # ---- judging + model
        for inp in other_corpus:
            replay_one(ctx, inp)
        model_rows: list = []
        for (label, proj, nm, en, hs), ses in zip(jobs, name_sessions):
            check_names(ctx, proj, nm, en, hs, label, model_rows, sessions=ses)
        ctx.exhaustive = True
        compare_names_with_model(ctx, model_rows)
        for t in traces:
            check_trace(ctx, t, projs[t["id"]], results[t["id"]])
        for c, (proj, builds, logs) in zip(cases, outs):
            check_e2e(ctx, c, builds, logs)
        phases["judge_and_model"] = round(_t.time() - t1, 1)
    finally:
        shutil.rmtree(base, ignore_errors=True)


def replay_one(ctx, inp: dict):
    base = common.scratch_dir("c20r")
    try:
        kind = inp.get("kind")
        if kind == "name":
            proj = new_project(base, "p")
            rows: list = []
            check_names(ctx, proj, [s_of(inp["name"])], ["e"], [1, 2], "replay", rows)
            compare_names_with_model(ctx, rows)
        elif kind == "paths":
            proj = new_project(base, "p")
            rows = []
            check_names(ctx, proj, [s_of(n) for n in inp["names"]], [s_of(e) for e in inp["entries"]] or ["e"], [1, 2], "replay", rows)
            compare_names_with_model(ctx, rows)
        elif kind == "trace":
            t = inp["trace"]
            projs, results = run_traces(ctx, base, [t], [1, 2, 3, 4])
            check_trace(ctx, t, projs[t["id"]], results[t["id"]])
        elif kind == "e2e":
            proj, builds, logs = run_e2e(ctx, base, inp["case"])
            check_e2e(ctx, inp["case"], builds, logs)
        else:
            raise common.InfraError(f"unknown replay kind {kind!r}")
    finally:
        shutil.rmtree(base, ignore_errors=True)
