"""C15 worker: a sequence of real `pytask.build()` calls in ONE process whose stdin/stdout/stderr are pipes.
Before and after every build the process state named by the property is recorded.

usage: capture_seq_worker.py <spec.json> <result.json>
spec = {"root": <dir>, "builds": [{"sub": <subdir>, "kw": {...}}, ...]}
"""
import gc
import json
import os
import pdb
import sys
import warnings
from pathlib import Path

ORIG = (sys.stdin, sys.stdout, sys.stderr)
ORIG_SET_TRACE = pdb.set_trace


def _filters():
    out = []
    for f in warnings.filters:
        out.append([f[0], getattr(f[1], "pattern", None), getattr(f[2], "__name__", str(f[2])),
                    getattr(f[3], "pattern", None), f[4]])
    return out


def snap():
    gc.collect()
    fds = {}
    for name in os.listdir("/proc/self/fd"):
        try:
            link = os.readlink(f"/proc/self/fd/{name}")
        except OSError:
            continue
        if link.startswith("/proc/"):
            continue  # the directory handle of this very listing
        fds[int(name)] = link
    st = []
    for i in range(3):
        try:
            s = os.fstat(i)
            st.append([s.st_dev, s.st_ino])
        except OSError:
            st.append(None)
    from _pytask.debugging import PytaskPDB
    from _pytask.logging import ExecutionReport
    from _pytask.provisional import TASKS_WITH_PROVISIONAL_NODES
    from _pytask.task_utils import COLLECTED_TASKS
    from _pytask.traceback import Traceback

    from _pytask.console import console

    return {
        # rich's live displays on the global console and the class-level state of the debugger support
        "live_stack": len(getattr(console, "_live_stack", []) or []) + (1 if getattr(console, "_live", None) is not None else 0),
        "pdb_state": [PytaskPDB._pluginmanager is None, PytaskPDB._config is None, PytaskPDB._wrapped_pdb_cls is None,
                      int(PytaskPDB._recursive_debug)],
        "fds": fds,
        "stat": st,
        "std_same": [sys.stdin is ORIG[0], sys.stdout is ORIG[1], sys.stderr is ORIG[2]],
        "std_type": [type(sys.stdin).__name__, type(sys.stdout).__name__, type(sys.stderr).__name__],
        "cwd": os.getcwd(),
        "filters": _filters(),
        "set_trace_same": pdb.set_trace is ORIG_SET_TRACE,
        "collected": len(COLLECTED_TASKS),
        "prov": len(TASKS_WITH_PROVISIONAL_NODES),
        "pdb_saved": len(PytaskPDB._saved),
        "report_vars": [str(ExecutionReport.editor_url_scheme), bool(ExecutionReport.show_locals),
                        str(getattr(ExecutionReport.show_capture, "value", ExecutionReport.show_capture)),
                        bool(Traceback._show_locals)],
    }


def main() -> int:
    spec = json.loads(Path(sys.argv[1]).read_text())
    out = Path(sys.argv[2])
    res = {"builds": []}
    try:
        import pytask

        sys.path.insert(0, spec["root"])   # the non-interactive debugger class (pdbcls) lives in <root>/c15pdb.py
        init = spec.get("init")
        if init == "close_fd0":
            os.close(0)                    # the caller has no standard input at all
        elif init == "close_stdin":
            sys.stdin.close()              # ... or closed the Python object (which closes descriptor 0, too)
        res["initial"] = snap()
        for b in spec["builds"]:
            root = Path(spec["root"])
            if "ctl" in b:
                # what task bodies read at run time (not a declared dependency): lets a task fail in one build and pass in the next
                (root / b["sub"] / "ctl.txt").write_text(b["ctl"])
            proj = root / b["sub"] if (root / b["sub"] / "pyproject.toml").exists() else root   # the project root pytask will find
            db = proj / ".pytask" / "pytask.sqlite3"
            aside = proj / ".pytask" / "pytask.sqlite3.aside"
            if b.get("corrupt_db"):
                # a database file that is not a database: create_database fails while pytask is configured
                db.parent.mkdir(exist_ok=True)
                if db.exists():
                    db.rename(aside)
                db.write_text("this is not a database " * 40)
            if b.get("corrupt_hashes"):
                # the cache of file hashes pytask rewrites at the end of every build, broken by someone else in between
                (proj / ".pytask").mkdir(exist_ok=True)
                (proj / ".pytask" / "file_hashes.json").write_text('{"broken": ')
            rec = {"before": snap()}
            try:
                session = pytask.build(paths=root / b["sub"], **b["kw"])
                rec["exit"] = int(session.exit_code)
                rec["tasks"] = sorted(t.name.split("::")[-1] for t in session.tasks)
                rec["reports"] = [[r.task.name.split("::")[-1], r.outcome.name] for r in session.execution_reports]
                rec["n_warnings"] = len(getattr(session, "warnings", []) or [])
                del session
            except BaseException as e:  # noqa: BLE001
                rec["raised"] = f"{type(e).__name__}: {e}"
            rec["after"] = snap()
            if b.get("corrupt_db"):
                db.unlink(missing_ok=True)
                if aside.exists():
                    aside.rename(db)
            res["builds"].append(rec)
    except BaseException as e:  # noqa: BLE001
        res["harness_error"] = f"{type(e).__name__}: {e}"
    out.write_text(json.dumps(res))
    return 0


if __name__ == "__main__":
    sys.exit(main())
