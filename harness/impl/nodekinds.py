"""Stream "nodekinds" (C02 / C03, implementation-only oracles): small generated projects whose dependencies and products are declared
through the different PATH NODE KINDS pytask accepts — `pathlib.Path` default, `PathNode(path=Path)`, a plain local `upath.UPath`,
a `UPath("file://…")` (a UPath WITH a protocol: its `stat()` is a `UPathStatResult`, `nodes._get_state` has a branch of its own for it),
and `PathNode(path=UPath("file://…"))` — driven through histories of builds (fresh process each, PYTHONHASHSEED fixed for the
whole history or changing from build to build) and edits (touch, identical rewrite, content change, tampered / deleted product).

The engine model M6 abstracts a node to "content id", so this stream is judged by oracles only:
* C03: a body that ran although every file the task tracks has the content it had at the task's last SUCCESS is a needless run;
* C02: after a build with exit code 0 the product of every task holds G(actual contents of its dependencies).

Two defects found with this stream were repaired in /repo (findings/F61.json, findings/F62.json — status fixed); their witnesses are
replayed from corpus/C02 and corpus/C03 before the random projects and must be quiet:
* F61 (C02, /repo 03538c0): the state of a protocol-UPath node on a file system without ETags was the constant "0"; now the memoised
  content hash, as for local paths.
* F62 (C03, /repo b1f66ea): `hash_value` did not know UPath, the signature of a protocol-UPath node was the salted builtin `hash()`.
Nothing is classified as known here any more: every needless run and every stale product of the stream is a VIOLATION.
"""
from __future__ import annotations

import json
import os
import shutil
import subprocess
from concurrent.futures import ThreadPoolExecutor

import common

RUN = ("import json, sys\nfrom pathlib import Path\nroot = Path(sys.argv[1])\nsys.path.insert(0, str(root))\nimport pytask\n"
       "s = pytask.build(paths=[root])\n"
       "print('@@' + json.dumps({'exit': int(s.exit_code), 'reports': [[r.task.name.split('::')[-1], r.outcome.name] for r in s.execution_reports]}))\n")

IN_KINDS = ["path", "pathnode", "upath", "ufile", "ufile", "ufile_node"]
MID_KINDS = ["path", "upath"]                 # both ends of a producer/consumer link must spell the same node
OUT_KINDS = ["path", "path", "upath", "ufile"]


def _expr(kind, name):
    p = f"HERE / '{name}'"
    if kind == "upath":
        return f"UPath(str({p}))"
    if kind in ("ufile", "ufile_node"):
        return f"UPath('file://' + str({p}))"
    return p


def _dep_param(arg, kind, name):
    if kind in ("pathnode", "ufile_node"):
        return f"{arg}: Annotated[Path, PathNode(name='{name}', path={_expr(kind, name)})]"
    return f"{arg}: Path = {_expr(kind, name)}"


def gen_project(rng):
    ntasks = rng.randint(1, 2)
    nin = rng.randint(1, 2)
    files = {f"in{k}.txt": rng.choice(IN_KINDS) for k in range(nin)}
    tasks = []
    mid_kind = rng.choice(MID_KINDS)
    for t in range(ntasks):
        last = t == ntasks - 1
        deps = [f"in{k}.txt" for k in range(nin)] if t == 0 else ["out0.txt"] + ([f"in{rng.randrange(nin)}.txt"] if rng.random() < 0.4 else [])
        prod = f"out{t}.txt"
        pk = rng.choice(OUT_KINDS) if last else mid_kind
        dk = [(mid_kind if d == "out0.txt" else files[d]) for d in deps]
        tasks.append({"id": t, "deps": deps, "dep_kinds": dk, "prod": prod, "prod_kind": pk, "coef": [rng.randint(2, 9) for _ in deps]})
    inputs = {f"in{k}.txt": rng.randint(10, 99) for k in range(nin)}
    steps = ["build"]
    names = list(inputs)
    for _ in range(rng.randint(2, 4)):
        r = rng.random()
        if r < 0.25:
            steps.append(["touch", rng.choice(names)])
        elif r < 0.45:
            steps.append(["same", rng.choice(names)])
        elif r < 0.75:
            steps.append(["edit", rng.choice(names), rng.randint(100, 999)])
        elif r < 0.9:
            steps.append(["tamper", rng.choice(tasks)["prod"], rng.randint(1000, 9999)])
        else:
            steps.append(["delete", rng.choice(tasks)["prod"]])
        steps.append("build")
    seeds = [rng.randrange(1, 4_000_000_000)]
    if rng.random() < 0.4:
        seeds = [rng.randrange(1, 4_000_000_000) for _ in range(3)]      # the hash seed changes from build to build
    return {"tasks": tasks, "inputs": inputs, "steps": steps, "seeds": seeds}


def render(proj):
    L = ["from pathlib import Path", "from typing import Annotated", "from pytask import PathNode, Product", "from upath import UPath",
         "HERE = Path(__file__).parent", "", "", "def _log(t):", "    with open(HERE / '.log', 'a') as f:", "        f.write(f'S {t}\\n')", ""]
    for t in proj["tasks"]:
        args = [_dep_param(f"d{i}", k, d) for i, (d, k) in enumerate(zip(t["deps"], t["dep_kinds"]))]
        args.append(f"out: Annotated[Path, Product] = {_expr(t['prod_kind'], t['prod'])}")
        L.append("")
        L.append(f"def task_t{t['id']}(*, {', '.join(args)}):")
        L.append(f"    _log({t['id']})")
        terms = " + ".join(f"{c} * int(d{i}.read_text())" for i, c in enumerate(t["coef"]))
        L.append(f"    out.write_text(str({terms} + {t['id']}))")
        L.append("")
    return "\n".join(L) + "\n"


def run_project(proj):
    root = common.scratch_dir("nk")
    obs = []
    try:
        (root / "task_nk.py").write_text(render(proj))
        clock = 1_600_000_000

        def put(name, text):
            nonlocal clock
            clock += 7
            (root / name).write_text(text)
            os.utime(root / name, (clock, clock))
        for n, v in proj["inputs"].items():
            put(n, str(v))
        nb = 0

        def snap():
            out = {}
            for t in proj["tasks"]:
                for n in t["deps"] + [t["prod"]]:
                    p = root / n
                    out[n] = p.read_text() if p.exists() else None
            return out
        for st in proj["steps"]:
            if st == "build":
                seed = proj["seeds"][nb % len(proj["seeds"])]
                nb += 1
                (root / ".log").unlink(missing_ok=True)
                pre = snap()
                r = subprocess.run([common.PY, "-c", RUN, str(root)], capture_output=True, text=True, cwd="/", timeout=300,
                                   env=dict(os.environ, PYTHONHASHSEED=str(seed), PYTHONDONTWRITEBYTECODE="1"))
                res = next((json.loads(l[2:]) for l in r.stdout.splitlines() if l.startswith("@@")), None)
                if res is None:
                    raise common.InfraError("nodekinds build produced no result: " + (r.stdout + r.stderr)[-400:])
                log = (root / ".log").read_text().split("\n") if (root / ".log").exists() else []
                obs.append({"pre": pre, "post": snap(), "res": res, "ran": [int(x[2:]) for x in log if x.startswith("S ")], "seed": seed})
            elif st[0] == "touch":
                put(st[1], (root / st[1]).read_text())
            elif st[0] == "same":
                put(st[1], (root / st[1]).read_text())
            elif st[0] in ("edit", "tamper"):
                put(st[1], str(st[2]))
            elif st[0] == "delete":
                (root / st[1]).unlink(missing_ok=True)
    finally:
        shutil.rmtree(root, ignore_errors=True)
    return obs


def judge(proj, obs):
    """-> list of (property, kind, message, finding-or-None)"""
    out = []
    snaps = {}      # task id -> {"files": {name: content}, "seed": hash seed} at the task's last SUCCESS
    for bi, o in enumerate(obs):
        res = o["res"]
        if res.get("exit") not in (0, 1):
            out.append(("C02", "returns", f"nodekinds project: build {bi} exits with {res.get('exit')} {res.get('reports')}", None))
            break
        outcome = {n: oc for n, oc in res.get("reports", [])}
        for t in proj["tasks"]:
            tid = t["id"]
            sn = snaps.get(tid)
            now = {n: o["post"].get(n) for n in t["deps"]}
            now[t["prod"]] = o["pre"].get(t["prod"])
            # C03: needless run
            if tid in o["ran"] and sn is not None and now == sn["files"] and None not in now.values():
                finding = None
                out.append(("C03", "needless", f"nodekinds: task t{tid} (node kinds {t['dep_kinds']} -> {t['prod_kind']}) was executed in build {bi} although every file "
                                               f"it tracks has the content of its last successful run (steps {proj['steps']}, hash seeds {proj['seeds']})", finding))
            # C02: product = G(actual dependency contents) after a successful build
            if res.get("exit") == 0:
                deps = [o["post"].get(n) for n in t["deps"]]
                if None not in deps:
                    want = str(sum(c * int(v) for c, v in zip(t["coef"], deps)) + tid)
                    if o["post"].get(t["prod"]) != want:
                        out.append(("C02", "scratch", f"nodekinds: build {bi} reported {res.get('reports')} with exit 0 but {t['prod']} of task t{tid} (node kinds "
                                                      f"{t['dep_kinds']} -> {t['prod_kind']}) holds {o['post'].get(t['prod'])!r}; from its dependencies {deps} follows "
                                                      f"{want!r} (steps {proj['steps']}, hash seeds {proj['seeds']})", None))
            if outcome.get(f"task_t{tid}") == "SUCCESS":
                files = {n: o["post"].get(n) for n in t["deps"] + [t["prod"]]}
                snaps[tid] = {"files": files, "seed": o["seed"]}
    return out


def corpus(prop):
    """witnesses of repaired findings (corpus/<prop>/nodekinds-*.json): replayed first, must be quiet"""
    return [json.loads(f.read_text())["project"] for f in sorted((common.VERIF / "corpus" / prop).glob("nodekinds-*.json"))]


def prepare(ctx):
    return corpus(ctx.prop) + [gen_project(ctx.rng) for _ in range(ctx.scale(12, 120))]


def execute(projs):
    with ThreadPoolExecutor(max_workers=6) as ex:
        return list(ex.map(run_project, projs))


def stream(ctx, prop, projs=None, allobs=None):
    """runs the stream (unless already run) and reports the violations that belong to `prop` ("C02" | "C03")"""
    if projs is None:
        projs = prepare(ctx)
    if allobs is None:
        allobs = execute(projs)
    known = {e.get("id") for e in common.load_known(prop) if e.get("status") == "known"}
    for proj, obs in zip(projs, allobs):
        kinds = sorted({k for t in proj["tasks"] for k in t["dep_kinds"] + [t["prod_kind"]]})
        ctx.case(["nodekinds", proj], len(obs) >= 2, {"stream": "nodekinds", "kinds": kinds, "steps": proj["steps"], "seeds": len(proj["seeds"]),
                                                       "builds": [[o["res"].get("exit"), o["res"].get("reports")] for o in obs]})
        ctx.dist["nodekinds"] += 1
        for k in kinds:
            ctx.dist["nodekind=" + k] += 1
        seen = set()
        for p, kind, msg, finding in judge(proj, obs):
            if p != prop or (kind, finding) in seen:
                continue
            seen.add((kind, finding))
            if finding and finding not in known:
                ctx.extra.setdefault("findings_pending_registration", {})[finding] = msg[:300]
                print(f"FINDING (not yet registered, see findings/{finding}.json): property={prop} {finding}: {msg[:200]}")
                continue
            ctx.violation(f"{kind}: {msg}", {"nodekinds": proj, "layer": "engine-e2e"}, finding=finding)


def replay(prop, proj):
    bad = [x for x in judge(proj, run_project(proj)) if x[0] == prop and x[3] is None]
    if bad:
        return False, bad[0][2]
    return True, "node-kind project: nothing needlessly re-run, products follow from their dependencies"
