#!/venv/bin/python
"""Fork server for C13: one real `pytask.build(paths=…, ignore=…, task_files=…)` per forked child.

stdin : one JSON job per line {"root", "paths": [...], "ignore": [...], "task_files": [...]|null, "log": <file>,
                               "probe_modules": ["code", ...], "listdirs": [<abs dir>, ...]}
stdout: one JSON result per line
        {"exit": int|None, "raised": str|None,
         "tasks": [{"name", "sig", "base", "path", "tag", "deffile"}], "nfail": int, "fail_excs": [...],
         "executed": ["TAG:…", …], "preloaded": [names of probe_modules found in sys.modules before the build],
         "listing": {dir: [entries in os.listdir order]}}
pytask is imported once in the server; each build runs in a fresh fork (sys.modules / COLLECTED_TASKS never leak).
"""
import json
import os
import sys
import traceback

sys.path.insert(0, os.path.dirname(os.path.abspath(__file__)))
from collect_build_worker import tag_of  # noqa: E402


def deffile_of(fn, depth=0):
    import functools
    if fn is None or depth > 6:
        return None
    if isinstance(fn, functools.partial):
        return deffile_of(fn.func, depth + 1)
    code = getattr(fn, "__code__", None)
    if code is not None:
        return code.co_filename
    return deffile_of(getattr(fn, "__wrapped__", None), depth + 1)


def child(job, wfd):
    res = {"exit": None, "raised": None, "tasks": [], "nfail": 0, "fail_excs": [], "executed": [], "preloaded": [], "listing": {}}
    try:
        dn = os.open(os.devnull, os.O_RDWR)
        os.dup2(dn, 0)
        os.dup2(dn, 1)
        os.dup2(dn, 2)
        os.chdir("/")
        res["preloaded"] = [m for m in job.get("probe_modules", []) if m in sys.modules]
        for d in job.get("listdirs", []):
            try:
                res["listing"][d] = os.listdir(d)
            except OSError:
                res["listing"][d] = None
        import pytask
        kw = {}
        if job.get("ignore") is not None:      # None: the option comes from pyproject.toml
            kw["ignore"] = job["ignore"]
        if job.get("ptasks"):
            # programmatic tasks: functions taken from module files the harness wrote (each file imported once, under a
            # private name), optionally wrapped into TaskWithoutPath; the same object may be listed several times
            import importlib.util
            mods = {}
            objs = []
            for i, pt in enumerate(job["ptasks"]):
                if pt["file"] not in mods:
                    spec = importlib.util.spec_from_file_location(f"_c13prog_{len(mods)}", pt["file"])
                    m = importlib.util.module_from_spec(spec)
                    spec.loader.exec_module(m)
                    mods[pt["file"]] = m
                fn = getattr(mods[pt["file"]], pt["attr"])
                if pt.get("kind") == "twp":
                    key = (pt["file"], pt["attr"], pt["name"], pt.get("share"))
                    if pt.get("share") is not None and key in mods:
                        objs.append(mods[key])
                    else:
                        o = pytask.TaskWithoutPath(name=pt["name"], function=fn)
                        mods[key] = o
                        objs.append(o)
                else:
                    objs.append(fn)
            kw["tasks"] = objs
        if job.get("task_files") is not None:
            kw["task_files"] = job["task_files"]
        try:
            session = pytask.build(paths=job["paths"], **kw)
        except BaseException as e:  # noqa: BLE001
            res["raised"] = f"{type(e).__name__}: {e}"[:200]
            session = None
        if session is not None:
            res["exit"] = int(session.exit_code)
            for t in getattr(session, "tasks", []):
                fn = getattr(t, "function", None)
                res["tasks"].append({
                    "name": getattr(t, "name", None),
                    "sig": getattr(t, "signature", None),
                    "base": getattr(t, "base_name", None),
                    "path": os.fspath(t.path) if getattr(t, "path", None) is not None else None,
                    "tag": tag_of(fn),
                    "deffile": deffile_of(fn),
                })
            for r in getattr(session, "collection_reports", []):
                if r.outcome.name == "FAIL":
                    res["nfail"] += 1
                    res["fail_excs"].append(r.exc_info[0].__name__ if getattr(r, "exc_info", None) else None)
        try:
            with open(job["log"]) as f:
                res["executed"] = [l.strip() for l in f if l.strip()]
        except OSError:
            res["executed"] = []
    except BaseException:  # noqa: BLE001
        res["harness_error"] = traceback.format_exc()[-1500:]
    try:
        os.write(wfd, (json.dumps(res) + "\n").encode())
    finally:
        os._exit(0)


def main():
    import pytask  # noqa: F401
    import _pytask.build  # noqa: F401
    out = sys.stdout
    for line in sys.stdin:
        line = line.strip()
        if not line:
            continue
        job = json.loads(line)
        r, w = os.pipe()
        pid = os.fork()
        if pid == 0:
            os.close(r)
            child(job, w)
        os.close(w)
        chunks = []
        while True:
            b = os.read(r, 65536)
            if not b:
                break
            chunks.append(b)
        os.close(r)
        _, status = os.waitpid(pid, 0)
        data = b"".join(chunks).decode().strip()
        res = json.loads(data.splitlines()[-1]) if data else {"died": True}
        res["status"] = os.waitstatus_to_exitcode(status)
        out.write(json.dumps(res) + "\n")
        out.flush()


if __name__ == "__main__":
    main()
