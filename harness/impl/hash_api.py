"""C12 campaign: the real fingerprint code (hash_value, node signatures / state(), hash_path memo, collection
normalisation, end-to-end change detection) vs an independent oracle and vs the Lean model M4.

Everything that runs pytask code runs in `hash_worker.py` subprocesses (fresh interpreter, chosen
PYTHONHASHSEED, the tree selected by VERIF_REPO).  The oracles below know the *property* (Python's own
`==`/`hash`, bytes of files, os.path for "lexical normalisation"); they know nothing of the Lean model.
"""
from __future__ import annotations

import hashlib
import itertools
import json
import math
import os
import re
import shutil
import subprocess
from concurrent.futures import ThreadPoolExecutor
from pathlib import Path, PurePosixPath

import common

WORKER = Path(__file__).resolve().parent / "hash_worker.py"
NS = 1_000_000_000


# ---------------------------------------------------------------------------------------------
# values: kinds, (de)serialisation
# ---------------------------------------------------------------------------------------------

def is_seq(v):
    return type(v) in (tuple, list)


def is_num(v):
    return type(v) in (bool, int, float)


def kind(v):
    if v is None:
        return "none"
    if is_num(v):
        return "num"
    if type(v) is str:
        return "str"
    if type(v) is bytes:
        return "bytes"
    if isinstance(v, PurePosixPath):
        return "path"
    if type(v) is tuple:
        return "tuple"
    if type(v) is list:
        return "list"
    raise TypeError(type(v))


def to_json(v):
    k = kind(v)
    if k == "none":
        return {"t": "none"}
    if type(v) is bool:
        return {"t": "bool", "v": v}
    if type(v) is int:
        return {"t": "int", "v": str(v)}
    if type(v) is float:
        return {"t": "float", "v": v.hex()}
    if k == "str":
        return {"t": "str", "v": [ord(c) for c in v]}
    if k == "bytes":
        return {"t": "bytes", "v": list(v)}
    if k == "path":
        return {"t": "path", "v": str(v)}
    return {"t": k, "v": [to_json(x) for x in v]}


def from_json(j):
    t = j["t"]
    if t == "none":
        return None
    if t == "bool":
        return bool(j["v"])
    if t == "int":
        return int(j["v"])
    if t == "float":
        return float.fromhex(j["v"])
    if t == "str":
        return "".join(chr(c) for c in j["v"])
    if t == "bytes":
        return bytes(j["v"])
    if t == "path":
        return PurePosixPath(j["v"])
    if t == "tuple":
        return tuple(from_json(x) for x in j["v"])
    return [from_json(x) for x in j["v"]]


def cps(s: str) -> str:
    return ".".join(str(ord(c)) for c in s)


def ser(v) -> str:
    """Driver notation (prefix, comma separated). Floats enter as their CPython hash."""
    k = kind(v)
    if k == "none":
        return "N"
    if type(v) is bool:
        return "B1" if v else "B0"
    if type(v) is int:
        return f"I{v}"
    if type(v) is float:
        return f"F{hash(v)}"
    if k == "str":
        return "S" + cps(v)
    if k == "bytes":
        return "Y" + ".".join(str(b) for b in v)
    if k == "path":
        return "P" + cps(str(v))
    return ("T" if k == "tuple" else "L") + str(len(v)) + "".join("," + ser(x) for x in v)


def show(v) -> str:
    return ascii(v).replace("PurePosixPath", "Path")      # escapes: look-alike strings stay distinguishable in messages


# ---------------------------------------------------------------------------------------------
# the property's vocabulary (Python semantics only)
# ---------------------------------------------------------------------------------------------

def same_shape(a, b) -> bool:
    """Same kind at every position both values have (numeric kinds are one kind; lengths may differ)."""
    ka, kb = kind(a), kind(b)
    if ka != kb:
        return False
    if is_seq(a):
        return all(same_shape(x, y) for x, y in zip(a, b))
    return True


def told_apart(a, b) -> bool:
    """Python's own equality and hash tell the two same-shape values apart."""
    if is_seq(a) and is_seq(b):
        return len(a) != len(b) or any(told_apart(x, y) for x, y in zip(a, b))
    if is_num(a) and is_num(b):
        return hash(a) != hash(b)
    return a != b


def py_canon(v):
    """Key under which Python cannot tell values apart (numeric leaves by hash)."""
    k = kind(v)
    if k == "none":
        return ("0",)
    if k == "num":
        return ("n", hash(v))
    if k == "str":
        return ("s", v)
    if k == "bytes":
        return ("b", v)
    if k == "path":
        return ("p", str(v))
    return (k, tuple(py_canon(x) for x in v))


def has_nan(v) -> bool:
    if is_seq(v):
        return any(has_nan(x) for x in v)
    return type(v) is float and v != v


def f3_class(a, b) -> bool:
    """Narrow classifier of F3: two sequences of the same type whose only differences are runs of *numeric*
    elements whose decimal `hash` renderings concatenate to the same digits but are cut at different places
    (possibly inside nested sequences at the same position)."""
    if not (is_seq(a) and is_seq(b) and type(a) is type(b)):
        return False
    i = 0
    while i < min(len(a), len(b)) and not _differs_here(a[i], b[i]):
        if told_apart(a[i], b[i]) and not f3_class(a[i], b[i]):
            return False
        i += 1
    j = 0
    while j < min(len(a), len(b)) - i and not _differs_here(a[len(a) - 1 - j], b[len(b) - 1 - j]):
        x, y = a[len(a) - 1 - j], b[len(b) - 1 - j]
        if told_apart(x, y) and not f3_class(x, y):
            return False
        j += 1
    ma, mb = a[i:len(a) - j], b[i:len(b) - j]
    if not ma and not mb:
        return told_apart(a, b)          # differences only inside nested F3 pairs
    if not ma or not mb:
        return False
    if not all(is_num(x) for x in list(ma) + list(mb)):
        return False
    return "".join(str(hash(x)) for x in ma) == "".join(str(hash(x)) for x in mb) and \
        [hash(x) for x in ma] != [hash(x) for x in mb]


def _differs_here(x, y) -> bool:
    """x / y cannot be part of the common (aligned) prefix or suffix."""
    if kind(x) != kind(y):
        return True
    if is_seq(x):
        return not (told_apart(x, y) is False or f3_class(x, y))
    return told_apart(x, y)


# ---------------------------------------------------------------------------------------------
# running the real code
# ---------------------------------------------------------------------------------------------

def run_worker(req: dict, hashseed=None, timeout=300):
    env = dict(os.environ)
    env["PYTHONHASHSEED"] = str(hashseed) if hashseed is not None else "0"
    env["COLUMNS"] = "200"
    p = subprocess.run([common.PY, str(WORKER)], input=json.dumps(req), capture_output=True, text=True, env=env,
                       cwd="/", timeout=timeout)
    if p.returncode != 0 or "@@RESULT@@" not in p.stdout:
        raise common.InfraError(f"hash worker ({req.get('mode')}) failed rc={p.returncode}: {p.stderr[-600:]}")
    return json.loads(p.stdout.rsplit("@@RESULT@@", 1)[1])


def run_workers(reqs, seeds=None, max_workers=16):
    seeds = seeds or [0] * len(reqs)
    with ThreadPoolExecutor(max_workers=max(1, min(max_workers, len(reqs)))) as ex:
        return list(ex.map(lambda rs: run_worker(rs[0], rs[1]), zip(reqs, seeds)))


# ---------------------------------------------------------------------------------------------
# realising the model's stand-in digests with the real sha256
# ---------------------------------------------------------------------------------------------

class Unrealisable(Exception):
    pass


_GROUP = re.compile(r"<[0-9.]*>")


def _bytes_of(group: str) -> bytes:
    if not (group.startswith("<") and group.endswith(">")):
        raise Unrealisable(group[:40])
    body = group[1:-1]
    try:
        return bytes(int(x) for x in body.split(".")) if body else b""
    except ValueError:
        raise Unrealisable(group[:40]) from None


def hexkind(v) -> bool:
    return not (v is None or is_num(v))


def realise(v, text: str) -> str:
    """`text` is the model's str(hash_value(v)) with every digest shown as its pre-image `<b.b.…>`;
    apply the real sha256 innermost-first."""
    if not hexkind(v):
        return text
    data = _bytes_of(text)
    if not is_seq(v):
        return hashlib.sha256(data).hexdigest()
    return hashlib.sha256(realise_join([x for x in v], data.decode()).encode()).hexdigest()


def realise_join(values, s: str) -> str:
    groups = _GROUP.findall(s)
    hexvals = [x for x in values if hexkind(x)]
    if len(groups) != len(hexvals):
        raise Unrealisable(f"{len(groups)} digests for {len(hexvals)} hashed elements")
    it = iter(zip(hexvals, groups))
    return _GROUP.sub(lambda m: realise(*next(it)), s)


# ---------------------------------------------------------------------------------------------
# pool of values
# ---------------------------------------------------------------------------------------------

P = PurePosixPath
M61 = 2 ** 61 - 1

FIXED_SCALARS = [
    None, True, False,
    0, 1, -1, -2, 2, 3, 10, 12, 23, 123, 42, -42, M61, M61 + 1, M61 + 2, M61 - 1, -M61, -(M61 + 1), -(M61 + 2), 2 * M61,
    2 ** 64, 10 ** 30, -(10 ** 30), 4238894112, 2 ** 200 + 17,
    0.0, -0.0, 1.0, 2.0, 1.5, -1.5, 0.1, 1e300, -1e-300, float("inf"), float("-inf"), float(2 ** 61), 23.0, 12.5,
    "", "a", "b", "ab", "ba", "a/b", "1", "12", "23", "123", "None", "é", "中文", "\U0001F600", "a\x00b", " ", "a b", "A",
    "x" * 300, hashlib.sha256(b"a").hexdigest(), "4238894112",
    b"", b"a", b"b", b"ab", b"a/b", b"\x00", b"\xff\xfe", b"1", b"12", "é".encode(), bytes(range(256)),
    P("a"), P("b"), P("ab"), P("a/b"), P("/abs/x"), P("."), P("a/../b"), P("1"), P("é"), P("/"), P("a b"),
]

FIXED_SEQS = [
    (), [], (1, 23), (12, 3), (1, 2, 3), (12, 3, 4), (1, 23, 4), (123,), (1, 2), (12,), [1, 23], [12, 3], [123],
    (1, 0), (10,), (0, 1), (-1,), (-2,), (1, -2), (-1, 2), (-12,), (True,), (1,), (1.0,), (False, 0), (0, 0), (0,),
    (M61 + 1,), (2 ** 64, 1), (1.5,), (1.5, 2), (float("inf"),), (None,), (None, None), (None, 1), (4238894112,), (1, None),
    ("a",), ("b",), ("a", "b"), ("ab",), ("b", "a"), ("a", "a"), ("",), ("", ""), ("a", ""), ("", "a"), ("1",), ("1", "23"), ("12", "3"),
    (b"a",), (b"a", "b"), (P("a"),), (P("a"), "b"), ("a", 1), ("a", 2), (1, "a"), (2, "a"), ("a", 1, "b"), ("a", 2, "b"),
    ("a", 1, 23), ("a", 12, 3), (1, 23, "a"), (12, 3, "a"), ("k", 0), ("k", 1), ("k", 10), ("k", 1, 0),
    ((),), ((), ()), ([],), ([], []), ((1, 23),), ((12, 3),), ((1, 23), "x"), ((12, 3), "x"), ((1,), (23,)), ((12,), (3,)),
    ((1, 2), 3), ((1,), 23), (1, (2, 3)), (1, (23,)), [[1, 23]], [[12, 3]], [(1, 23)], [(12, 3)], ([1, 23],), ([12, 3],),
    (("a",),), (("a", "b"),), (("a",), ("b",)), ((("a",),),), (((1, 23),),), (((12, 3),),), ((("a", 1), 2), 3),
    ("a", ("b", ("c",))), ("a", ("b", ("d",))), [["a"], ["b"]], [["a", "b"]], ["a", ["b"]],
    (hashlib.sha256(b"a").hexdigest(),), (None, "a"), ("a", None), (None, (None,)), ((None,), None),
    (True, False), (1, 0.0), (1.0, 0), (0.5, 0.5), (0.5,), (1, 2, 3, 4, 5, 6, 7, 8, 9, 10), (12345678910,), (1234567891, 0),
]

F3_WITNESS = ((1, 23), (12, 3))

# strings Python's == / hash tell apart although they are canonically (NFC/NFD) or compatibly (NFKC/NFKD) equivalent, differ in
# case only, or in surrounding white space: a fingerprint must keep them apart.  (escapes: the file stays normalisation-proof)
EQUIV_STRS = [
    "caf\u00e9", "cafe\u0301",                   # é precomposed / e + combining acute
    "\u00c5", "A\u030a", "\u212b",              # Å / A + ring / ANGSTROM SIGN
    "\ufb01le", "file",                           # ﬁ ligature (NFKC only)
    "\uff11\uff12", "12", "\u00b2", "2",        # full-width digits, superscript two
    "\u1e69", "s\u0323\u0307", "s\u0307\u0323",   # two combining marks, both orders
    "\uac00", "\u1100\u1161",                   # Hangul syllable / jamo
    "\u03a9", "\u2126",                          # Ω / OHM SIGN
    "Stra\u00dfe", "STRASSE", "strasse", "a ", " a", "a\n", "a\t", "\u00a0", "A", "a",
]
EQUIV_STRS = [x.encode().decode("unicode_escape") if "\\" in x else x for x in EQUIV_STRS]


def equiv_neighbours(v):
    """Variants of a value that a too eager canonicalisation (unicode normal forms, case folding, stripping) would identify with it."""
    import unicodedata
    k = kind(v)
    if k == "str":
        out = [unicodedata.normalize(f, v) for f in ("NFC", "NFD", "NFKC", "NFKD")] + [v.lower(), v.upper(), v.casefold(), v.strip(), v + " "]
        return [x for x in dict.fromkeys(out) if x != v]
    if k == "path":
        return [P(x) for x in equiv_neighbours(str(v)) if x and str(P(x)) == x]
    if k == "bytes":
        return [x for x in dict.fromkeys([v.lower(), v.upper(), v.strip()]) if x != v]
    if is_seq(v):
        out = []
        for i, x in enumerate(v):
            for y in equiv_neighbours(x)[:3]:
                out.append(type(v)(y if j == i else z for j, z in enumerate(v)))
        return out[:6]
    return []


def gen_scalar(rng):
    r = rng.random()
    if r < 0.04:
        return None
    if r < 0.08:
        return rng.random() < 0.5
    if r < 0.38:
        mag = rng.choice([1, 1, 2, 3, 8, 18, 19, 30, 70])
        n = rng.randrange(10 ** mag)
        return -n if rng.random() < 0.25 else n
    if r < 0.48:
        return rng.choice([float(rng.randrange(100)), rng.random(), rng.uniform(-1e6, 1e6), float(2 ** rng.randrange(70))])
    if r < 0.72:
        alphabet = rng.choice(["ab", "0123456789", "ab/._ ", "aé中\U0001F600", "eE\u0301\u00e9\u00c9\ufb01fi \uff11" + "1"])
        return "".join(rng.choice(alphabet) for _ in range(rng.choice([0, 1, 1, 2, 3, 8])))
    if r < 0.86:
        return bytes(rng.choice([97, 98, 48, 49, 0, 255]) for _ in range(rng.choice([0, 1, 1, 2, 4])))
    return P("/".join(rng.choice(["a", "b", "..", "x1", "d"]) for _ in range(rng.randint(1, 3))))


def gen_value(rng, depth):
    if depth == 0 or rng.random() < 0.35:
        return gen_scalar(rng)
    n = rng.choice([0, 1, 1, 2, 2, 2, 3, 3, 4])
    style = rng.random()
    if style < 0.45:       # digit-heavy: where adjacent decimal renderings can be cut differently
        xs = [rng.choice([rng.randrange(10), rng.randrange(100), rng.randrange(1000), -rng.randrange(20), True, None, "a"])
              if rng.random() < 0.85 else gen_value(rng, depth - 1) for _ in range(n)]
    else:
        xs = [gen_value(rng, depth - 1) for _ in range(n)]
    return tuple(xs) if rng.random() < 0.7 else xs


def recut(rng, v):
    """A same-type sequence whose numeric run concatenates to the same digits, cut elsewhere (F3 neighbours)."""
    if not is_seq(v) or not v or not all(type(x) is int and x >= 0 for x in v):
        return None
    digits = "".join(str(x) for x in v)
    if len(digits) < 2:
        return None
    k = rng.randint(1, min(3, len(digits)))
    cuts = sorted(rng.sample(range(1, len(digits)), min(k - 1, len(digits) - 1))) if k > 1 else []
    parts = [digits[i:j] for i, j in zip([0] + cuts, cuts + [len(digits)])]
    if any(len(p) > 1 and p[0] == "0" for p in parts):
        return None
    w = [int(p) for p in parts]
    return tuple(w) if type(v) is tuple else w


def gen_pool(rng, n_random: int):
    pool, seen = [], set()

    def add(v):
        key = json.dumps(to_json(v), sort_keys=True)
        if key not in seen and not has_nan(v):
            seen.add(key)
            pool.append(v)

    for v in FIXED_SCALARS + FIXED_SEQS:
        add(v)
    for x in EQUIV_STRS:
        add(x)
    for x in EQUIV_STRS[:16]:
        add(P("d/" + x))
        add((x,))
    for x in EQUIV_STRS[:7]:
        add(["k", (x, 1)])
        add(x.encode())
    target = len(pool) + n_random
    guard = 0
    while len(pool) < target and guard < 50 * n_random:
        guard += 1
        v = gen_value(rng, rng.choice([0, 1, 1, 2, 2, 3]))
        add(v)
        w = recut(rng, v)
        if w is not None and len(pool) < target:
            add(w)
        for w in equiv_neighbours(v)[:2]:
            if len(pool) < target:
                add(w)
    return pool


# ---------------------------------------------------------------------------------------------
# stream 1: hash_value on the pool — stability, separation, content-only, model
# ---------------------------------------------------------------------------------------------

def pair_replay(a, b):
    return {"stream": "pool", "a": to_json(a), "b": to_json(b)}


def eval_pool(values, seeds):
    jv = [to_json(v) for v in values]
    return run_workers([{"mode": "pool", "values": jv} for _ in seeds], seeds)


def check_pool_results(ctx, pool, sessions, seeds, count_cases=True):
    """Oracle over the real results. sessions[k][i] = {"r","k"} for pool[i] under seeds[k]."""
    n = len(pool)
    base = sessions[0]
    # (1) stability across interpreter sessions
    for i, v in enumerate(pool):
        rs = {(s[i]["r"], s[i]["k"]) for s in sessions}
        if len(rs) > 1:
            ctx.violation(f"unstable: hash_value({show(v)}) differs between interpreter sessions (PYTHONHASHSEED {seeds}): {sorted(rs)[:3]}",
                          {"stream": "pool1", "a": to_json(v), "seeds": seeds})
        if base[i]["k"].startswith("err"):
            ctx.violation(f"error: hash_value({show(v)}) raised {base[i]['k'][4:]}", {"stream": "pool1", "a": to_json(v), "seeds": seeds})
    res = [base[i]["r"] for i in range(n)]
    # (2) content only: what Python cannot tell apart gets one hash
    by_canon: dict = {}
    for i, v in enumerate(pool):
        by_canon.setdefault(py_canon(v), []).append(i)
    for idxs in by_canon.values():
        for i in idxs[1:]:
            if res[i] != res[idxs[0]]:
                ctx.violation(f"content: {show(pool[idxs[0]])} and {show(pool[i])} are equal for Python (== and hash) but hash_value differs",
                              pair_replay(pool[idxs[0]], pool[i]))
    # (3) separation: same-shape values that Python tells apart never share a hash_value
    by_res: dict = {}
    for i in range(n):
        by_res.setdefault(res[i], []).append(i)
    collisions = 0
    for idxs in by_res.values():
        for x in range(len(idxs)):
            for y in range(x + 1, len(idxs)):
                a, b = pool[idxs[x]], pool[idxs[y]]
                if same_shape(a, b) and told_apart(a, b):
                    collisions += 1
                    fid = "F3" if (f3_class(a, b) and f3_class(b, a)) else None
                    ctx.violation(f"collision: hash_value({show(a)}) == hash_value({show(b)}) although Python tells them apart",
                                  pair_replay(a, b), finding=fid)
    # accounting: all ordered pairs are decided through the two groupings above
    if count_cases:
        shapes: dict = {}
        for i, v in enumerate(pool):
            shapes.setdefault(_shape_key(v), []).append(i)
        nontriv = 0
        for idxs in shapes.values():
            for x in idxs:
                for y in idxs:
                    if x != y and same_shape(pool[x], pool[y]):
                        nontriv += 1
                        ctx.case(("pair", ser(pool[x]), ser(pool[y])), True,
                                 f"{show(pool[x])} vs {show(pool[y])}" if nontriv % 997 == 1 else None)
        ctx.evaluations += n * (n - 1) - nontriv      # pairs of different shape: nothing is demanded of them
        ctx.dist["pool_values"] += n
        ctx.dist["pool_sameshape_ordered_pairs"] += nontriv
        ctx.dist["pool_collisions_told_apart"] += collisions
        for v in pool:
            ctx.dist["pool_kind_" + kind(v)] += 1
    return res


def _shape_key(v):
    """Coarse bucket so that same_shape pairs are found without the full n² loop: kind of v (sequences: + kind of first element)."""
    k = kind(v)
    return k


def model_pool(ctx, pool, res, kinds):
    """Correspondence: partition, exact integers, exact digests via realised pre-images."""
    drv = ctx.driver()
    answers = drv.batch([f"hash.value v={ser(v)}" for v in pool])
    ctx.traces_validated += len(pool)
    mod = []
    for i, (v, ans) in enumerate(zip(pool, answers)):
        if not ans.startswith("ok:"):
            ctx.disagreement(f"model rejects value {show(v)}: {ans}", {"stream": "pool1", "a": to_json(v)})
            mod.append(f"?{i}")
            continue
        text = ans[3:]
        mod.append(text)
        try:
            want = realise(v, text)
        except (Unrealisable, UnicodeDecodeError) as e:
            ctx.disagreement(f"model answer for {show(v)} cannot be realised: {e}", {"stream": "pool1", "a": to_json(v)})
            continue
        if want != res[i] or (kinds[i] == "int") != (not hexkind(v)):
            ctx.disagreement(f"hash_value({show(v)}) = {res[i][:70]} but the model (with the real sha256 applied to its pre-images) gives {want[:70]}",
                             {"stream": "pool1", "a": to_json(v)})
    # partition induced by equal hashes, model vs real.  With the real sha256 applied to the model's pre-images
    # (`realised`) the two partitions must coincide.  The purely structural partition (stand-in digests) may only
    # be *finer*, and only where a value's content is itself a digest rendering (('a',) vs the str sha256('a').hexdigest()).
    realised = []
    for v, m in zip(pool, mod):
        try:
            realised.append(realise(v, m))
        except (Unrealisable, UnicodeDecodeError):
            realised.append("?" + m)
    for name, lab in (("realised", realised), ("structural", mod)):
        cls_real: dict = {}
        cls_mod: dict = {}
        for i in range(len(pool)):
            cls_real.setdefault(res[i], []).append(i)
            cls_mod.setdefault(lab[i], []).append(i)
        ctx.extra[f"pool_classes_real"] = len(cls_real)
        ctx.extra[f"pool_classes_model_{name}"] = len(cls_mod)
        rep_real = {i: idxs[0] for idxs in cls_real.values() for i in idxs}
        for idxs in cls_mod.values():               # the model equates ⇒ the implementation equates
            for i in idxs[1:]:
                if rep_real[i] != rep_real[idxs[0]]:
                    ctx.disagreement(f"partition ({name}): the model equates hash_value of {show(pool[idxs[0]])} and {show(pool[i])}, the implementation separates them",
                                     pair_replay(pool[idxs[0]], pool[i]))
                    return
        if name == "realised":
            rep_mod = {i: idxs[0] for idxs in cls_mod.values() for i in idxs}
            for idxs in cls_real.values():          # the implementation equates ⇒ the model equates
                for i in idxs[1:]:
                    if rep_mod[i] != rep_mod[idxs[0]]:
                        ctx.disagreement(f"partition ({name}): the implementation equates hash_value of {show(pool[idxs[0]])} and {show(pool[i])}, the model separates them",
                                         pair_replay(pool[idxs[0]], pool[i]))
                        return


def shrink_pair(a, b, fails, rounds=8):
    """Greedy shrinking of a colliding pair; `fails(list of (a,b))` evaluates candidates on the real code in one batch."""
    def cands(a, b):
        out = []
        if is_seq(a) and is_seq(b):
            for i in range(max(len(a), len(b))):
                a2 = type(a)(x for k, x in enumerate(a) if k != i)
                b2 = type(b)(x for k, x in enumerate(b) if k != i)
                out.append((a2, b2))
            if len(a) == 1 and len(b) == 1:
                out.append((a[0], b[0]))
            for i in range(min(len(a), len(b))):
                if is_seq(a[i]) and is_seq(b[i]):
                    out.append((a[i], b[i]))
                for repl in ("a", 0):
                    if kind(a[i]) == kind(b[i]) and not told_apart(a[i], b[i]) and a[i] != repl:
                        a2 = type(a)(repl if k == i else x for k, x in enumerate(a))
                        b2 = type(b)(repl if k == i else x for k, x in enumerate(b))
                        out.append((a2, b2))
        return [(x, y) for x, y in out if same_shape(x, y) and told_apart(x, y)]

    for _ in range(rounds):
        cs = cands(a, b)
        if not cs:
            break
        verdicts = fails(cs)
        nxt = next((c for c, f in zip(cs, verdicts) if f), None)
        if nxt is None:
            break
        a, b = nxt
    return a, b


def real_collides(pairs):
    flat = [x for p in pairs for x in p]
    r = run_worker({"mode": "pool", "values": [to_json(v) for v in flat]}, 0)
    return [r[2 * i]["r"] == r[2 * i + 1]["r"] and not r[2 * i]["k"].startswith("err") for i in range(len(pairs))]


def stream_pool(ctx):
    n_random = ctx.scale(170, 1400)
    pool = gen_pool(ctx.rng, n_random)
    nseeds = 3 if not ctx.thorough else 5
    seeds = [0] + [ctx.rng.randrange(1, 2 ** 31) for _ in range(nseeds)]
    sessions = eval_pool(pool, seeds)
    before = len(ctx.violations)
    res = check_pool_results(ctx, pool, sessions, seeds)
    # minimise plain (non-finding) collisions before they are written as replays
    for v in ctx.violations[before:]:
        if v["finding"] is None and v["what"].startswith("collision") and v["replay"].get("stream") == "pool":
            a, b = from_json(v["replay"]["a"]), from_json(v["replay"]["b"])
            try:
                a2, b2 = shrink_pair(a, b, real_collides)
            except Exception:  # noqa: BLE001
                continue
            if (a2, b2) != (a, b):
                v["what"] = f"collision: hash_value({show(a2)}) == hash_value({show(b2)}) although Python tells them apart (shrunk from {show(a)[:80]} / {show(b)[:80]})"
                v["replay"] = pair_replay(a2, b2)
                if f3_class(a2, b2) and f3_class(b2, a2):
                    v["finding"] = "F3"
    # PythonNode.state() is str(hash_value(value))
    states = run_worker({"mode": "pystate", "values": [to_json(v) for v in pool]}, seeds[1])
    for v, st, r in zip(pool, states, res):
        ctx.evaluations += 1
        if st != r:
            ctx.violation(f"pystate: PythonNode(value={show(v)}, hash=True).state() = {str(st)[:70]} is not str(hash_value(value)) = {r[:70]}",
                          {"stream": "pool1", "a": to_json(v), "seeds": seeds})
    check_pywrap(ctx, pool, res, seeds)
    if ctx.use_model:
        model_pool(ctx, pool, res, [sessions[0][i]["k"] for i in range(len(pool))])
    ctx.extra["pool_size"] = len(pool)
    ctx.extra["pool_sessions"] = seeds


def check_pywrap(ctx, pool, res, seeds):
    """A hashed PythonNode that is the product of one task and a dependency of another: the consumer's dependency is the wrapper
    `collect_dependency` builds while the node has no value yet. Its state must track the produced value like the node's own."""
    flags = [True] * len(pool) + [False] * min(12, len(pool))
    vals = pool + pool[:min(12, len(pool))]
    obs = run_worker({"mode": "pywrap", "values": [to_json(v) for v in vals], "flags": flags}, seeds[-1])
    by_state: dict = {}
    for i, (v, flag, ob) in enumerate(zip(vals, flags, obs)):
        ctx.evaluations += 1
        replay = {"stream": "pywrap", "a": to_json(v), "hash": flag}
        if "err" in ob:
            ctx.violation(f"pywrap-error: declaring / saving / state() of a PythonNode(hash={flag}) with value {show(v)} raised {ob['err']}", replay)
            continue
        if ob["w"] != ob["n"]:
            ctx.violation(f"pywrap-differs: PythonNode(hash={flag}) produced with {show(v)}: the consumer's dependency has state {str(ob['w'])[:40]!r}, the node itself {str(ob['n'])[:40]!r}", replay)
        if flag:
            ctx.case(("pywrap", ser(v)), True)
            by_state.setdefault(ob["w"], []).append(i)
    done = 0
    for idxs in by_state.values():          # different produced values (same shape, told apart) must change the consumer's state
        for x in range(len(idxs)):
            for y in range(x + 1, len(idxs)):
                a, b = vals[idxs[x]], vals[idxs[y]]
                if same_shape(a, b) and told_apart(a, b) and done < 50:
                    done += 1
                    fid = "F3" if (f3_class(a, b) and f3_class(b, a)) else None
                    ctx.violation(f"pywrap-collision: a hashed PythonNode produced with {show(a)} / with {show(b)} gives its consumer the same dependency state",
                                  {"stream": "pywrap", "a": to_json(a), "b": to_json(b), "hash": True}, finding=fid)
    ctx.dist["pywrap_values"] += len(pool)
    if ctx.use_model:
        lines = [f"hash.pywrap hash={'on' if f else 'off'} v={ser(v)}" for v, f in zip(vals, flags)]
        answers = ctx.driver().batch(lines)
        ctx.traces_validated += len(lines)
        for v, f, ob, ans in zip(vals, flags, obs, answers):
            if "err" in ob or not ans.startswith("ok:"):
                continue
            mw, mn = ans[3:].split(" ")
            try:
                want = (realise(v, mw), realise(v, mn)) if f else (mw, mn)
            except (Unrealisable, UnicodeDecodeError):
                continue
            if want != (ob["w"], ob["n"]):
                ctx.disagreement(f"PythonNode(hash={f}) produced with {show(v)}: dependency / node states {str(ob['w'])[:20]} / {str(ob['n'])[:20]}, the model gives {want[0][:20]} / {want[1][:20]}",
                                 {"stream": "pywrap", "a": to_json(v), "hash": f})
                break


def stream_nan(ctx):
    """Labelled side stream: float('nan') hashes by object identity in CPython >= 3.10."""
    vals = [float("nan"), (float("nan"),), ("a", float("nan"))]
    jv = [{"t": "float", "v": "nan"}, {"t": "tuple", "v": [{"t": "float", "v": "nan"}]},
          {"t": "tuple", "v": [{"t": "str", "v": [97]}, {"t": "float", "v": "nan"}]}]
    seeds = [ctx.rng.randrange(1, 2 ** 31) for _ in range(3)]
    sess = run_workers([{"mode": "pool", "values": jv} for _ in seeds], seeds)
    for i in range(len(vals)):
        ctx.case(("nan", i), True)
        rs = {s[i]["r"] for s in sess}
        if len(rs) > 1:
            ctx.violation(f"unstable-nan: hash_value of a value containing float('nan') differs between interpreter sessions ({len(rs)} results in {len(seeds)} sessions)",
                          {"stream": "nan", "index": i, "seeds": seeds}, finding="F18")


# ---------------------------------------------------------------------------------------------
# stream 2: pyHashInt vs CPython
# ---------------------------------------------------------------------------------------------

def stream_pyint(ctx):
    n = ctx.scale(10_000, 100_000)
    rng = ctx.rng
    ints = [0, 1, -1, -2, 2, M61, M61 + 1, M61 - 1, -M61, -M61 - 1, -M61 + 1, 2 * M61, 2 * M61 + 1, -2 * M61 - 1, 2 ** 61, 2 ** 62, 2 ** 63,
            2 ** 64, -(2 ** 63), 2 ** 122 - 1, (M61 + 1) ** 2, M61 ** 2, M61 ** 2 - 1, -(M61 ** 2) - 1]
    while len(ints) < n:
        bits = rng.choice([4, 16, 40, 60, 61, 62, 64, 100, 122, 200, 400])
        x = rng.getrandbits(bits)
        if rng.random() < 0.15:
            x = rng.randrange(-3, 4) + rng.randrange(0, 5) * M61
        ints.append(-x if rng.random() < 0.4 else x)
    real = run_worker({"mode": "pyint", "ints": [str(i) for i in ints]})
    for i in ints[:2000]:
        ctx.case(("pyint", i), abs(i) >= M61 or i == -1)
    ctx.evaluations += len(ints) - min(2000, len(ints))
    ctx.dist["pyint"] += len(ints)
    if not ctx.use_model:
        return
    answers = ctx.driver().batch([f"hash.pyint n={i}" for i in ints])
    ctx.traces_validated += len(ints)
    for i, r, m in zip(ints, real, answers):
        if r != m:
            ctx.disagreement(f"pyHashInt({i}) = {m} but CPython hash = {r}", {"stream": "pyint", "n": str(i)})
            break


# ---------------------------------------------------------------------------------------------
# stream 3: os.path.normpath vs the model on all short strings
# ---------------------------------------------------------------------------------------------

def stream_normpath(ctx):
    maxlen_chars = 8 if not ctx.thorough else 10
    strings = set()
    for L in range(0, maxlen_chars + 1):
        for t in itertools.product("a./", repeat=L):
            strings.add("".join(t))
    maxsym = 5 if not ctx.thorough else 7          # the symbol alphabet of DESIGN §5: a . .. /
    for L in range(0, maxsym + 1):
        for t in itertools.product(["a", ".", "..", "/"], repeat=L):
            strings.add("".join(t))
    for _ in range(ctx.scale(300, 3000)):
        strings.add("".join(ctx.rng.choice(["a", "b", ".", "..", "/", "/", "ab", "é"]) for _ in range(ctx.rng.randint(1, 14))))
    strings = sorted(strings)
    real = [os.path.normpath(s) for s in strings]
    for s, r in zip(strings, real):
        ctx.evaluations += 1
        # stdlib sanity the model's theorems mirror: idempotent, and pathlib's own tidying is subsumed
        if os.path.normpath(r) != r:
            ctx.disagreement(f"os.path.normpath is not idempotent on {s!r}", {"stream": "normpath", "s": s})
        if s and os.path.normpath(str(PurePosixPath(s))) != r:
            ctx.disagreement(f"normpath(str(Path(s))) != normpath(s) for {s!r}", {"stream": "normpath", "s": s})
    ctx.dist["normpath_strings"] += len(strings)
    for s in strings[:: max(1, len(strings) // 1500)]:
        ctx.case(("normpath", s), ".." in s or "//" in s or "/./" in s)
    if not ctx.use_model:
        return
    answers = ctx.driver().batch([f"path.norm cps={cps(s)}" for s in strings])
    ctx.traces_validated += len(strings)
    for s, r, m in zip(strings, real, answers):
        if m != cps(r):
            ctx.disagreement(f"normpath({s!r}) = {r!r}, the model gives code points {m}", {"stream": "normpath", "s": s})
            break


# ---------------------------------------------------------------------------------------------
# stream 4: signatures of node / task objects
# ---------------------------------------------------------------------------------------------

PATHS = ["/r/a", "/r/b", "/r/ab", "/r/a/b", "/r/a b", "/r/a/../b", "a", "b", "a/b", "/r/é", "/r/1", "/r/12", "/", "/r/task_m.py", "/r/d/task_m.py", "/q/task_m.py"]
NAMES = ["task_a", "task_b", "task_ab", "a", "b", "", "task_a[0]", "task_a[1-23]", "task_a[12-3]", "é", "/r/a"]
PATTERNS = ["*", "*.txt", "**/*.txt", "a", "b", "ab", "", "/r/a"]
PATHS += ["/r/" + x for x in EQUIV_STRS[:16]] + ["/r/" + EQUIV_STRS[0] + "/task_m.py", "/r/" + EQUIV_STRS[1] + "/task_m.py", "/R/a", "/r/A"]
NAMES += ["task_" + x for x in EQUIV_STRS[:9]] + ["Task_a", "task_a "]
PATTERNS += ["*." + x for x in EQUIV_STRS[:5]] + ["*.TXT"]
TREEPATHS = [(), ("k",), ("k", "l"), ("kl",), ("k", 0), ("k", 1), ("k", 10), (0,), (1,), (1, 23), (12, 3), (123,), (1, 2, 3), (12, 3, "k"), (1, 23, "k"),
             ("k", 1, 23), ("k", 12, 3), (0, "k"), ("0",), ("1", "23"), ("12", "3"), (0, 0), (-1,), (-2,)]


def sig_pool(rng):
    decls = []
    for p in PATHS:
        decls.append({"kind": "path", "p": p})
        decls.append({"kind": "pickle", "p": p})
    for p in PATHS[:6]:
        decls.append({"kind": "path", "p": p, "name": "other-name"})
    for b in NAMES:
        for p in ["/r/task_m.py", "/r/d/task_m.py", "/q/task_m.py", "/r/a", "/r/" + EQUIV_STRS[0] + "/task_m.py", "/r/" + EQUIV_STRS[1] + "/task_m.py"]:
            decls.append({"kind": "task", "base": b, "p": p})
        decls.append({"kind": "taskw", "name": b})
    for root in [None, "/r", "/r/d", "/r/a", "/q", "/r/" + EQUIV_STRS[2], "/r/" + EQUIV_STRS[3], "/r/" + EQUIV_STRS[4]]:
        for pat in PATTERNS:
            decls.append({"kind": "dir", "root": root, "pattern": pat})
    decls.append({"kind": "dir", "root": "/r", "pattern": "*", "name": "other-name"})
    combos = []
    for tp in TREEPATHS:
        combos.append(("arg", tp, "task_a", "/r/task_m.py"))
    for x in EQUIV_STRS[:7]:
        combos.append(("arg", ("k", x), "task_a", "/r/task_m.py"))
        combos.append((x, (), "task_" + x, "/r/" + x + ".py"))
    for arg, tn, tpath in [("arg2", "task_a", "/r/task_m.py"), ("arg", "task_b", "/r/task_m.py"), ("arg", "task_a", "/q/task_m.py"),
                           ("arg", "task_a", None), ("return", "task_a", None), ("", "", None)]:
        for tp in [(), ("k",), (1, 23), (12, 3)]:
            combos.append((arg, tp, tn, tpath))
    for _ in range(40):
        tp = tuple(rng.choice([rng.randrange(30), rng.randrange(300), "k", "l"]) for _ in range(rng.randint(0, 4)))
        combos.append((rng.choice(["arg", "arg2"]), tp, rng.choice(["task_a", "task_b"]), rng.choice(["/r/task_m.py", None])))
    for arg, tp, tn, tpath in combos:
        decls.append({"kind": "python", "arg": arg, "tp": list(tp), "tname": tn, "tpath": tpath})
    return decls


def sig_identity(d):
    """The identity relation of DESIGN §5 C12, per node kind (name and value are not part of identity)."""
    k = d["kind"]
    if k in ("path", "pickle"):
        return ("file", d["p"])           # PathNode and PickleNode on one path are one file
    if k == "task":
        return ("task", d["base"], d["p"])
    if k == "taskw":
        return ("taskw", d["name"])
    if k == "dir":
        return ("dir", d["root"], d["pattern"])
    return ("python", d["arg"], py_canon(tuple(d["tp"])), d["tname"], d["tpath"])   # positions Python's hash cannot tell apart (-1 / -2) are one


def sig_group(d):
    k = d["kind"]
    return "file" if k in ("path", "pickle") else k


def sig_model_line(d):
    k = d["kind"]
    if k in ("path", "pickle"):
        return f"hash.sig kind={k} path={cps(d['p'])}"
    if k == "task":
        return f"hash.sig kind=task base={cps(d['base'])} path={cps(d['p'])}"
    if k == "taskw":
        return f"hash.sig kind=taskw name={cps(d['name'])}"
    if k == "dir":
        return f"hash.sig kind=dir root={'none' if d['root'] is None else cps(d['root'])} pattern={cps(d['pattern'])}"
    tp = ",".join(("S" + cps(x)) if isinstance(x, str) else f"I{x}" for x in d["tp"])
    return f"hash.sig kind=python arg={cps(d['arg'])} tp={tp} tname={cps(d['tname'])} tpath={'none' if d['tpath'] is None else cps(d['tpath'])}"


def sig_values(d):
    """The field values entering the raw key, in declaration order of the model's `env…` (only used to realise digests)."""
    k = d["kind"]
    if k in ("path", "pickle"):
        return {"path": P(d["p"])}
    if k == "task":
        return {"base_name": d["base"], "path": P(d["p"])}
    if k == "taskw":
        return {"name": d["name"]}
    if k == "dir":
        return {"root_dir": None if d["root"] is None else P(d["root"]), "pattern": d["pattern"]}
    return {"arg_name": d["arg"], "path": tuple(d["tp"]), "task_name": d["tname"], "task_path": None if d["tpath"] is None else P(d["tpath"])}


def realise_sig(d, answer: str) -> str:
    """answer = `<pre-image of the signature>`; the pre-image is the raw key with stand-in digests per field."""
    raw = _bytes_of(answer).decode()
    vals = list(sig_values(d).values())
    groups = _GROUP.findall(raw)
    hexvals = [v for v in vals if hexkind(v)]
    if len(groups) == len(hexvals):
        it = iter(zip(hexvals, groups))
        raw = _GROUP.sub(lambda m: realise(*next(it)), raw)
    else:
        raise Unrealisable(f"{len(groups)} digests for {len(hexvals)} hashed fields")
    return hashlib.sha256(raw.encode()).hexdigest()


def check_sigs(ctx, decls, sigs, count=True):
    for d, s in zip(decls, sigs):
        if s.startswith("err:"):
            ctx.violation(f"sig-error: signature of {d} raised {s[4:]}", {"stream": "sig", "decls": [d]})
    groups: dict = {}
    for i, d in enumerate(decls):
        groups.setdefault(sig_group(d), []).append(i)
    for g, idxs in groups.items():
        by_id: dict = {}
        by_sig: dict = {}
        for i in idxs:
            by_id.setdefault(sig_identity(decls[i]), []).append(i)
            by_sig.setdefault(sigs[i], []).append(i)
        for ident, members in by_id.items():
            for i in members[1:]:
                if sigs[i] != sigs[members[0]]:
                    ctx.violation(f"sig-split: two {g} declarations with one identity {ident!a} have different signatures",
                                  {"stream": "sig", "decls": [decls[members[0]], decls[i]]})
        for s, members in by_sig.items():
            for x in range(len(members)):
                for y in range(x + 1, len(members)):
                    d1, d2 = decls[members[x]], decls[members[y]]
                    if sig_identity(d1) != sig_identity(d2):
                        fid = None
                        if g == "python" and (d1["arg"], d1["tname"], d1["tpath"]) == (d2["arg"], d2["tname"], d2["tpath"]) \
                                and f3_class(tuple(d1["tp"]), tuple(d2["tp"])) and f3_class(tuple(d2["tp"]), tuple(d1["tp"])):
                            fid = "F3"
                        ctx.violation(f"sig-merge: different {g} identities {sig_identity(d1)!a} / {sig_identity(d2)!a} share one signature",
                                      {"stream": "sig", "decls": [d1, d2]}, finding=fid)
        if count:
            m = len(idxs)
            for i in idxs:
                ctx.case(("sig", json.dumps(decls[i], sort_keys=True)), True, str(decls[i]) if i % 53 == 0 else None)
            ctx.evaluations += m * (m - 1) - m
            ctx.dist["sig_" + g] += m


def check_tasksigs(ctx, spellings, results, count=True):
    """One project, many spellings of `paths`: every spelling must collect the same tasks with the same identity."""
    ref = None
    for (cwd, sp, what), r in zip(spellings, results):
        replay = {"stream": "tasksig", "spellings": [list(ref[0]) if ref else [cwd, sp, what], [cwd, sp, what]]}
        if count:
            ctx.case(("tasksig", cwd, sp), ".." in sp or "lnk" in sp)
        if r["exit"] != 0 or not r["tasks"]:
            ctx.violation(f"paths-error: collecting with paths={sp!r} from ./{cwd} ended with exit {r['exit']} and {len(r['tasks'])} tasks", replay)
            continue
        if ref is None:
            ref = ((cwd, sp, what), r)
            continue
        a, b = ref[1]["tasks"], r["tasks"]
        if sorted(a) != sorted(b):
            ctx.violation(f"paths-tasks: paths={ref[0][1]!r} collects {sorted(a)}, paths={sp!r} from ./{cwd} collects {sorted(b)}", replay)
            continue
        for name in a:
            if a[name]["sig"] != b[name]["sig"]:
                ctx.violation(f"paths-split: task {name} of one unchanged module has two identities: paths={ref[0][1]!r} gives module path "
                              f"{a[name]['path']!r}, paths={sp!r} from ./{cwd} gives {b[name]['path']!r} (different signatures)", replay)
                break


def run_tasksigs(spellings, seed):
    root = common.scratch_dir("c12paths")
    try:
        make_paths_tree(root)
        reqs = [{"mode": "tasksigs", "cwd": str(root / cwd), "paths": [sp.replace("@ROOT", str(root))]} for cwd, sp, _ in spellings]
        res = run_workers(reqs, [seed] * len(reqs))
    finally:
        shutil.rmtree(root, ignore_errors=True)
    for r in res:       # replays and messages must not depend on the scratch location
        for t in r["tasks"].values():
            t["path"] = t["path"].replace(str(root), "@ROOT")
    return res


def stream_tasksigs(ctx):
    spellings = list(PATHS_SPELLINGS)
    res = run_tasksigs(spellings, ctx.rng.randrange(1, 2 ** 31))
    check_tasksigs(ctx, spellings, res)
    ctx.dist["paths_spellings"] += len(spellings)


def check_pynode_sigs(ctx, nodes, count=True):
    """Collected PythonNodes: same (directory, module, function, argument, tree position) <=> same signature."""
    by_sig: dict = {}
    for n in nodes:
        ident = (n["dir"], n["module"], n["func"], n["side"], n["arg"], tuple(n["tp"]))
        if count:
            ctx.case(("pynode-sig",) + ident, True)
        by_sig.setdefault(n["sig"], set()).add(ident)
    info = {(n["dir"], n["module"], n["func"], n["side"], n["arg"], tuple(n["tp"])): n for n in nodes}
    for sig, idents in by_sig.items():
        if len(idents) > 1:
            a, b = sorted(idents)[:2]
            fid = None      # F41 (merged container-valued plain arguments without node_info) is repaired: 91d0d18
            ctx.violation(f"pynode-merge: the python-value arguments {a[1]}::{a[2]}({a[4]}{list(a[5])}) in ./{a[0]} and {b[1]}::{b[2]}({b[4]}{list(b[5])}) in ./{b[0]} "
                          f"are different arguments but one DAG node (one signature)", {"stream": "pynodesig", "a": list(a), "b": list(b)}, finding=fid)
            if fid is None:
                return


def run_pynode_sigs(seed):
    root = common.scratch_dir("c12sib")
    try:
        make_siblings(root, {m: 1 for m in SIBLINGS})
        r = run_worker({"mode": "tasksigs", "cwd": str(root), "paths": [str(root)], "pynodes": True}, seed)
    finally:
        shutil.rmtree(root, ignore_errors=True)
    return r


def stream_pynode_sigs(ctx):
    r1 = run_pynode_sigs(ctx.rng.randrange(1, 2 ** 31))
    nodes = []
    for n in r1.get("pynodes", []):
        nodes.append(dict(n))
    if r1["exit"] != 0 or not nodes:
        ctx.violation(f"pynode-error: collecting the sibling-module project ended with exit {r1['exit']} and {len(nodes)} python nodes", {"stream": "pynodesig"})
        return
    check_pynode_sigs(ctx, nodes)
    ctx.dist["pynode_sig_nodes"] += len(nodes)


def stream_sigs(ctx):
    stream_tasksigs(ctx)
    stream_pynode_sigs(ctx)
    decls = sig_pool(ctx.rng)
    seeds = [0, ctx.rng.randrange(1, 2 ** 31)]
    a, b = run_workers([{"mode": "sigs", "decls": decls}] * 2, seeds)
    for d, x, y in zip(decls, a, b):
        if x != y:
            ctx.violation(f"sig-unstable: signature of {d} differs between interpreter sessions", {"stream": "sig", "decls": [d], "seeds": seeds})
    check_sigs(ctx, decls, a)
    if ctx.use_model:
        answers = ctx.driver().batch([sig_model_line(d) for d in decls])
        ctx.traces_validated += len(decls)
        for d, s, ans in zip(decls, a, answers):
            try:
                want = realise_sig(d, ans)
            except (Unrealisable, UnicodeDecodeError) as e:
                ctx.disagreement(f"model signature of {d} cannot be realised ({ans[:60]}): {e}", {"stream": "sig", "decls": [d]})
                break
            if want != s:
                ctx.disagreement(f"signature of {d} is {s[:16]}…, the model's raw key hashes to {want[:16]}…", {"stream": "sig", "decls": [d]})
                break


# ---------------------------------------------------------------------------------------------
# stream 5: state() of PathNode / PickleNode / Task on real files; the hash_path memo
# ---------------------------------------------------------------------------------------------

T0 = 1_600_000_000 * NS
KIB = 1024
MODEL_MAX_CONTENT = 4096     # longer contents are not sent through the line protocol (the model's state is sha(all bytes) at any size)


def content_bytes(c) -> bytes:
    """Same function as in hash_worker.py: list of bytes, or {"gen": [size, seed], "patch": [[offset, delta], …]}."""
    if isinstance(c, dict):
        size, seed = c["gen"]
        pat = bytes((seed * 7 + j * 13) % 256 for j in range(256))
        data = bytearray((pat * (size // 256 + 1))[:size])
        for off, delta in c.get("patch", []):
            data[off] = (data[off] + 1 + delta % 255) % 256
        return bytes(data)
    return bytes(c)


def gen_big_ops(rng, sizes, nedits: int):
    """Honest histories (fresh mtime for every write) over files whose sizes sit around powers of two; every edit changes ONE
    byte, at the beginning / in the middle / at the end / at a random offset. Also: an empty file, and two files of equal
    size and equal tail that differ in the first byte only."""
    ops, clock = [], T0 + 1000 * NS
    ops.append({"op": "write", "f": 2, "content": [], "mtime_ns": clock})
    ops.append({"op": "state", "f": 2, "kind": "path", "sp": 0})
    for size in sizes:
        seed = rng.randrange(256)
        places = [0, size // 2, size - 1, 1, size - 2] + [rng.randrange(size) for _ in range(max(0, nedits - 5))]
        rng.shuffle(places)
        patch = []
        clock += 7 * NS
        ops.append({"op": "write", "f": 0, "content": {"gen": [size, seed], "patch": []}, "mtime_ns": clock})
        ops.append({"op": "state", "f": 0, "kind": rng.choice(["path", "pickle", "task"]), "sp": rng.randrange(4)})
        for k, off in enumerate(places[:nedits]):
            patch = [q for q in patch if q[0] != off] + [[off, rng.randrange(255)]]
            single = rng.random() < 0.5            # either accumulate edits or apply this one alone
            clock += rng.choice([1000, NS, 61 * NS])
            ops.append({"op": "write", "f": 0, "content": {"gen": [size, seed], "patch": [patch[-1]] if single else list(patch)}, "mtime_ns": clock})
            ops.append({"op": "state", "f": 0, "kind": rng.choice(["path", "path", "pickle", "task"]), "sp": rng.randrange(4)})
        clock += NS
        ops.append({"op": "write", "f": 1, "content": {"gen": [size, seed], "patch": [[0, 0]]}, "mtime_ns": clock})   # other file, differs in byte 0 only
        ops.append({"op": "state", "f": 1, "kind": "path", "sp": rng.randrange(4)})
        ops.append({"op": "write", "f": 1, "content": {"gen": [size, seed], "patch": []}, "mtime_ns": clock + 500})   # … and now equal to the first version
        ops.append({"op": "state", "f": 1, "kind": "path", "sp": rng.randrange(4)})
    return ops


F4_WITNESS_OPS = [
    {"op": "write", "f": 0, "content": [118, 49], "mtime_ns": T0},
    {"op": "state", "f": 0, "kind": "path", "sp": 0},
    {"op": "write", "f": 0, "content": [118, 50], "mtime_ns": T0},       # new bytes, old mtime restored (os.utime)
    {"op": "state", "f": 0, "kind": "path", "sp": 0},
]


LINK_WITNESS_OPS = [   # a dependency reached through a symbolic link: the target is edited, the link is untouched; then re-pointed
    {"op": "write", "f": 0, "content": [118, 49], "mtime_ns": 1_600_000_000 * NS},
    {"op": "write", "f": 1, "content": [118, 49], "mtime_ns": 1_600_000_050 * NS},
    {"op": "write", "f": 2, "content": [119], "mtime_ns": 1_600_000_060 * NS},
    {"op": "symlink", "l": 0, "f": 0, "rel": False, "lmtime_ns": 1_500_000_000 * NS},
    {"op": "state", "f": 0, "l": 0, "kind": "path", "sp": 0},
    {"op": "state", "f": 0, "kind": "path", "sp": 0},
    {"op": "write", "f": 0, "content": [118, 50], "mtime_ns": 1_600_000_100 * NS},     # edit the target, fresh mtime
    {"op": "state", "f": 0, "l": 0, "kind": "path", "sp": 0},
    {"op": "state", "f": 0, "l": 0, "kind": "pickle", "sp": 1},
    {"op": "symlink", "l": 0, "f": 1, "rel": True, "lmtime_ns": 1_500_000_000 * NS},   # re-point: other file, other bytes
    {"op": "state", "f": 1, "l": 0, "kind": "path", "sp": 0},
    {"op": "symlink", "l": 0, "f": 2, "rel": False, "lmtime_ns": 1_500_000_000 * NS},  # re-point: third file
    {"op": "state", "f": 2, "l": 0, "kind": "task", "sp": 2},
    {"op": "write", "f": 0, "content": [119], "mtime_ns": 1_600_000_200 * NS},
    {"op": "symlink", "l": 0, "f": 0, "rel": False, "lmtime_ns": 1_500_000_000 * NS},  # re-point: other file, equal bytes
    {"op": "state", "f": 0, "l": 0, "kind": "path", "sp": 0},
]


UPATH_WITNESS_OPS = [   # one file as pathlib.Path and as UPath("file://…"); a twin with equal bytes; touch; edit (honest clock)
    {"op": "write", "f": 0, "content": [118, 49], "mtime_ns": 1_600_000_000 * NS},
    {"op": "state", "f": 0, "kind": "path", "sp": 0},
    {"op": "state", "f": 0, "kind": "upath", "sp": 0},
    {"op": "write", "f": 1, "content": [118, 49], "mtime_ns": 1_600_000_040 * NS},      # another file, the same bytes
    {"op": "state", "f": 1, "kind": "upath", "sp": 1},
    {"op": "utime", "f": 0, "mtime_ns": 1_600_000_100 * NS},                            # touch only
    {"op": "state", "f": 0, "kind": "upath", "sp": 0},
    {"op": "state", "f": 0, "kind": "pickle", "sp": 3},
    {"op": "write", "f": 0, "content": [118, 50], "mtime_ns": 1_600_000_200 * NS},      # real edit
    {"op": "state", "f": 0, "kind": "upath", "sp": 2},
    {"op": "state", "f": 0, "kind": "path", "sp": 1},
    {"op": "write", "f": 2, "content": {"gen": [256 * 1024 + 1, 5], "patch": []}, "mtime_ns": 1_600_000_300 * NS},
    {"op": "state", "f": 2, "kind": "upath", "sp": 0},
    {"op": "write", "f": 2, "content": {"gen": [256 * 1024 + 1, 5], "patch": [[0, 1]]}, "mtime_ns": 1_600_000_400 * NS},
    {"op": "state", "f": 2, "kind": "upath", "sp": 0},
]


def gen_ops(rng, nops: int, honest: bool, links: bool = False):
    """Random histories over 3 files (and, with links=True, 2 symbolic links to them).
    honest=True: every write gets a fresh mtime (monotone clock)."""
    contents = [[], [0], [97], [97, 98], [98, 97], list(range(256)), [255] * 40, [10], [13, 10]]
    times = [T0 - 86400 * NS * 400, T0, T0 + 1, T0 + NS, T0 + 3 * NS + 500_000_000, 4_000_000_000 * NS, 1 * NS]
    ops, clock = [], T0 + 10 * NS
    alive: dict = {}
    link_to: dict = {}
    ltimes = [T0 - 86400 * NS * 900, T0 - 5 * NS, None]
    for _ in range(nops):
        f = rng.randrange(3)
        r = rng.random()
        if links and rng.random() < 0.5:
            k = rng.randrange(2)
            if k not in link_to or rng.random() < 0.25:     # create / re-point (the link's own time is unrelated to the targets')
                ops.append({"op": "symlink", "l": k, "f": f, "rel": rng.random() < 0.5, "lmtime_ns": rng.choice(ltimes)})
                link_to[k] = f
            else:
                ops.append({"op": "state", "f": link_to[k], "l": k, "kind": rng.choice(["path", "path", "pickle", "task"]), "sp": rng.randrange(3)})
            continue
        if r < 0.30 or f not in alive:
            c = rng.choice(contents) if rng.random() < 0.7 else [rng.randrange(256) for _ in range(rng.randint(1, 60))]
            if honest:
                clock += rng.choice([1000, 50_000, NS, 7 * NS])
                mt = clock
            else:
                mt = rng.choice(times)
            ops.append({"op": "write", "f": f, "content": c, "mtime_ns": mt})
            alive[f] = True
        elif r < 0.42:
            if honest:
                clock += rng.choice([1000, NS])
                mt = clock
            else:
                mt = rng.choice(times)
            ops.append({"op": "utime", "f": f, "mtime_ns": mt})
        elif r < 0.46:
            ops.append({"op": "remove", "f": f})
            alive.pop(f, None)
        else:
            ops.append({"op": "state", "f": f, "kind": rng.choice(["path", "path", "pickle", "task", "upath", "upath"]), "sp": rng.randrange(4)})
    for f in list(alive):
        ops.append({"op": "state", "f": f, "kind": "path", "sp": rng.randrange(4)})
    for k, f in link_to.items():
        ops.append({"op": "state", "f": f, "l": k, "kind": "path", "sp": rng.randrange(3)})
    return ops


def check_ops(ctx, ops, obs, seq_id):
    """Oracle: same bytes ⇔ same state, over all observations of one process. Returns the annotated observations."""
    files: dict = {}
    mtimes: dict = {}
    links: dict = {}
    k = 0
    seen_by_content: dict = {}
    seen_by_state: dict = {}
    history = []          # (path string, mtime hex, content, state)
    out = []
    for pos, op in enumerate(ops):
        o = op["op"]
        if o == "write":
            files[op["f"]] = content_bytes(op["content"])
            mtimes[op["f"]] = op["mtime_ns"]
        elif o == "utime":
            mtimes[op["f"]] = op["mtime_ns"]
        elif o == "remove":
            files.pop(op["f"], None)
        elif o == "symlink":
            links[op["l"]] = op["f"]
        else:
            ob = obs[k]
            k += 1
            fidx = links.get(op["l"]) if op.get("l") is not None else op["f"]   # the file the spelling denotes (through the link)
            content = files.get(fidx)
            st = ob["state"]
            replay = {"stream": "ops", "ops": ops[:pos + 1]}
            out.append((op, ob, content))
            ctx.case(("ops", seq_id, pos), content is not None and (content in seen_by_content or len(seen_by_content) > 0))
            if isinstance(st, str) and st.startswith("err:"):
                ctx.violation(f"state-error: state() raised {st[4:]} on an existing file", replay)
                continue
            if content is None:
                if st is not None:
                    ctx.violation("state-missing: state() of a missing file is not None", replay)
                continue
            if st is None:
                ctx.violation("state-none: state() of an existing file is None", replay)
                continue
            stale = [h for h in history if h[0] == ob["path"] and h[1] == ob["mtime"] and h[2] != content and h[3] == st]
            fid = "F4" if stale else None
            if content in seen_by_content and seen_by_content[content] != st:
                ctx.violation(f"state-content: the same {len(content)} bytes got two different states (path spelling {op['sp']}{' through a symlink' if op.get('l') is not None else ''}{' as UPath(file://…)' if op.get('kind') == 'upath' else ''}, mtime {mtimes.get(fidx)})",
                              replay, finding=fid)
            elif st in seen_by_state and seen_by_state[st] != content:
                ctx.violation("state-sep: different bytes, same state" + (" (bytes changed under an identical path and mtime)" if stale else "")
                              + (" (file named through a symlink)" if op.get("l") is not None else "")
                              + (" (file named by a UPath(file://…))" if op.get("kind") == "upath" else ""),
                              replay, finding=fid)
            else:
                seen_by_content.setdefault(content, st)
                seen_by_state.setdefault(st, content)
            history.append((ob["path"], ob["mtime"], content, st))
    return out


def model_ops(ctx, ops, annotated):
    drv = ctx.driver()
    # contents beyond MODEL_MAX_CONTENT occur only in the honest large-file histories, where no lookup can hit an entry with other bytes
    annotated = [a for a in annotated if a[2] is None or len(a[2]) <= MODEL_MAX_CONTENT]
    lines = ["hash.memo.reset"]
    for op, ob, content in annotated:
        c = "none" if content is None else ".".join(str(b) for b in content)
        mh = ob["mh"] if ob["mh"] is not None else "0"
        lines.append(f"hash.state path={cps(ob['path'])} mt={mh} content={c}")
    answers = drv.batch(lines)[1:]
    ctx.traces_validated += len(annotated)
    for (op, ob, content), ans in zip(annotated, answers):
        want = None if ans == "none" else hashlib.sha256(_bytes_of(ans)).hexdigest()
        if want != ob["state"]:
            ctx.disagreement(f"state() = {str(ob['state'])[:16]}… for path {ob['path']!r} mtime-hash {ob['mh']}; the model (memo included) gives {str(want)[:16]}…",
                             {"stream": "ops", "ops": ops})
            return


def stream_states(ctx):
    nseq = ctx.scale(10, 60)
    seqs = [list(F4_WITNESS_OPS)]
    for i in range(nseq):
        seqs.append(gen_ops(ctx.rng, ctx.rng.randint(12, 40), honest=(i % 2 == 0)))
    big_from = len(seqs)
    sizes = [64 * KIB, 256 * KIB - 1, 256 * KIB, 256 * KIB + 1, 1024 * KIB]
    if ctx.thorough or ctx.budget > 1:
        sizes += [8 * KIB, 128 * KIB + 1, 512 * KIB, 1024 * KIB + 1, 2048 * KIB - 1, 4096 * KIB + 3] + [ctx.rng.randrange(16, 3000 * KIB) for _ in range(4)]
    for chunk in (sizes[0::2], sizes[1::2]):     # two processes
        seqs.append(gen_big_ops(ctx.rng, chunk, 5 if not ctx.thorough else 9))
    big_to = len(seqs)
    seqs.append(list(UPATH_WITNESS_OPS))
    big_to = len(seqs)          # (honest, and contains a large file: judged like the large-file histories)
    seqs.append(list(LINK_WITNESS_OPS))
    for i in range(max(2, nseq // 2)):      # the same histories with files also named through symbolic links
        seqs.append(gen_ops(ctx.rng, ctx.rng.randint(16, 44), honest=(i % 2 == 0), links=True))
    root = common.scratch_dir("c12ops")
    try:
        reqs = [{"mode": "ops", "root": str(root / f"s{i}"), "ops": ops} for i, ops in enumerate(seqs)]
        seeds = [ctx.rng.randrange(1, 2 ** 31) for _ in seqs]
        results = run_workers(reqs, seeds)
    finally:
        shutil.rmtree(root, ignore_errors=True)
    for i, (ops, obs) in enumerate(zip(seqs, results)):
        annotated = check_ops(ctx, ops, obs, i)
        ctx.dist["state_observations"] += len(annotated)
        if big_from <= i < big_to:
            ctx.dist["state_observations_large_files"] += len(annotated)
        ctx.dist["state_observations_upath"] += sum(1 for op, _, _ in annotated if op.get("kind") == "upath")
        ctx.dist["state_observations_through_symlink"] += sum(1 for op, _, _ in annotated if op.get("l") is not None)
        if 1 <= i <= nseq and (i - 1) % 2 == 0 or big_from <= i < big_to or i > big_to and (i - big_to - 1) % 2 == 0:
            ctx.dist["state_honest_sequences"] += 1
        if ctx.use_model:
            model_ops(ctx, ops, annotated)


# ---------------------------------------------------------------------------------------------
# stream 6: collection normalises spellings (collect.py:424-477)
# ---------------------------------------------------------------------------------------------

COLLECT_FILES = ["f.txt", "d/f.txt", "d/g.txt", "e/f.txt",
                 EQUIV_STRS[0] + ".txt", EQUIV_STRS[1] + ".txt", "d/" + EQUIV_STRS[5] + ".txt", "d/" + EQUIV_STRS[6] + ".txt", "F.txt"]
COLLECT_DIRS = ["d", "e", "d/sub", "d/" + EQUIV_STRS[2], "d/" + EQUIV_STRS[3], "d/" + EQUIV_STRS[4]]


def make_collect_tree(base: Path):
    for sub in COLLECT_DIRS:
        (base / sub).mkdir(parents=True, exist_ok=True)
    for f in COLLECT_FILES:
        (base / f).write_text(f)


def spellings(base: str, root: str, target: str):
    """Relative / absolute / dotted spellings of base/target (target relative to the task directory `base`)."""
    d, _, f = target.rpartition("/")
    pre = (d + "/") if d else ""
    parent = os.path.basename(base)
    rel = [target, "./" + target, pre + "./" + f, pre + "x/../" + f, "x/../" + target, "../" + parent + "/" + target,
           (d + "//" + f) if d else target, "x/y/../../" + target]
    ab = [base + "/" + target, base + "/./" + target, base + "/x/../" + target, base + "//" + target, root + "/" + os.path.relpath(base + "/" + target, root),
          base + "/../" + parent + "/" + target]
    return rel, ab


def collect_decls(root: str, base: str):
    decls = []
    for target in COLLECT_FILES:
        rel, ab = spellings(base, root, target)
        for sp in rel + ab:
            for form in ("plain", "pathnode", "picklenode"):
                decls.append({"form": form, "sp": sp, "target": target})
    for target in COLLECT_DIRS:
        rel, ab = spellings(base, root, target)
        for sp in rel + ab:
            for pat in ("*.txt", "*"):
                decls.append({"form": "dirnode", "sp": sp, "pattern": pat, "target": target})
    return decls


def corpus_collect_decls(root: str, base: str):
    """Witnesses of repaired findings (corpus/C12/*.json, stream "collect"), re-rooted; they run with every campaign."""
    out = []
    for f in sorted((common.VERIF / "corpus" / "C12").glob("*.json")):
        obj = json.loads(f.read_text())
        if obj.get("stream") == "collect":
            out += [dict(d, sp=d["sp"].replace("@BASE", base).replace("@ROOT", root)) for d in obj["decls"]]
    return out


def collect_identity(base: str, d):
    p = d["sp"] if d["sp"].startswith("/") else base + "/" + d["sp"]
    n = os.path.normpath(p)
    return ("dir", n, d["pattern"]) if d["form"] == "dirnode" else ("file", n)


def check_collect(ctx, base, decls, results, count=True):
    by_id: dict = {}
    by_sig: dict = {}
    for i, (d, r) in enumerate(zip(decls, results)):
        if "err" in r:
            ctx.violation(f"collect-error: collecting {d} raised {r['err']}", {"stream": "collect", "decls": [d]})
            continue
        by_id.setdefault(collect_identity(base, d), []).append(i)
        by_sig.setdefault((r["sig"], d["form"] == "dirnode"), []).append(i)
        if count:
            ctx.case(("collect", d["form"], d["sp"], d.get("pattern")), d["sp"] != d["target"], f"{d['form']}:{d['sp']}" if i % 41 == 0 else None)
    for ident, members in by_id.items():
        ref = members[0]
        for i in members[1:]:
            if results[i]["sig"] != results[ref]["sig"]:
                ctx.violation(f"collect-split: {decls[ref]['form']}:{decls[ref]['sp']!r} and {decls[i]['form']}:{decls[i]['sp']!r} "
                              f"name the same {ident[0]} {ident[1]!r} but become different DAG nodes ({results[ref]['path']!r} / {results[i]['path']!r})",
                              {"stream": "collect", "decls": [decls[ref], decls[i]]})   # F17 (absolute node paths) is repaired: c8f94b3
    for key, members in by_sig.items():
        ids = {collect_identity(base, decls[i]) for i in members}
        if len(ids) > 1:
            i, j = members[0], next(m for m in members if collect_identity(base, decls[m]) != collect_identity(base, decls[members[0]]))
            ctx.violation(f"collect-merge: {decls[i]['sp']!a} and {decls[j]['sp']!a} are different {'patterns' if key[1] else 'files'} but one DAG node",
                          {"stream": "collect", "decls": [decls[i], decls[j]]})
    if count:
        n = len(decls)
        ctx.evaluations += n * (n - 1) - n
        ctx.dist["collect_decls"] += n


def run_collect(decls):
    root = common.scratch_dir("c12col")
    try:
        base = root / "w"
        make_collect_tree(base)
        # the decls were generated for a symbolic root; re-root them
        return str(root), str(base), run_worker({"mode": "collect", "root": str(root), "base": str(base), "decls": decls})
    finally:
        shutil.rmtree(root, ignore_errors=True)


def stream_collect(ctx):
    root = common.scratch_dir("c12col")
    try:
        base = root / "w"
        make_collect_tree(base)
        decls = corpus_collect_decls(str(root), str(base)) + collect_decls(str(root), str(base))   # corpus first (F17, fixed: must pass)
        results = run_worker({"mode": "collect", "root": str(root), "base": str(base), "decls": decls}, ctx.rng.randrange(1, 2 ** 31))
    finally:
        shutil.rmtree(root, ignore_errors=True)
    # replays must not depend on the scratch location: store spellings relative to the symbolic roots
    sym = [dict(d, sp=d["sp"].replace(str(base), "@BASE").replace(str(root), "@ROOT")) for d in decls]
    before = len(ctx.violations)
    check_collect(ctx, str(base), decls, results)
    for v in ctx.violations[before:]:
        v["replay"]["decls"] = [sym[decls.index(d)] for d in v["replay"]["decls"]]
        v["what"] = v["what"].replace(str(base), "@BASE").replace(str(root), "@ROOT")
    if ctx.use_model:
        lines = [f"path.collect kind={'plain' if d['form'] == 'plain' else 'node'} base={cps(str(base))} p={cps(str(PurePosixPath(d['sp'])))}" for d in decls]
        answers = ctx.driver().batch(lines)
        ctx.traces_validated += len(decls)
        for d, r, ans in zip(decls, results, answers):
            if "err" in r:
                continue
            if ans != cps(r["path"]):
                ctx.disagreement(f"collected path of {d['form']}:{d['sp']!r} is {r['path']!r}; the model gives code points {ans}",
                                 {"stream": "collect", "decls": [sym[decls.index(d)]]})
                break


# ---------------------------------------------------------------------------------------------
# stream 7: end to end — a changed hashed value / changed bytes re-execute, touching does not
# ---------------------------------------------------------------------------------------------

TASK_VALUE = '''from pathlib import Path
from typing import Annotated
from pytask import Product, PythonNode

VALUE = eval(Path(__file__).with_name("value.txt").read_text(), {"PosixPath": Path, "PurePosixPath": Path, "inf": float("inf")})


def task_use(v: Annotated[object, PythonNode(value=VALUE, hash=True)], out: Annotated[Path, Product] = Path("out.txt")):
    out.write_text(repr(v))
'''

TASK_FILE = '''from pathlib import Path
from typing import Annotated
from pytask import Product


def task_copy(inp: Path = Path("in.bin"), out: Annotated[Path, Product] = Path("out.bin")):
    out.write_bytes(inp.read_bytes() + b"!")
'''


TASK_LINK = TASK_FILE.replace('Path("in.bin")', 'Path("in.lnk")')     # the dependency is declared through a symbolic link


def link_scenarios(rng):
    """kind "link": in.lnk -> data<target>.bin. Each step optionally rewrites one data file (content, mtime) and names the
    file the link must point to; the link is re-created only when its target changes (otherwise it is left untouched)."""
    t = T0
    return [
        {"kind": "link", "steps": [    # edit the target (fresh mtimes), link untouched; touch only; identical rewrite
            {"target": 0, "write": 0, "content": [118, 49], "mtime_ns": t},
            {"target": 0, "write": 0, "content": [118, 50], "mtime_ns": t + 60 * NS},
            {"target": 0, "write": 0, "content": [118, 50], "mtime_ns": t + 120 * NS},
            {"target": 0, "write": 0, "content": [118, 51], "mtime_ns": t + 180 * NS}]},
        {"kind": "link", "steps": [    # re-point to another file: different bytes, then equal bytes, then back
            {"target": 0, "write": 0, "content": [97], "mtime_ns": t},
            {"target": 1, "write": 1, "content": [98], "mtime_ns": t + 30 * NS},
            {"target": 2, "write": 2, "content": [98], "mtime_ns": t + 90 * NS},
            {"target": 0, "write": None, "content": None, "mtime_ns": None}]},
        {"kind": "link", "steps": [{"target": rng.randrange(2), "write": rng.randrange(2),
                                    "content": [rng.randrange(256) for _ in range(rng.randint(1, 30))], "mtime_ns": t + (i + 1) * 40 * NS + rng.randrange(1000)}
                                   for i in range(4)]},
    ]


TASK_PYNODE = '''from pathlib import Path
from typing import Annotated, Any
from pytask import Product, PythonNode

shared = PythonNode(name="shared", hash=True)


def task_make(src: Path = Path("value.txt")) -> Annotated[Any, shared]:
    return eval(src.read_text(), {"PosixPath": Path, "PurePosixPath": Path, "inf": float("inf")})


def task_use(v: Annotated[Any, shared], out: Annotated[Path, Product] = Path("out.txt")):
    out.write_text(repr(v))
'''


def pynode_scenarios(rng):
    """kind "pynode": the hashed node is the PRODUCT of task_make and a DEPENDENCY of task_use; the produced value changes."""
    return [
        {"kind": "pynode", "values": [1, 2, 3]},
        {"kind": "pynode", "values": [("a", 1), ("a", 2), ("b", 2)]},
    ]


# --- spellings of the `paths` argument (build(paths=…), CLI, pyproject.toml all go through shared.parse_paths) -------------------
# layout under a scratch root:  proj/{pyproject.toml, task_m.py, in.bin, sub/deep/}   other/   lnk -> proj   far/lnk2 -> ../proj
PATHS_SPELLINGS = [   # (working directory relative to the root, spelling of the paths argument, what it denotes)
    ("", "@ROOT/proj", "dir"), ("", "proj", "dir"), ("", "./proj", "dir"), ("proj", ".", "dir"),
    ("", "proj/sub/..", "dir"), ("", "proj/./sub/..", "dir"), ("", "other/../proj", "dir"), ("", "proj/sub/deep/../..", "dir"),
    ("proj/sub", "..", "dir"), ("proj/sub", "../../proj", "dir"), ("proj/sub/deep", "../..", "dir"), ("other", "../proj", "dir"),
    ("", "@ROOT/proj/sub/..", "dir"), ("", "@ROOT/other/../proj", "dir"),
    ("", "proj/task_m.py", "file"), ("", "@ROOT/proj/task_m.py", "file"), ("", "proj/sub/../task_m.py", "file"),
    ("", "proj/sub/deep/../../task_m.py", "file"), ("proj/sub", "../task_m.py", "file"), ("", "@ROOT/proj/sub/../task_m.py", "file"),
    ("", "lnk", "dir"), ("", "lnk/sub/..", "dir"), ("", "lnk/task_m.py", "file"), ("", "far/lnk2", "dir"), ("", "far/lnk2/sub/../task_m.py", "file"),
    ("far", "lnk2/sub/..", "dir"), ("", "@ROOT/lnk/sub/deep/../..", "dir"),
]


def make_paths_tree(root: Path):
    proj = root / "proj"
    (proj / "sub" / "deep").mkdir(parents=True)
    (root / "other").mkdir()
    (root / "far").mkdir()
    (proj / "pyproject.toml").write_text("[tool.pytask.ini_options]\n")
    (proj / "task_m.py").write_text(TASK_FILE)
    (proj / "in.bin").write_bytes(b"v1")
    os.utime(proj / "in.bin", ns=(T0, T0))
    (root / "lnk").symlink_to("proj")
    (root / "far" / "lnk2").symlink_to("../proj")


def spell_scenarios(rng):
    """kind "spell": a history of builds of ONE unchanged project, every build naming it by another spelling of `paths`."""
    n = len(PATHS_SPELLINGS)
    dotdot = [i for i, sp in enumerate(PATHS_SPELLINGS) if ".." in sp[1]]
    out = [{"kind": "spell", "steps": [1, 4, 16, 20, 0]},          # relative, through sub/.., file through sub/.., symlink, absolute
           {"kind": "spell", "steps": [0, 8, 21, 9]}]
    out.append({"kind": "spell", "steps": [rng.randrange(n), rng.choice(dotdot), rng.randrange(n), rng.choice(dotdot)]})
    return out


# --- python-value arguments of same-named tasks in sibling modules of one directory -----------------------------------------------
TASK_SIBLING = '''from pathlib import Path
from typing import Annotated
from pytask import Product, PythonNode

HERE = Path(__file__)
VALUE = eval(HERE.with_name("value_" + HERE.stem + ".txt").read_text(), {"PosixPath": Path, "PurePosixPath": Path, "inf": float("inf")})


def task_use(v: Annotated[object, PythonNode(value=VALUE, hash=True)], w=(VALUE, {"k": [VALUE]}),
             out: Annotated[Path, Product] = Path("out_" + HERE.stem + ".txt")):
    out.write_text(repr(v))


def task_other(v: Annotated[object, PythonNode(value=VALUE, hash=True)],
               out: Annotated[Path, Product] = Path("out2_" + HERE.stem + ".txt")):
    out.write_text(repr(v))
'''
SIBLINGS = ["task_a", "task_b", "task_c"]


def make_siblings(root: Path, values: dict):
    (root / "sub").mkdir(exist_ok=True)
    for m in SIBLINGS:
        for d in (root, root / "sub"):
            if not (d / f"{m}.py").exists():
                (d / f"{m}.py").write_text(TASK_SIBLING)
        write_sibling_values(root, {m: values[m]})
        (root / "sub" / f"value_{m}.txt").write_text(repr(values[m]))


def write_sibling_values(root: Path, values: dict):
    for m, v in values.items():
        (root / f"value_{m}.txt").write_text(repr(v).replace("PurePosixPath", "PosixPath"))


def sibling_scenarios(rng):
    """kind "siblings": same function and argument names in sibling modules; one hashed value changes per build."""
    pool = [1, 2, 3, "a", "b", ("x", 1), ("x", 2), 7.5, None]
    hist = [{"task_a": 1, "task_b": 1, "task_c": 1}, {"task_a": 2}, {"task_b": 2}, {"task_c": "a"}, {"task_a": 1}]
    rnd = [{m: rng.choice(pool) for m in SIBLINGS}]
    for _ in range(3):
        rnd.append({rng.choice(SIBLINGS): rng.choice(pool)})
    return [{"kind": "siblings", "steps": hist}, {"kind": "siblings", "steps": rnd}]


def check_siblings(ctx, sc, builds, sid):
    cur: dict = {}
    for i, (step, b) in enumerate(zip(sc["steps"], builds)):
        replay = {"stream": "e2e", "scenario": _sc_json(sc), "upto": i + 1}
        ctx.case(("e2e-sib", sid, i), i > 0)
        if b["exit"] != 0:
            ctx.violation(f"e2e-error: build {i + 1} of the sibling-module project ended with exit {b['exit']}", replay)
            return
        changed = {m for m, v in step.items() if m not in cur or py_canon(cur[m]) != py_canon(v)}
        demand = {m for m in changed if m not in cur or (same_shape(cur[m], step[m]) and told_apart(cur[m], step[m]))
                  or kind(cur[m]) != kind(step[m])}
        cur.update(step)
        for m in SIBLINGS:
            for fn in ("task_use", "task_other"):
                outc = b["by_module"].get(f"{m}.py::{fn}")
                if outc not in ("SUCCESS", "SKIP_UNCHANGED"):
                    ctx.violation(f"e2e-error: build {i + 1}: {m}.py::{fn} ended with {outc}", replay)
                    return
                if m in demand and outc != "SUCCESS":
                    ctx.violation(f"sibling-stale: build {i + 1}: the hashed value of argument v of {m}.py::{fn} changed ({show(step[m])}) but the task was not "
                                  f"re-executed (same function and argument names exist in the sibling modules)", replay)
                if m not in changed and outc == "SUCCESS":
                    ctx.violation(f"sibling-rerun: build {i + 1}: only the value in {sorted(changed)} changed, but {m}.py::{fn}, whose own hashed argument is unchanged, re-executed", replay)


def value_scenarios(rng):
    sc = [
        {"kind": "value", "values": [(1, 23), (1, 23), (12, 3), (1, 24)]},                 # F3 in the third build
        {"kind": "value", "values": [1, 1.0, True, 2, 2]},
        {"kind": "value", "values": ["a", "a", "b", b"b"]},
        {"kind": "value", "values": [("k", ("x", 1)), ("k", ("x", 1)), ("k", ("x", 2)), ("k", ("y", 2))]},
        {"kind": "value", "values": [None, None, (None,), (None, None)]},
    ]
    pool = [v for v in FIXED_SEQS + FIXED_SCALARS if not has_nan(v) and "\x00" not in repr(v)]
    for _ in range(3):
        a = rng.choice(pool)
        same = [b for b in pool if same_shape(a, b)]
        sc.append({"kind": "value", "values": [a] + [rng.choice(same) for _ in range(3)]})
    return sc


def file_scenarios(rng):
    t = T0
    return [
        {"kind": "file", "steps": [  # honest history: touch, identical rewrite, real change
            {"content": [118, 49], "mtime_ns": t}, {"content": [118, 49], "mtime_ns": t + 5 * NS}, {"content": [118, 49], "mtime_ns": t - 9 * NS},
            {"content": [118, 50], "mtime_ns": t + 7 * NS}, {"content": [118, 50], "mtime_ns": 4_000_000_000 * NS}]},
        {"kind": "file", "steps": [  # F4: bytes change, mtime restored
            {"content": [118, 49], "mtime_ns": t}, {"content": [118, 50], "mtime_ns": t}, {"content": [118, 50], "mtime_ns": t + NS}]},
        {"kind": "file", "steps": [{"content": [rng.randrange(256) for _ in range(rng.randint(0, 50))], "mtime_ns": t + i * NS * rng.choice([1, 60]) + 17}
                                   for i in range(4)]},
        {"kind": "file", "steps": [  # a large dependency (just over 256 KiB): one byte changes at the beginning / the end; touch
            {"content": {"gen": [256 * KIB + 1, 3], "patch": []}, "mtime_ns": t},
            {"content": {"gen": [256 * KIB + 1, 3], "patch": [[0, 1]]}, "mtime_ns": t + 60 * NS},
            {"content": {"gen": [256 * KIB + 1, 3], "patch": [[0, 1]]}, "mtime_ns": t + 120 * NS},
            {"content": {"gen": [256 * KIB + 1, 3], "patch": [[0, 1], [256 * KIB, 5]]}, "mtime_ns": t + 180 * NS}]},
    ]


def run_scenario(sc, hashseed):
    root = common.scratch_dir("c12e2e")
    builds = []
    try:
        if sc["kind"] in ("value", "pynode"):
            (root / "task_m.py").write_text(TASK_VALUE if sc["kind"] == "value" else TASK_PYNODE)
            for v in sc["values"]:
                (root / "value.txt").write_text(repr(v).replace("PurePosixPath", "PosixPath"))
                r = run_worker({"mode": "build", "root": str(root)}, hashseed)
                r["product"] = (root / "out.txt").read_text() if (root / "out.txt").exists() else None
                builds.append(r)
        elif sc["kind"] == "siblings":
            cur: dict = {}
            for step in sc["steps"]:
                cur.update(step)
                if len(cur) == len(step) and not (root / "task_a.py").exists():
                    make_siblings(root, cur)
                else:
                    write_sibling_values(root, step)
                builds.append(run_worker({"mode": "build", "root": str(root)}, hashseed))
        elif sc["kind"] == "spell":
            make_paths_tree(root)
            for k in sc["steps"]:
                cwd, sp, _ = PATHS_SPELLINGS[k]
                r = run_worker({"mode": "build", "root": str(root), "cwd": str(root / cwd), "paths": [sp.replace("@ROOT", str(root))]}, hashseed)
                r["product"] = list((root / "proj" / "out.bin").read_bytes()) if (root / "proj" / "out.bin").exists() else None
                builds.append(r)
        elif sc["kind"] == "link":
            (root / "task_m.py").write_text(TASK_LINK)
            for i in range(3):      # all data files exist from the start, with distinct old mtimes
                (root / f"data{i}.bin").write_bytes(b"init%d" % i)
                os.utime(root / f"data{i}.bin", ns=((T0 - (9 - i) * 1000 * NS),) * 2)
            cur_target = None
            for st in sc["steps"]:
                if st["write"] is not None:
                    (root / f"data{st['write']}.bin").write_bytes(content_bytes(st["content"]))
                    os.utime(root / f"data{st['write']}.bin", ns=(st["mtime_ns"], st["mtime_ns"]))
                if st["target"] != cur_target:
                    lp = root / "in.lnk"
                    if lp.is_symlink():
                        lp.unlink()
                    lp.symlink_to(f"data{st['target']}.bin")
                    os.utime(lp, ns=((T0 - 5000 * NS),) * 2, follow_symlinks=False)   # the link's own time never moves
                    cur_target = st["target"]
                r = run_worker({"mode": "build", "root": str(root)}, hashseed)
                r["product"] = list((root / "out.bin").read_bytes()) if (root / "out.bin").exists() else None
                r["dep_bytes"] = list((root / "in.lnk").read_bytes())
                r["dep_mtime_ns"] = (root / "in.lnk").stat().st_mtime_ns
                builds.append(r)
        else:
            (root / "task_m.py").write_text(TASK_FILE)
            for st in sc["steps"]:
                (root / "in.bin").write_bytes(content_bytes(st["content"]))
                os.utime(root / "in.bin", ns=(st["mtime_ns"], st["mtime_ns"]))
                r = run_worker({"mode": "build", "root": str(root)}, hashseed)
                r["product"] = list((root / "out.bin").read_bytes()) if (root / "out.bin").exists() else None
                builds.append(r)
    finally:
        shutil.rmtree(root, ignore_errors=True)
    return builds


_UNSET = object()


def check_scenario(ctx, sc, builds, sid):
    if sc["kind"] == "siblings":
        return check_siblings(ctx, sc, builds, sid)
    name = "task_use" if sc["kind"] in ("value", "pynode") else "task_copy"
    prev = _UNSET         # the input as of the last execution (what the recorded state describes)
    seen_mt: dict = {}    # mtime -> bytes the file had when a build first saw it under that mtime
    for i, b in enumerate(builds):
        if sc["kind"] == "spell":
            cur = b"v1"
        elif sc["kind"] in ("value", "pynode"):
            cur = sc["values"][i]
        elif sc["kind"] == "link":
            cur = bytes(b["dep_bytes"])            # the bytes the declared path denotes (through the link) at build time
        else:
            cur = content_bytes(sc["steps"][i]["content"])
        replay = {"stream": "e2e", "scenario": _sc_json(sc), "upto": i + 1}
        ctx.case(("e2e", sid, i), i > 0)
        outc = b["outcomes"].get(name)
        if b["exit"] != 0 or outc not in ("SUCCESS", "SKIP_UNCHANGED"):
            ctx.violation(f"e2e-error: build {i + 1} of a trivial project ended with exit {b['exit']} / outcome {outc}", replay)
            return
        executed = outc == "SUCCESS"
        if sc["kind"] == "spell":
            cwd, sp, _ = PATHS_SPELLINGS[sc["steps"][i]]
            demand, must_skip, fid = prev is _UNSET, prev is not _UNSET, None
            what = "first build"
            if must_skip and executed:
                pc, ps, _ = PATHS_SPELLINGS[sc["steps"][i - 1]]
                ctx.violation(f"paths-rerun: build {i + 1}: nothing changed except the spelling of `paths` ({ps!r} from ./{pc} -> {sp!r} from ./{cwd}) "
                              f"but the unchanged task re-executed", replay)
                must_skip = False
        elif sc["kind"] in ("value", "pynode"):
            demand = prev is _UNSET or (same_shape(prev, cur) and told_apart(prev, cur))
            # pynode: an unchanged value.txt skips the producer and leaves the in-memory node without a value: nothing is demanded then
            must_skip = sc["kind"] == "value" and prev is not _UNSET and py_canon(prev) == py_canon(cur)
            fid = "F3" if (prev is not _UNSET and f3_class(prev, cur) and f3_class(cur, prev)) else None
            what = (f"the hashed value changed ({show(prev)} -> {show(cur)})" if sc["kind"] == "value" else
                    f"the value task_make produces into the hashed PythonNode changed ({show(prev)} -> {show(cur)})")
        else:
            mt = b["dep_mtime_ns"] if sc["kind"] == "link" else sc["steps"][i]["mtime_ns"]   # what stat() of the declared path sees
            demand = prev is _UNSET or prev != cur
            must_skip = not demand
            fid = "F4" if (mt in seen_mt and seen_mt[mt] != cur) else None
            seen_mt.setdefault(mt, cur)
            what = "the bytes of the dependency changed" + (" (under an mtime an earlier build saw with other bytes)" if fid else "")
        if demand and not executed:
            ctx.violation(f"e2e-stale: build {i + 1}: {what} but the task was not re-executed", replay, finding=fid)
        if must_skip and executed:
            ctx.violation(f"e2e-rerun: build {i + 1}: nothing Python can tell apart changed (touch / identical rewrite / equal value) but the task re-executed", replay)
        if executed:
            prev = cur
            if sc["kind"] in ("file", "link", "spell") and b["product"] != list(cur + b"!"):
                ctx.violation(f"e2e-product: build {i + 1} executed but the product does not hold the current bytes", replay)


def _sc_json(sc):
    if sc["kind"] == "siblings":
        return {"kind": "siblings", "steps": [{m: to_json(v) for m, v in st.items()} for st in sc["steps"]]}
    if sc["kind"] in ("value", "pynode"):
        return {"kind": sc["kind"], "values": [to_json(v) for v in sc["values"]]}
    return sc


def _sc_from_json(j):
    if j["kind"] == "siblings":
        return {"kind": "siblings", "steps": [{m: from_json(v) for m, v in st.items()} for st in j["steps"]]}
    if j["kind"] in ("value", "pynode"):
        return {"kind": j["kind"], "values": [from_json(v) for v in j["values"]]}
    return j


def stream_e2e(ctx):
    scs = value_scenarios(ctx.rng) + file_scenarios(ctx.rng) + link_scenarios(ctx.rng) + pynode_scenarios(ctx.rng) + spell_scenarios(ctx.rng) + sibling_scenarios(ctx.rng)
    if ctx.thorough or ctx.budget > 1:
        scs += value_scenarios(ctx.rng)[5:] + file_scenarios(ctx.rng)[2:3] + link_scenarios(ctx.rng)[2:]
    seeds = [ctx.rng.randrange(1, 2 ** 31) for _ in scs]
    with ThreadPoolExecutor(max_workers=min(16, len(scs))) as ex:
        results = list(ex.map(lambda a: run_scenario(*a), zip(scs, seeds)))
    for i, (sc, builds) in enumerate(zip(scs, results)):
        check_scenario(ctx, sc, builds, i)
        ctx.dist["e2e_builds"] += len(builds)
    ctx.dist["e2e_scenarios"] += len(scs)


# ---------------------------------------------------------------------------------------------
# campaign and replay
# ---------------------------------------------------------------------------------------------

STREAMS = [("pool", stream_pool), ("pyint", stream_pyint), ("normpath", stream_normpath), ("sigs", stream_sigs),
           ("states", stream_states), ("collect", stream_collect), ("e2e", stream_e2e), ("nan", stream_nan)]


def campaign(ctx):
    import time
    times = {}
    for name, fn in STREAMS:
        t = time.time()
        fn(ctx)
        times[name] = round(time.time() - t, 2)
    ctx.extra["stream_wall_s"] = times
    ctx.exhaustive = True      # normpath: exhaustive over short strings; pool: all ordered pairs


def replay(ctx, obj):
    inp = obj["input"]
    st = inp["stream"]
    seed = obj.get("seed", 0)
    if st in ("pool", "pool1"):
        vals = [from_json(inp["a"])] + ([from_json(inp["b"])] if "b" in inp else [])
        seeds = inp.get("seeds") or [0, seed + 1, seed + 2, seed + 3]
        sessions = eval_pool(vals, seeds)
        res = check_pool_results(ctx, vals, sessions, seeds, count_cases=False)
        if ctx.use_model:
            model_pool(ctx, vals, res, [sessions[0][i]["k"] for i in range(len(vals))])
    elif st == "pynodesig":
        stream_pynode_sigs(ctx)
    elif st == "tasksig":
        sps = [tuple(x) for x in inp["spellings"]]
        check_tasksigs(ctx, sps, run_tasksigs(sps, seed + 1), count=False)
    elif st == "pywrap":
        vals = [from_json(inp["a"])] + ([from_json(inp["b"])] if "b" in inp else [])
        r = run_worker({"mode": "pool", "values": [to_json(v) for v in vals]}, seed + 1)
        check_pywrap(ctx, vals, [x["r"] for x in r], [seed + 1])
    elif st == "nan":
        stream_nan(ctx)
    elif st == "sig":
        decls = inp["decls"]
        sigs = run_worker({"mode": "sigs", "decls": decls}, seed + 1)
        sigs2 = run_worker({"mode": "sigs", "decls": decls}, seed + 2)
        if sigs != sigs2:
            ctx.violation("sig-unstable: signature differs between interpreter sessions", inp)
        check_sigs(ctx, decls, sigs, count=False)
    elif st == "ops":
        root = common.scratch_dir("c12ops")
        try:
            obs = run_worker({"mode": "ops", "root": str(root / "s"), "ops": inp["ops"]}, seed + 1)
        finally:
            shutil.rmtree(root, ignore_errors=True)
        ann = check_ops(ctx, inp["ops"], obs, 0)
        if ctx.use_model:
            model_ops(ctx, inp["ops"], ann)
    elif st == "collect":
        root = common.scratch_dir("c12col")
        try:
            base = root / "w"
            make_collect_tree(base)
            decls = [dict(d, sp=d["sp"].replace("@BASE", str(base)).replace("@ROOT", str(root))) for d in inp["decls"]]
            results = run_worker({"mode": "collect", "root": str(root), "base": str(base), "decls": decls}, seed + 1)
        finally:
            shutil.rmtree(root, ignore_errors=True)
        check_collect(ctx, str(base), decls, results, count=False)
    elif st == "e2e":
        sc = _sc_from_json(inp["scenario"])
        builds = run_scenario(sc, seed + 1)
        check_scenario(ctx, sc, builds, 0)
    elif st == "pyint":
        r = run_worker({"mode": "pyint", "ints": [inp["n"]]})[0]
        m = ctx.driver().ask(f"hash.pyint n={inp['n']}") if ctx.use_model else r
        if r != m:
            ctx.disagreement(f"pyHashInt({inp['n']}) = {m} but CPython hash = {r}", inp)
    elif st == "normpath":
        s = inp["s"]
        r = os.path.normpath(s)
        m = ctx.driver().ask(f"path.norm cps={cps(s)}") if ctx.use_model else cps(r)
        if m != cps(r):
            ctx.disagreement(f"normpath({s!r}) = {r!r}, the model gives {m}", inp)
    else:
        return False, f"unknown stream {st}"
    if ctx.violations:
        v = ctx.violations[0]
        return False, v["what"] + (f"  [class {v['finding']}]" if v["finding"] else "")
    if ctx.disagreements:
        return False, "model≠implementation: " + ctx.disagreements[0]["what"]
    return True, "C12 holds on the stored input"
