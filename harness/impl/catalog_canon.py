"""Canonical text of a picklable value: equal iff the values are indistinguishable for our purposes
(type-exact, NaN equal to NaN, -0.0 different from 0.0, dict order kept, frozenset order ignored)."""


def canon(v):
    t = type(v).__name__
    if v is None or isinstance(v, (bool, int, str, bytes)):
        return f"{t}:{v!r}"
    if isinstance(v, float):
        return f"float:{v.hex() if v == v and v not in (float('inf'), float('-inf')) else repr(v)}"
    if isinstance(v, complex):
        return f"complex:{canon(v.real)},{canon(v.imag)}"
    if isinstance(v, (list, tuple)):
        return f"{t}:[" + ",".join(canon(x) for x in v) + "]"
    if isinstance(v, dict):
        return "dict:{" + ",".join(canon(k) + "=>" + canon(x) for k, x in v.items()) + "}"
    if isinstance(v, (set, frozenset)):
        return f"{t}:{{" + ",".join(sorted(canon(x) for x in v)) + "}"
    if isinstance(v, bytearray):
        return f"bytearray:{bytes(v)!r}"
    return f"other:{t}:{v!r}"


def scramble(v):
    """Modify a loaded value in place wherever Python allows it — what a careless dependent may do with ITS copy. Other
    dependents and later loads must still receive the value that was saved."""
    if isinstance(v, list):
        for x in v:
            scramble(x)
        v.append("scrambled")
        v.reverse()
    elif isinstance(v, tuple):
        for x in v:
            scramble(x)
    elif isinstance(v, dict):
        for x in v.values():
            scramble(x)
        v["scrambled"] = True
    elif isinstance(v, (set, bytearray)):
        v.clear()
