"""C10 twin experiment on the REAL pytask: bring a generated project into some recorded state (history of builds and
edits), then
  A: dry-run build, then the real build           (same directory)
  B: the real build alone, from the very same state (the directory — including .pytask — is restored from a copy that
     preserves contents, modes and mtimes, at the same absolute path, so signatures and recorded states are the same)
and record a recursive snapshot of all regular files outside .pytask before/after the dry run.
"""
from __future__ import annotations

import copy
import hashlib
import os
import shutil
from pathlib import Path

import common
from impl import builder, engine, project

EXCLUDE_DIRS = {".pytask", "__pycache__"}


def snapshot(root: Path):
    """{relative path: (size, sha256, mode, mtime_ns)} of every regular file below root, outside .pytask (pytask's own
    cache directory) and __pycache__ (the interpreter's); plus the set of directories (reported, not compared)."""
    files, dirs = {}, set()
    for dp, dns, fns in os.walk(root):
        dns[:] = sorted(d for d in dns if d not in EXCLUDE_DIRS)
        rel = os.path.relpath(dp, root)
        dirs.add(rel)
        for fn in sorted(fns):
            p = os.path.join(dp, fn)
            st = os.lstat(p)
            if not os.path.isfile(p) or os.path.islink(p):
                continue
            with open(p, "rb") as f:
                h = hashlib.sha256(f.read()).hexdigest()
            files[os.path.normpath(os.path.join(rel, fn))] = (st.st_size, h, st.st_mode, st.st_mtime_ns)
    return files, dirs


def snapshot_diff(a, b):
    out = []
    for k in sorted(set(a) | set(b)):
        if k not in b:
            out.append(f"deleted {k}")
        elif k not in a:
            out.append(f"created {k}")
        elif a[k] != b[k]:
            what = [n for n, x, y in zip(("size", "sha256", "mode", "mtime"), a[k], b[k]) if x != y]
            out.append(f"modified {k} ({','.join(what)})")
    return out


def apply_edit(root: Path, spec, clock, step):
    """same edit semantics as impl.engine.run_history; returns the (possibly new) spec"""
    kind = step[0]
    if kind == "write":
        project.write_file(project.node_path(root, step[1]), str(step[2]), clock)
    elif kind == "touch":
        p = project.node_path(root, step[1])
        if p.exists():
            project.write_file(p, p.read_text(), clock)
    elif kind == "delete":
        project.node_path(root, step[1]).unlink(missing_ok=True)
    elif kind == "bump":
        m = str(step[1])
        spec["versions"][m] = spec["versions"].get(m, 0) + 1
        project.rewrite_modules(root, spec, clock, only={step[1]})
    elif kind == "setver":
        spec["versions"][str(step[1])] = step[2]
        project.rewrite_modules(root, spec, clock, only={step[1]})
    elif kind == "setbeh":
        for t in spec["tasks"]:
            if t["id"] == step[1]:
                t["beh"] = step[2]
        project.rewrite_modules(root, spec, clock)
    elif kind == "respec":
        newspec = copy.deepcopy(step[1])
        newspec["versions"] = newspec.get("versions", {}) | spec["versions"]
        spec = newspec
        project.rewrite_modules(root, spec, clock)
        for n, c in spec.get("inputs", {}).items():
            p = project.node_path(root, int(n))
            if not p.exists():
                project.write_file(p, str(c), clock)
    else:
        raise ValueError(kind)
    return spec


def observed_build(server, root, spec, cfg):
    project.clear_log(root)
    pre = project.snapshot_nodes(root, spec)
    obs = server.build(root, builder.cfg_to_kw(cfg))
    obs["log"] = project.read_log(root)
    post = project.snapshot_nodes(root, spec)
    return {"cfg": cfg, "obs": obs, "pre": pre, "post": post, "spec": copy.deepcopy(spec), "hashseed": server.hashseed}


SEQ_WORKER = Path(__file__).resolve().parent / "dryrun_seq_worker.py"


def restore(root: Path, bak: Path):
    shutil.rmtree(root)
    shutil.copytree(bak, root, symlinks=True)


def inproc_pair(root: Path, kw_dry: dict, kw_real: dict, hashseed: int, objects: bool = False):
    """dry run and real build in ONE fresh interpreter (the property does not say 'in a fresh process')"""
    return inproc_builds(root, [kw_dry, kw_real], hashseed, objects)


def inproc_builds(root: Path, kws: list, hashseed: int, objects: bool = False):
    """the given builds, one after the other, in ONE fresh interpreter"""
    import json
    import subprocess
    import tempfile
    fd, out = tempfile.mkstemp(prefix="c10seq-", suffix=".json")
    os.close(fd)
    try:
        env = dict(os.environ, PYTHONHASHSEED=str(hashseed), PYTHONDONTWRITEBYTECODE="1")
        r = subprocess.run([common.PY, str(SEQ_WORKER), str(root), json.dumps(kws), out] + (["objects"] if objects else []), env=env, cwd="/",
                           capture_output=True, text=True, timeout=300)
        try:
            res = json.loads(Path(out).read_text())
        except ValueError:
            raise common.InfraError(f"in-process twin worker failed (rc {r.returncode}): {r.stderr[-400:]}")
        for o in res:
            o["log"] = [tuple(x) for x in o["log"]]
        return res
    finally:
        Path(out).unlink(missing_ok=True)


def twin_core(server, root: Path, build, cfg: dict, inproc: bool = False):
    """state is prepared in `root`; build(cfg) -> record with ["obs"] (obs["log"] = body log of that build).
    A: dry run, then the build; B: the build alone from the restored state; C (optional): dry run + build in one interpreter
    from the restored state."""
    bak = Path(str(root) + "_bak")
    try:
        (root / ".verif_log").unlink(missing_ok=True)
        shutil.copytree(root, bak, symlinks=True)          # copy2: contents, modes, mtimes (ns)
        files0, dirs0 = snapshot(root)
        dry = build(dict(cfg, dry=True))
        files1, dirs1 = snapshot(root)
        a = build(cfg)
        restore(root, bak)
        files2, _ = snapshot(root)
        b = build(cfg)
        twin = {"cfg": cfg, "dry": dry, "a": a, "b": b,
                "dry_file_changes": snapshot_diff(files0, files1), "restore_changes": snapshot_diff(files0, files2),
                "dirs_created_by_dry": sorted(dirs1 - dirs0), "nfiles": len(files0)}
        if inproc:
            restore(root, bak)
            (root / ".verif_log").unlink(missing_ok=True)
            c = inproc_pair(root, builder.cfg_to_kw(dict(cfg, dry=True)), builder.cfg_to_kw(cfg), server.hashseed)
            twin["inproc"] = {"dry": {"obs": c[0]}, "a": {"obs": c[1]}}
        return twin
    finally:
        shutil.rmtree(bak, ignore_errors=True)


def run_twin(server, hist):
    """hist = {"spec", "steps": prefix, "twin": cfg (without dry), optional "inproc": True}.
    Returns {"records": prefix records (as impl.engine.run_history), "twin": {...}}."""
    root = common.scratch_dir("c10")
    clock = project.Clock()
    spec = copy.deepcopy(hist["spec"])
    records = []
    try:
        project.materialise(root, spec, clock)
        for step in hist["steps"]:
            rec = {"step": step}
            if step[0] == "build":
                rec.update(observed_build(server, root, spec, step[1]))
                rec["spec_after"] = None
            else:
                spec = apply_edit(root, spec, clock, step)
                rec["spec_after"] = copy.deepcopy(spec)
            records.append(rec)
        cfg = dict(hist["twin"])
        cfg.pop("dry", None)
        twin = twin_core(server, root, lambda c: observed_build(server, root, spec, c), cfg, inproc=bool(hist.get("inproc")))
        twin["spec"] = copy.deepcopy(spec)
        return {"records": records, "twin": twin}
    finally:
        shutil.rmtree(root, ignore_errors=True)


def run_prov_twin(server, hist):
    """The same experiment over a project with directory-pattern (DirectoryNode) products / dependencies (generator:
    impl.prov_api; no task generators). hist = {"spec", "steps": [["build"] | edits], "twin": cfg}. Implementation only."""
    from impl import prov_api
    root = common.scratch_dir("c10p")
    clock = project.Clock()
    spec = copy.deepcopy(hist["spec"])

    def build(cfg):
        (root / ".verif_log").unlink(missing_ok=True)
        obs = server.build(root, builder.cfg_to_kw(cfg))
        obs["log"] = prov_api.read_log(root)
        return {"cfg": cfg, "obs": obs}
    try:
        prov_api.materialise(root, spec, clock)
        records = []
        for step in hist["steps"]:
            kind = step[0]
            rec = {"step": step}
            if kind == "build":
                rec.update(build(step[1] if len(step) > 1 else {}))
            elif kind == "write":
                project.write_file(prov_api.npath(root, step[1], spec), str(step[2]), clock)
            elif kind == "touch":
                p = prov_api.npath(root, step[1], spec)
                if p.exists():
                    project.write_file(p, p.read_text(), clock)
            elif kind == "delete":
                prov_api.npath(root, step[1], spec).unlink(missing_ok=True)
            else:
                raise ValueError(kind)
            records.append(rec)
        cfg = dict(hist["twin"])
        cfg.pop("dry", None)
        twin = twin_core(server, root, build, cfg)
        twin["spec"] = copy.deepcopy(spec)
        return {"records": records, "twin": twin}
    finally:
        shutil.rmtree(root, ignore_errors=True)


MARK_SRC = {"try_first": 'Mark("try_first", (), {})', "try_last": 'Mark("try_last", (), {})', "persist": 'Mark("persist", (), {})',
            "skip": 'Mark("skip", (), {})', "skipif_false": 'Mark("skipif", (False,), {"reason": "cond false"})',
            "skipif_true": 'Mark("skipif", (True,), {"reason": "cond true"})'}


def render_objects_module(spec) -> str:
    """A plain (non-task) module whose `make()` returns one PTask OBJECT per task of the spec: `TaskWithoutPath(...)` or `Task(...)`
    instances built by hand (PathNode dependencies / products, marks as Mark objects) — not functions to be collected."""
    L = ["from pathlib import Path", "from pytask import Mark, PathNode, Task, TaskWithoutPath", "import _verif_rt as rt",
         "DATA = Path(__file__).resolve().parent / 'data'", "SRC = 7", ""]
    items = []
    for t in spec["tasks"]:
        tid = t["id"]
        dn = [f"d{n}" for n in t["deps"]]
        pn = [f"p{i}" for i in range(len(t["prods"]))]
        L.append(f"def f{tid:02d}({', '.join(dn + pn)}):")
        L.append(f"    return rt.body({tid}, SRC, [{', '.join(dn)}], [{', '.join(pn)}], {t.get('beh', 'ok')!r})")
        L.append("")
        deps = "{" + ", ".join(f"'{a}': PathNode(path=DATA / 'n{n}.txt')" for a, n in zip(dn, t["deps"])) + "}"
        prods = "{" + ", ".join(f"'{a}': PathNode(path=DATA / 'n{n}.txt')" for a, n in zip(pn, t["prods"])) + "}"
        marks = "[" + ", ".join(MARK_SRC[m] for m in t.get("marks", []) if m in MARK_SRC) + "]"
        name = project.tname(tid)
        if t.get("objkind") == "task":
            items.append(f"Task(base_name={name!r}, path=Path(__file__), function=f{tid:02d}, depends_on={deps}, produces={prods}, markers={marks})")
        else:
            items.append(f"TaskWithoutPath(name={name!r}, function=f{tid:02d}, depends_on={deps}, produces={prods}, markers={marks})")
    L.append("def make():")
    L.append("    return [" + ",\n            ".join(items) + "]")
    return "\n".join(L) + "\n"


def run_obj_twin(server, hist):
    """Programmatic task OBJECTS handed to `pytask.build(tasks=[...])`. Every prefix build runs in its own interpreter; then
    A: dry run and build in ONE interpreter over the SAME objects, B: the build alone (own interpreter, fresh objects) from the restored
    state. Implementation only. (The file snapshot around the dry run is taken by the other streams; here dry run and build share a process.)"""
    root = common.scratch_dir("c10o")
    bak = Path(str(root) + "_bak")
    clock = project.Clock()
    spec = copy.deepcopy(hist["spec"])

    def builds(cfgs):
        (root / ".verif_log").unlink(missing_ok=True)
        return inproc_builds(root, [builder.cfg_to_kw(c) for c in cfgs], server.hashseed, objects=True)
    try:
        root.mkdir(parents=True, exist_ok=True)
        (root / "pyproject.toml").write_text("[tool.pytask.ini_options]\n")
        (root / "_verif_rt.py").write_text(project.RT)
        (root / "data").mkdir(exist_ok=True)
        project.write_file(root / "verif_objs.py", render_objects_module(spec), clock)
        for n, c in spec.get("inputs", {}).items():
            project.write_file(project.node_path(root, int(n)), str(c), clock)
        records = []
        for step in hist["steps"]:
            rec = {"step": step}
            if step[0] == "build":
                rec.update({"cfg": step[1], "obs": builds([step[1]])[0]})
            else:
                apply_edit(root, spec, clock, step)          # write / touch / delete only
            records.append(rec)
        cfg = dict(hist["twin"])
        cfg.pop("dry", None)
        (root / ".verif_log").unlink(missing_ok=True)
        shutil.copytree(root, bak, symlinks=True)
        files0, _ = snapshot(root)
        d, a = builds([dict(cfg, dry=True), cfg])
        restore(root, bak)
        files2, _ = snapshot(root)
        b = builds([cfg])[0]
        twin = {"cfg": cfg, "spec": copy.deepcopy(spec), "dry": {"obs": d}, "a": {"obs": a}, "b": {"obs": b}, "dry_file_changes": [],
                "restore_changes": snapshot_diff(files0, files2), "dirs_created_by_dry": [], "nfiles": len(files0)}
        return {"records": records, "twin": twin}
    finally:
        shutil.rmtree(root, ignore_errors=True)
        shutil.rmtree(bak, ignore_errors=True)


def parse_answer(ans: str):
    return dict(p.split("=", 1) for p in ans[3:].split(" "))


def replay_twin_in_model(drv, hist, res, sel_eval):
    """prefix through impl.engine.replay_in_model, then `c10.twin`; returns list of (what, impl, model)."""
    out = []
    dis = engine.replay_in_model(drv, {"spec": hist["spec"], "steps": hist["steps"]}, res["records"], sel_eval)
    if dis:
        i, what, iv, mv = dis[0]
        return [(f"prefix step {i} ({hist['steps'][i][0]}): {what}", iv, mv)]
    tw = res["twin"]
    spec = tw["spec"]
    picks = {}
    for key in ("dry", "a", "b"):
        obs = tw[key]["obs"]
        p, _ = engine.derive_picks(obs)
        if obs.get("raised") or obs.get("died") or any(x is None for x in p):
            return [(f"twin build {key}: build() raised or unknown task names", obs.get("raised"), None)]
        picks[key] = ",".join(map(str, p))
    ans = drv.ask(f"c10.twin {engine.cfg_model_args(tw['cfg'], spec, sel_eval)} dpicks={picks['dry']} apicks={picks['a']} bpicks={picks['b']}")
    if not ans.startswith("ok "):
        return [("model rejects an observed schedule of the twin builds", picks, ans)]
    kv = parse_answer(ans)
    if kv["same"] != "1":
        out.append(("model: the dry build changed the world", None, ans))
    for key, pfx in (("dry", "d"), ("a", "a"), ("b", "b")):
        obs = tw[key]["obs"]
        impl_reports = ",".join(f"{engine.name_to_id(r[0])}:{r[1]}" for r in obs["reports"])
        impl_log = ",".join(x[1] for x in obs["log"] if x[0] == "S")
        if kv[pfx + "exit"] != str(obs["exit"]):
            out.append((f"twin build {key}: exit code", obs["exit"], kv[pfx + "exit"]))
        if kv[pfx + "reports"] != impl_reports:
            out.append((f"twin build {key}: outcomes", impl_reports, kv[pfx + "reports"]))
        if kv[pfx + "log"] != impl_log:
            out.append((f"twin build {key}: executed bodies", impl_log, kv[pfx + "log"]))
        if kv[pfx + "complete"] != "1":
            out.append((f"twin build {key}: model expects more picks", impl_reports, kv[pfx + "complete"]))
        mfs = dict(e.split(":") for e in kv[pfx + "fs"].split(",") if e)
        for n in sorted(tw[key]["post"]):
            iv = tw[key]["post"][n]
            mv = mfs.get(str(n))
            if (None if iv is None else str(iv)) != mv:
                out.append((f"twin build {key}: content of node {n}", iv, mv))
                break
        if out:
            break
    return out
