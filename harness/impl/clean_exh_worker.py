"""Worker for the exhaustive small-scope stream of C11: `_find_all_unknown_paths` of the real clean.py on tiny trees with
explicit known sets and (absolute, literal) exclude patterns. If the private helper no longer exists with this shape the
stream reports `unavailable` and is skipped (the CLI-level stream does not depend on it)."""
from __future__ import annotations

import json
import shutil
import sys
import tempfile
import types
from pathlib import Path


def build(base: Path, tree: list) -> None:
    for e in tree:
        p = base / e[1]
        if e[0] == "f":
            p.write_text("x")
        else:
            p.mkdir()
            build(p, e[2])


def main() -> int:
    jobs = json.loads(sys.stdin.read())
    try:
        from _pytask import clean as C
        finder = C._find_all_unknown_paths
    except Exception as e:  # noqa: BLE001
        print(json.dumps([{"unavailable": f"{type(e).__name__}: {e}"}] * max(1, len(jobs))))
        return 0
    out = []
    for job in jobs:
        W = Path(tempfile.mkdtemp(prefix="pvc11x-")).resolve()
        try:
            build(W, job["tree"])
            top = W / job["tree"][0][1]
            session = types.SimpleNamespace(config={"paths": [top]})
            listed = []
            for k, e, d in job["assign"]:
                known = {W / x for x in k}
                exclude = tuple((W / x).as_posix() for x in e)
                try:
                    res = finder(session, known, exclude, bool(d))
                except TypeError as err:
                    print(json.dumps([{"unavailable": f"signature changed: {err}"}] * len(jobs)))
                    return 0
                listed.append(sorted(Path(p).relative_to(W).as_posix() for p in res))
            out.append({"listed": listed})
        finally:
            shutil.rmtree(W, ignore_errors=True)
    print(json.dumps(out))
    return 0


if __name__ == "__main__":
    sys.exit(main())
