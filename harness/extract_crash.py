"""Source facts for the step-level engine model (`EngineCrash.lean`, C05), read from the tree under check with `ast`.

Emits data only (DESIGN §2.4), fail-closed (`ExtractError` on any shape it does not recognise):

* `recordOnOutcomes`   — the report outcomes under which `update_states_in_database` is called, one entry per call site
                         in `src/_pytask` (`execute.py`: SUCCESS, `persist.py`: PERSISTENCE); a call site anywhere else, or
                         under another guard, changes the list (and so `Engine.reportSteps` and the proofs about it);
* `rowsSingleTransaction` — `update_states_in_database` writes all rows of a task in ONE session with ONE commit after the
                         loop (consumed by `Engine.rowSteps`; the per-row shape gives false, anything else fails);
* `rowsOneCommitEach`  — `_create_or_update_state` upserts one row inside its own `with DatabaseSession()` and commits there,
                         and `update_states_in_database` calls it once per element of `node_and_neighbors`;
* `neighbourOrder`     — the order in which `node_and_neighbors` yields (predecessors, the node, successors);
* `createAllUnconditional`, `dbTables` — `create_database` runs `metadata.create_all` as a top-level statement (every start-up
                         creates whatever table is missing); the table names declared on `BaseTable`;
* `memoLoadSuppressed` — the whole body of `build.pytask_post_parse` (read + `json.loads` + filling the memo) sits in one
                         `with suppress(Exception)`;
* `memoSingleWrite`    — `build.pytask_unconfigure` writes the memo file with exactly one `write_text(json.dumps(…))`.

Hook into `extract.py` with:   from extract_crash import crash_facts; EXTRA_SECTIONS.append(crash_facts)
"""
from __future__ import annotations

import ast


def _err(msg: str):
    import extract
    return extract.ExtractError("crash facts: " + msg)


def _body(fn: ast.FunctionDef):
    """statements of a function without its docstring"""
    b = list(fn.body)
    if b and isinstance(b[0], ast.Expr) and isinstance(b[0].value, ast.Constant) and isinstance(b[0].value.value, str):
        b = b[1:]
    return b


def _calls(node, name):
    out = []
    for n in ast.walk(node):
        if isinstance(n, ast.Call):
            f = n.func
            if (isinstance(f, ast.Name) and f.id == name) or (isinstance(f, ast.Attribute) and f.attr == name):
                out.append(n)
    return out


def _subst_locals(expr, fn, depth: int = 0):
    """`expr` with every local name that `fn` binds exactly once by a plain `name = <expression>` (and never stores to
    otherwise) replaced by that expression; parameters and everything else stay. Fail-closed use only: the result is matched
    against the known guards."""
    import copy
    binds: dict[str, list] = {}
    for n in ast.walk(fn):
        if isinstance(n, ast.Assign) and len(n.targets) == 1 and isinstance(n.targets[0], ast.Name):
            binds.setdefault(n.targets[0].id, []).append(n.value)
        elif isinstance(n, (ast.AugAssign, ast.AnnAssign, ast.For, ast.NamedExpr, ast.comprehension)):
            for x in ast.walk(n.target):
                if isinstance(x, ast.Name):
                    binds.setdefault(x.id, []).extend([None, None])
    params = {a.arg for a in fn.args.posonlyargs + fn.args.args + fn.args.kwonlyargs}

    class T(ast.NodeTransformer):
        def visit_Name(self, node):
            vals = binds.get(node.id)
            if isinstance(node.ctx, ast.Load) and node.id not in params and vals and len(vals) == 1 and vals[0] is not None and depth < 4:
                return _subst_locals(copy.deepcopy(vals[0]), fn, depth + 1)
            return node
    return ast.fix_missing_locations(T().visit(copy.deepcopy(expr)))


def _record_outcomes():
    import extract
    sites = []
    for p in sorted(extract.SRC.glob("*.py")):
        if p.name == "database_utils.py":
            continue
        mod = extract._parse(p.name)
        for fn in [n for n in ast.walk(mod) if isinstance(n, (ast.FunctionDef, ast.AsyncFunctionDef))]:
            for call in _calls(fn, "update_states_in_database"):
                sites.append((p.name, fn, call))
    if not sites:
        raise _err("update_states_in_database is never called")
    out = []
    for fname, fn, call in sites:
        if fn.name != "pytask_execute_task_process_report":
            raise _err(f"update_states_in_database called from {fname}:{fn.name}, not from a process_report hook")
        # the innermost `if` around the call, and the call must be in its *body* (not orelse)
        guard = None
        for n in ast.walk(fn):
            if isinstance(n, ast.If) and any(call is c for s in n.body for c in ast.walk(s)):
                if guard is None or any(n is c for c in ast.walk(guard)):
                    guard = n
        if guard is None:
            raise _err(f"{fname}: update_states_in_database is called unconditionally")
        # local aliases (`was_persisted = …`, `exc = report.exc_info[1]`) are substituted before the guard is classified
        gtest = _subst_locals(guard.test, fn)
        test = ast.unparse(gtest)
        conj = gtest.values if isinstance(gtest, ast.BoolOp) and isinstance(gtest.op, ast.And) else [gtest]
        conj = [ast.unparse(c) for c in conj]
        if test in ("report.outcome == TaskOutcome.SUCCESS", "TaskOutcome.SUCCESS == report.outcome",
                    "report.outcome is TaskOutcome.SUCCESS"):
            out.append("SUCCESS")
        elif "isinstance(report.exc_info[1], Persisted)" in conj and all(
                c in ("isinstance(report.exc_info[1], Persisted)", "report.exc_info", "report.exc_info is not None") for c in conj):
            out.append("PERSISTENCE")
        else:
            raise _err(f"{fname}: unrecognised guard {test!r} around update_states_in_database")
    return sorted(out)


def _rows_one_commit_each():
    """Informational (not consumed by a proof): unrecognised shapes give False instead of failing, so that a refactoring of
    the upsert helper does not break the tie by itself."""
    import extract
    try:
        mod = extract._parse("database_utils.py")
        cu = extract._func(mod, "_create_or_update_state")
        body = _body(cu)
        if len(body) != 1 or not isinstance(body[0], ast.With):
            return False
        w = body[0]
        if len(w.items) != 1 or ast.unparse(w.items[0].context_expr) != "DatabaseSession()":
            return False
        commits = [c for c in _calls(w, "commit")]
        in_loop = any(isinstance(n, (ast.For, ast.While)) for n in ast.walk(w))
        one_commit = len(commits) == 1 and not in_loop
        up = extract._func(mod, "update_states_in_database")
        loops = [n for n in _body(up) if isinstance(n, ast.For)]
        if len(loops) != 1:
            return False
        per_row = len(_calls(loops[0], "_create_or_update_state")) == 1 and not _calls(up, "commit")
        return one_commit and per_row
    except extract.ExtractError:
        return False


def _rows_single_transaction():
    """Consumed by `Engine.rowSteps` (fail-closed): True = `update_states_in_database` opens ONE session, upserts every element
    of `node_and_neighbors` inside it and commits once after the loop (helper without session/commit of its own);
    False = the per-row shape (`_rows_one_commit_each`); anything else is an ExtractError."""
    import extract
    mod = extract._parse("database_utils.py")
    up = extract._func(mod, "update_states_in_database")
    withs = [n for n in _body(up) if isinstance(n, ast.With)]
    if len(withs) == 1 and len(withs[0].items) == 1 and ast.unparse(withs[0].items[0].context_expr) == "DatabaseSession()":
        w = withs[0]
        loops = [n for n in w.body if isinstance(n, ast.For)]
        commits_in_with = [s for s in w.body if isinstance(s, ast.Expr) and _calls(s, "commit")]
        if len(loops) != 1 or "node_and_neighbors(session.dag, task_signature)" not in ast.unparse(loops[0].iter):
            raise _err("update_states_in_database: the session block does not loop over node_and_neighbors(session.dag, task_signature)")
        if _calls(loops[0], "commit") or len(commits_in_with) != 1 or w.body.index(commits_in_with[0]) < w.body.index(loops[0]):
            raise _err("update_states_in_database: expected exactly one commit, after the loop, inside the session block")
        if ".state()" not in ast.unparse(loops[0]):   # (which node: checked precisely by extract_engine._update_rows)
            raise _err("update_states_in_database: the stored hash is not node.state() of the loop's node")
        helper = extract._func(mod, "_create_or_update_state")
        if _calls(helper, "commit") or "DatabaseSession()" in ast.unparse(helper):
            raise _err("_create_or_update_state commits / opens a session although the caller holds the transaction")
        if len(_calls(loops[0], "_create_or_update_state")) != 1:
            raise _err("update_states_in_database: expected one upsert per node")
        # "one session, one commit" is one transaction only if the engine and the session factory are the default ones:
        # an autocommit isolation level (or execution option) makes every flushed statement a transaction of its own
        src = ast.unparse(mod)
        if "execution_options" in src or "AUTOCOMMIT" in src.upper():
            raise _err("database_utils.py configures execution options / an autocommit isolation level")
        engines = [c for c in _calls(mod, "create_engine")]
        if len(engines) != 1 or engines[0].keywords or len(engines[0].args) != 1:
            raise _err("create_database: create_engine is not called as create_engine(url) (isolation level / pool options?)")
        makers = [c for c in _calls(mod, "sessionmaker")]
        if len(makers) != 1 or makers[0].keywords or makers[0].args:
            raise _err("DatabaseSession is not a plain sessionmaker()")
        confs = [c for c in _calls(mod, "configure")]
        if any(kw.arg != "bind" for c in confs for kw in c.keywords):
            raise _err("DatabaseSession.configure sets options other than bind")
        return True
    if not withs and _rows_one_commit_each():
        return False
    raise _err("update_states_in_database is neither 'one transaction for all rows' nor 'one commit per row'")


def _neighbour_order():
    import extract
    fn = extract._func(extract._parse("dag_utils.py"), "node_and_neighbors")
    body = _body(fn)
    if len(body) != 1 or not isinstance(body[0], ast.Return):
        raise _err("node_and_neighbors is not a single return")
    call = body[0].value
    if not (isinstance(call, ast.Call) and ast.unparse(call.func) in ("itertools.chain", "chain")):
        raise _err(f"node_and_neighbors returns {ast.unparse(call)!r}, not itertools.chain(...)")
    names = []
    for a in call.args:
        s = ast.unparse(a)
        if s == "dag.predecessors(node)":
            names.append("preds")
        elif s == "dag.successors(node)":
            names.append("succs")
        elif s in ("[node]", "(node,)"):
            names.append("self")
        else:
            raise _err(f"node_and_neighbors: unrecognised part {s!r}")
    return names


def _memo_facts():
    import extract
    mod = extract._parse("build.py")
    load = extract._func(mod, "pytask_post_parse")
    body = _body(load)
    src = ast.unparse(load)
    if "file_hashes.json" not in src or "json.loads" not in src:
        raise _err("build.pytask_post_parse does not read file_hashes.json with json.loads")
    suppressed = False
    if len(body) == 1 and isinstance(body[0], ast.With) and len(body[0].items) == 1:
        ce = ast.unparse(body[0].items[0].context_expr)
        if ce in ("suppress(Exception)", "contextlib.suppress(Exception)", "suppress(BaseException)"):
            suppressed = True
    elif len(body) == 1 and isinstance(body[0], ast.Try):
        t = body[0]
        if len(t.handlers) == 1 and (t.handlers[0].type is None or ast.unparse(t.handlers[0].type) in ("Exception", "BaseException")) \
                and not any(isinstance(n, ast.Raise) for n in ast.walk(t.handlers[0])) and not t.finalbody:
            suppressed = True
    save = extract._func(mod, "pytask_unconfigure")
    ssrc = ast.unparse(save)
    if "file_hashes.json" not in ssrc:
        raise _err("build.pytask_unconfigure does not write file_hashes.json")
    writes = _calls(save, "write_text") + _calls(save, "write_bytes") + _calls(save, "write") + _calls(save, "dump")
    single = len(writes) == 1 and not any(isinstance(n, (ast.For, ast.While)) for n in ast.walk(save))
    return suppressed, single


def _startup_facts():
    """`create_database`: is `BaseTable.metadata.create_all(...)` a top-level statement of the function (run on every start-up,
    whatever the database file looks like)?  True / False (nested under a condition, try, with, loop) / ExtractError (absent).
    Plus the tables declared on `BaseTable` anywhere in src/_pytask."""
    import extract
    mod = extract._parse("database_utils.py")
    fn = extract._func(mod, "create_database")
    calls = _calls(fn, "create_all")
    if len(calls) != 1:
        raise _err(f"create_database: expected exactly one create_all call, found {len(calls)}")
    if "metadata.create_all" not in ast.unparse(calls[0]):
        raise _err("create_database: create_all is not called on the declarative metadata")
    top = any(isinstance(st, ast.Expr) and st.value is calls[0] for st in _body(fn))
    if any(kw.arg == "checkfirst" for kw in calls[0].keywords):
        raise _err("create_database: create_all(checkfirst=...) is not the default 'create what is missing'")
    tables = []
    # order of registration on the metadata: database_utils.py (imported first, it defines BaseTable), then the other modules
    for p in sorted(extract.SRC.glob("*.py"), key=lambda q: (q.name != "database_utils.py", q.name)):
        m = extract._parse(p.name)
        for cls in [n for n in ast.walk(m) if isinstance(n, ast.ClassDef)]:
            if not any(ast.unparse(b) == "BaseTable" for b in cls.bases):
                continue
            names = [st.value.value for st in cls.body if isinstance(st, ast.Assign) and len(st.targets) == 1
                     and ast.unparse(st.targets[0]) == "__tablename__" and isinstance(st.value, ast.Constant) and isinstance(st.value.value, str)]
            if len(names) != 1:
                raise _err(f"{p.name}:{cls.name}: table class without a literal __tablename__")
            tables.append(names[0])
    if not tables:
        raise _err("no table declared on BaseTable")
    return top, tables


def crash_facts() -> list[str]:
    import extract
    try:
        outcomes = _record_outcomes()
        one_each = _rows_one_commit_each()
        single = _rows_single_transaction()
        order = _neighbour_order()
        suppressed, memo_single = _memo_facts()
        create_uncond, tables = _startup_facts()
    except extract.ExtractError:
        raise
    except Exception as e:  # noqa: BLE001
        raise _err(f"extractor crashed: {type(e).__name__}: {e}") from None
    strs = lambda xs: extract.lean_list(xs, extract.lean_str)  # noqa: E731
    L = ["/-! Step-level engine facts (harness/extract_crash.py): where and how state rows and the hash memo are written. -/"]
    L.append("/-- report outcomes under which `update_states_in_database` is called (one entry per call site). -/")
    L.append(f"def recordOnOutcomes : List String := {strs(outcomes)}")
    L.append("/-- one upsert + one commit per `(task, node)` row, one call per element of `node_and_neighbors`. -/")
    L.append(f"def rowsOneCommitEach : Bool := {extract.lean_bool(one_each)}")
    L.append("/-- all rows of one task are written in ONE transaction (one session, one commit after the loop over `node_and_neighbors`). -/")
    L.append(f"def rowsSingleTransaction : Bool := {extract.lean_bool(single)}")
    L.append("/-- order in which `node_and_neighbors` yields. -/")
    L.append(f"def neighbourOrder : List String := {strs(order)}")
    L.append("/-- the hash memo file is read inside `suppress(Exception)` / written by a single `write_text`. -/")
    L.append(f"def memoLoadSuppressed : Bool := {extract.lean_bool(suppressed)}")
    L.append(f"def memoSingleWrite : Bool := {extract.lean_bool(memo_single)}")
    L.append("/-- `create_database` calls `metadata.create_all` unconditionally (on every start-up); the tables declared on `BaseTable`. -/")
    L.append(f"def createAllUnconditional : Bool := {extract.lean_bool(create_uncond)}")
    L.append(f"def dbTables : List String := {strs(tables)}")
    L.append("")
    return L
