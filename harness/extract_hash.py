"""Source facts for M4 (`HashValue.lean`, C12): read from the *live* `_pytask` of the tree under check.

Emits data only (DESIGN §2.4).  Every fact is established dynamically on probe values and
cross-checked against the closed formula the Lean model uses; anything that does not fit raises
`ExtractError` (fail-closed).  The probes are behavioural, so a refactoring of `hash_value` that
keeps its input/output behaviour keeps these facts, while changing the separator, the None
constant, the order of signature fields or the memo key changes the generated Lean terms.

Hook into `extract.py` with:   from extract_hash import hash_facts; EXTRA_SECTIONS.append(hash_facts)
"""
from __future__ import annotations

import ast
import hashlib
import inspect
import itertools
import sys
from pathlib import Path


def _err(msg: str):
    import extract
    # extract.py may be running as __main__: raise *its* ExtractError so that its handler sees it
    cls = getattr(sys.modules.get("__main__"), "ExtractError", None) or extract.ExtractError
    return cls("hash facts: " + msg)


def _sha(s: str) -> str:
    return hashlib.sha256(s.encode()).hexdigest()


def _lean_chars(s: str) -> str:
    for ch in s:
        if not (32 <= ord(ch) < 127) or ch in "'\\":
            raise _err(f"separator character {ch!r} not representable")
    return "[" + ", ".join(f"'{ch}'" for ch in s) + "]"


def _seq_separator(hash_value) -> str:
    """Separator of the sequence branch: AST first (`<const>.join(` inside hash_value), then probing."""
    cands: list[str] = []
    try:
        fn = ast.parse(inspect.getsource(hash_value))
        for n in ast.walk(fn):
            if (isinstance(n, ast.Call) and isinstance(n.func, ast.Attribute) and n.func.attr == "join"
                    and isinstance(n.func.value, ast.Constant) and isinstance(n.func.value.value, str)):
                cands.append(n.func.value.value)
    except (OSError, SyntaxError, TypeError):
        pass
    cands += ["", ",", "-", "|", ";", ":", " ", "_", "/", "\n", "\x00"]
    parts = [_sha("a"), str(hash(7)), str(hash_value(None)), _sha("b")]
    probe = ("a", 7, None, b"b")
    for sep in cands:
        want = _sha(sep.join(parts))
        if hash_value(probe) == want and hash_value(list(probe)) == want:
            # the same rule must explain nesting, the empty and the one-element sequence
            if hash_value(()) != _sha("") or hash_value((5,)) != _sha(str(hash(5))):
                continue
            if hash_value(((1, 2), "x")) != _sha(sep.join([_sha(sep.join(["1", "2"])), _sha("x")])):
                continue
            return sep
    raise _err("the sequence branch of hash_value is not sha256(<sep>.join(str(hash_value(i)))) for any recognised separator")


def _field_order(obj, cands: list[str], getter, what: str) -> list[str]:
    from _pytask._hashlib import hash_value
    sig = obj.signature
    for k in range(1, len(cands) + 1):
        for perm in itertools.permutations(cands, k):
            raw = "".join(str(hash_value(getter(obj, f))) for f in perm)
            if _sha(raw) == sig:
                return list(perm)
    raise _err(f"{what}.signature is not sha256 of the concatenated str(hash_value(field)) over any order of {cands}")


def _collect_norm_facts() -> dict:
    """Which declared paths `pytask_collect_node` lexically normalises (collect.py): probed on dotted spellings of a
    non-existing file, for a plain `Path` value and for PathNode / PickleNode / DirectoryNode instances, relative and absolute.
    Each case must either give os.path.normpath of the absolute path or the (pathlib-tidied) absolute path as spelled."""
    import os
    from _pytask.collect import pytask_collect_node
    from _pytask.models import NodeInfo
    from _pytask.nodes import DirectoryNode, PathNode, PickleNode
    from _pytask.session import Session
    root = Path("/verif-nonexistent-root")
    base = root / "w"
    session = Session.from_config({"check_casing_of_paths": False, "paths": (root,), "root": root})

    def collected(make, sp):
        ni = NodeInfo(arg_name="dep", path=(), value=make(Path(sp)), task_path=base / "task_m.py", task_name="task_x")
        node = pytask_collect_node(session, base, ni)
        got = getattr(node, "root_dir", None) if isinstance(node, DirectoryNode) else getattr(node, "path", None)
        return None if got is None else str(got)

    makers = {
        "plain": [lambda p: p],
        "node": [lambda p: PathNode(path=p), lambda p: PickleNode(path=p), lambda p: DirectoryNode(root_dir=p, pattern="*.tx")],
    }
    facts = {}
    for form, mks in makers.items():
        for absolute in (False, True):
            verdicts = set()
            for mk in mks:
                for rel in ("x/../f.txt", "../w/d/../f.txt", "d/./e/../../f.txt"):
                    sp = str(base) + "/" + rel if absolute else rel
                    spelled = str(Path(str(base) + "/" + rel))
                    want = os.path.normpath(spelled)
                    got = collected(mk, sp)
                    if got == want:
                        verdicts.add(True)
                    elif got == spelled:
                        verdicts.add(False)
                    else:
                        raise _err(f"collection turns the {form} path {sp!r} into {got!r}: neither as spelled nor os.path.normpath")
            if len(verdicts) != 1:
                raise _err(f"collection normalises {form} {'absolute' if absolute else 'relative'} paths inconsistently across node classes / spellings")
            facts[(form, absolute)] = verdicts.pop()
    return facts


def _parse_paths_fact() -> bool:
    """`shared.parse_paths` (behind build(paths=…), the CLI and pyproject.toml): does it hand on the *resolved* path
    (`..` and symbolic links removed) or the path as spelled, made absolute?  Probed on a scratch directory."""
    import os
    import shutil
    import tempfile
    from _pytask.shared import parse_paths
    tmp = Path(tempfile.mkdtemp(prefix="verif-pp-"))
    try:
        real = Path(os.path.realpath(tmp))
        (real / "a" / "b").mkdir(parents=True)
        (real / "lnk").symlink_to("a")
        verdicts = set()
        for sp, want in ((real / "a" / "b" / "..", real / "a"), (real / "a" / "." / "b" / ".." / "b", real / "a" / "b"),
                         (real / "lnk" / "b", real / "a" / "b")):
            got = parse_paths([sp])
            if got == [want]:
                verdicts.add(True)
            elif [str(g) for g in got] == [str(Path(os.path.abspath(sp)))] or [str(g) for g in got] == [str(sp)]:
                verdicts.add(False)
            else:
                raise _err(f"parse_paths({str(sp)!r}) = {got!r}: neither the resolved path nor the path as spelled")
        if len(verdicts) != 1:
            raise _err("parse_paths resolves some spellings and keeps others")
        return verdicts.pop()
    finally:
        shutil.rmtree(tmp, ignore_errors=True)


def hash_facts() -> list[str]:
    import extract
    sys.path.insert(0, str(extract.REPO / "src"))
    try:
        import _pytask
        from _pytask import cache as _cache
        from _pytask._hashlib import hash_value
        from _pytask.models import NodeInfo
        from _pytask.nodes import DirectoryNode, PathNode, PickleNode, PythonNode, Task, TaskWithoutPath
        from _pytask.path import hash_path
    except Exception as e:  # pragma: no cover
        raise _err(f"cannot import the hashing code: {type(e).__name__}: {e}") from None
    if not str(Path(_pytask.__file__).resolve()).startswith(str((extract.REPO / "src").resolve())):
        raise _err(f"_pytask imported from {_pytask.__file__}, not from {extract.REPO}/src")

    try:
        none_const = hash_value(None)
        if type(none_const) is not int:
            raise _err(f"hash_value(None) is {none_const!r}, not an int constant")
        # leaves: str / bytes / Path share sha256 over the (utf-8) bytes; numbers fall through to hash()
        for s in ("", "a", "é中\U0001F600", "a/b"):
            want = hashlib.sha256(s.encode("utf-8")).hexdigest()
            if hash_value(s) != want or hash_value(s.encode("utf-8")) != want:
                raise _err(f"hash_value of str/bytes {s!r} is not sha256 of its utf-8 bytes")
        if hash_value(Path("a/b")) != _sha("a/b"):
            raise _err("hash_value(Path) is not sha256(str(path))")
        for v in (0, 1, -1, 2**61 - 1, 2**70, 1.5, True, False, float("inf")):
            if hash_value(v) != hash(v) or type(hash_value(v)) is not int:
                raise _err(f"hash_value({v!r}) is not builtin hash")
        sep = _seq_separator(hash_value)

        def f():  # pragma: no cover
            pass

        attr = lambda o, n: getattr(o, n)  # noqa: E731
        p, q = Path("/r/x/task_m.py"), Path("/r/d")
        t_fields = _field_order(Task(base_name="task_b", path=p, function=f), ["base_name", "path", "name"], attr, "Task")
        tw_fields = _field_order(TaskWithoutPath(name="nm", function=f), ["name"], attr, "TaskWithoutPath")
        pn_fields = _field_order(PathNode(name="n", path=q), ["path", "name"], attr, "PathNode")
        pk_fields = _field_order(PickleNode(name="n", path=q), ["path", "name"], attr, "PickleNode")
        dn_fields = _field_order(DirectoryNode(name="n", root_dir=q, pattern="*.tx"), ["root_dir", "pattern", "name"], attr, "DirectoryNode")
        dn2 = _field_order(DirectoryNode(name="n", root_dir=None, pattern="*.tx"), ["root_dir", "pattern", "name"], attr, "DirectoryNode")
        if dn2 != dn_fields:
            raise _err("DirectoryNode.signature uses different fields when root_dir is None")
        ni = NodeInfo(arg_name="arg", path=("k", 3), task_path=p, task_name="task_b", value=None)
        py_fields = _field_order(PythonNode(name="n", value=1, node_info=ni), ["arg_name", "path", "task_name", "task_path"],
                                 lambda o, n: getattr(o.node_info, n), "PythonNode")
        ni2 = NodeInfo(arg_name="arg", path=(), task_path=None, task_name="task_b", value=None)
        if _field_order(PythonNode(name="n", value=1, node_info=ni2), ["arg_name", "path", "task_name", "task_path"],
                        lambda o, n: getattr(o.node_info, n), "PythonNode") != py_fields:
            raise _err("PythonNode.signature uses different fields when task_path is None")
        if PythonNode(name="n", value=1).signature != _sha(str(none_const)):
            raise _err("PythonNode.signature without node_info is not sha256(str(hash_value(None)))")

        # memo key of hash_path as _get_state calls it: positional (path, modification_time)
        spec = inspect.getfullargspec(inspect.unwrap(hash_path))
        prefix = "pfx:"

        def key(*a):
            return _cache._make_memoize_key(a, {}, typed=False, argspec=spec, prefix=prefix)

        def want_key(*a):
            return prefix + hashlib.md5("".join(str(hash_value(x)) for x in a).encode()).hexdigest()  # noqa: S324

        for a in ((q, 1.5), (q, 2.5), (p, 1.5), (q, 1700000000.123)):
            if key(*a) != want_key(*a):
                raise _err("_make_memoize_key is not prefix + md5 of the concatenated str(hash_value(arg))")
        memo_fields = ["path", "mtime"]
        # what _get_state passes: (path, stat.st_mtime) — read from the source, fail-closed
        src = inspect.getsource(sys.modules["_pytask.nodes"]._get_state)
        calls = [n for n in ast.walk(ast.parse(src)) if isinstance(n, ast.Call) and getattr(n.func, "id", "") == "hash_path"]
        # (one call per branch: the local one and, since the repair of F61, the protocol-UPath branch without ETag — every call
        #  must pass the same two things)
        if not calls or any(c.keywords or len(c.args) != 2 for c in calls):
            raise _err("_get_state does not call hash_path(path, modification_time)")
        assigns = {ast.unparse(n.targets[0]): ast.unparse(n.value) for n in ast.walk(ast.parse(src))
                   if isinstance(n, ast.Assign) and len(n.targets) == 1}
        for c in calls:
            a0, a1 = (ast.unparse(a) for a in c.args)
            if a0 != "path":
                raise _err(f"_get_state passes {a0!r} as the path of hash_path")
            mt = assigns.get(a1, a1)
            if mt != "stat.st_mtime":
                raise _err(f"_get_state keys the memo with {mt!r}, not stat.st_mtime")
        cn = _collect_norm_facts()
        pp = _parse_paths_fact()
    except Exception as e:
        if type(e).__name__ == "ExtractError":
            raise
        raise _err(f"probe crashed: {type(e).__name__}: {e}") from None

    strs = lambda xs: extract.lean_list(xs, extract.lean_str)  # noqa: E731
    L = ["/-! M4 facts (harness/extract_hash.py): probed on the live `hash_value`, node classes and memo key. -/"]
    L.append("/-- `hash_value(None)` (`_hashlib.py`): the constant returned for `None`. -/")
    L.append(f"def hashNoneConst : Int := ({none_const} : Int)")
    L.append("/-- separator of `<sep>.join(str(hash_value(i)) for i in value)` in the sequence branch of `hash_value`. -/")
    L.append(f"def hashSeqSep : List Char := {_lean_chars(sep)}")
    L.append("/-- field order of the `signature` raw keys (`nodes.py`), each `\"\".join(str(hash_value(field)))`. -/")
    L.append(f"def sigTaskFields : List String := {strs(t_fields)}")
    L.append(f"def sigTaskWithoutPathFields : List String := {strs(tw_fields)}")
    L.append(f"def sigPathNodeFields : List String := {strs(pn_fields)}")
    L.append(f"def sigPickleNodeFields : List String := {strs(pk_fields)}")
    L.append(f"def sigDirNodeFields : List String := {strs(dn_fields)}")
    L.append(f"def sigPythonNodeFields : List String := {strs(py_fields)}")
    L.append("/-- arguments entering the memo key of `hash_path` as `_get_state` calls it (`cache.py:58-95`, `nodes.py:390-413`). -/")
    L.append(f"def memoKeyFields : List String := {strs(memo_fields)}")
    L.append("/-- which declared paths `pytask_collect_node` (`collect.py`) runs through `os.path.normpath`: a plain `Path` value /")
    L.append("a PathNode, PickleNode or DirectoryNode instance, given relative / absolute (probed on dotted spellings). -/")
    L.append(f"def collectPlainRelNorm : Bool := {extract.lean_bool(cn[('plain', False)])}")
    L.append(f"def collectPlainAbsNorm : Bool := {extract.lean_bool(cn[('plain', True)])}")
    L.append(f"def collectNodeRelNorm : Bool := {extract.lean_bool(cn[('node', False)])}")
    L.append(f"def collectNodeAbsNorm : Bool := {extract.lean_bool(cn[('node', True)])}")
    L.append("/-- `shared.parse_paths` resolves the `paths` argument (`Path(p).resolve()`: no `..`, no symbolic links) instead of keeping it as spelled. -/")
    L.append(f"def parsePathsResolves : Bool := {extract.lean_bool(pp)}")
    L.append("")
    return L
