"""Translator section for the tie of M7 (`lean/PytaskModel/ProvGen.lean`, `PytaskProofs/Properties/ProvTie.lean`): what
provisional.py, provisional_utils.py and `DirectoryNode` (nodes.py) do INSIDE, read with `ast` from the tree under check.

Emits data only, in `Pytask.Generated.Prv`:

* `setupSteps`     — `provisional.pytask_execute_task_setup`: which attribute is resolved through `collect_provisional_nodes`,
                     and under which condition `recreate_dag` is called (always / task registered / task not registered);
* `productsSteps`  — `collect_provisional_products`: the generator early-return, the resolved attribute, the recreate condition;
* `nodeSteps`      — `collect_provisional_nodes`: pass non-provisional leaves through, register the task in
                     `TASKS_WITH_PROVISIONAL_NODES`, call `node.collect()`, return the collected nodes;
* `genSteps`       — the generator branch of `provisional.pytask_execute_task` in source order: kwargs loading loops with their
                     `is_product` flags, the call, the "defined no tasks" `RuntimeError`, collection of the defined tasks,
                     `session.tasks.extend`, `pytask_collect_modify_tasks`, `recreate_dag` (with its condition), the returned
                     value; `genElseReturns` — what a non-generator gets;
* `recreateTry` / `recreateCatches` / `recreateHandler` — `recreate_dag`: the assignments inside the `try` (what the new
                     scheduler is built from), the caught class, what the handler does (FAIL report, `should_stop`);
* `dirCollect`, `dirLoadProduct`, `dirLoadDependencyRaises` — `DirectoryNode.collect` / `.load`
  (the signature fields are `Generated.sigDirNodeFields`, from extract_hash; the `continue` for provisional products in the
  setup loop and the generator guard of `process_report` are `Generated.Eng.setupImpls` / `Eng.reportImpls`, from extract_engine).

Fail-closed: every recogniser raises ExtractError(reason) on a shape it does not know. Tolerant to renamed locals and
helper variables (simple local assignments are substituted), reordered independent statements without effect, comments,
docstrings, formatting.

Hook into `extract.py` with:   from extract_provgen import provgen_section; EXTRA_SECTIONS.append(provgen_section)
"""
from __future__ import annotations

import ast

from extract_engine import Str, _body, _callee, _host, _lean, _params, _top_func, _u  # symbolic-evaluation helpers (shared)


def _err(msg: str):
    return _host().ExtractError("provgen: " + msg)


SCHEMA = """\
/-! What provisional.py, provisional_utils.py and DirectoryNode do, as data (harness/extract_provgen.py). -/
namespace Prv
inductive Attr | dependsOn | produces
deriving Repr, DecidableEq
inductive RCond | always | registered | notRegistered
deriving Repr, DecidableEq
inductive HStep | resolve (a : Attr) | recreate (c : RCond) | retIfGenerator
deriving Repr, DecidableEq
inductive NStep | passNonProvisional | register | collect | returnCollected
deriving Repr, DecidableEq
inductive GStep
  | loadDeps (isProduct : Bool) | loadProds (isProduct needsParam : Bool) | call | parseDefined (raisesIfNone : Bool)
  | collectEach | raiseOnCollectFail | raiseOnDuplicate | extendTasks | modifyTasks | recreate (c : RCond) | ret (v : Bool)
deriving Repr, DecidableEq
inductive ROutcome | fail | skipPrevFailed
deriving Repr, DecidableEq
inductive TStep | setDag | renewSkipMarks | renewFailMarks (roots : List ROutcome) | setScheduler
deriving Repr, DecidableEq
inductive XStep | appendFailReport | setShouldStop
deriving Repr, DecidableEq
inductive GlobKind | rootDirGlob
deriving Repr, DecidableEq
/-- how the condition of a `skipif` mark is read from `mark.args` / `mark.kwargs` -/
inductive CExpr | arg0 | kw (name : String) (dflt : Bool) | ifArgs (t e : CExpr) | neg (e : CExpr) | lit (b : Bool)
deriving Repr, DecidableEq
/-- what `pytask_collect_node` does to the `root_dir` of a DirectoryNode -/
inductive RStep | joinModuleDir | normalise | checkCasing
deriving Repr, DecidableEq
"""


# ------------------------------------------------------------------------------------------------
# helpers
# ------------------------------------------------------------------------------------------------

class Subst:
    """simple local assignments `x = <expr>` are substituted into later expressions"""

    def __init__(self):
        self.vars: dict[str, ast.AST] = {}

    def expr(self, e):
        class T(ast.NodeTransformer):
            def visit_Name(s, n):  # noqa: N802, N805
                if isinstance(n.ctx, ast.Load) and n.id in self.vars:
                    return self.vars[n.id]
                return n

            def visit_Lambda(s, n):  # noqa: N802, N805
                return n
        import copy
        return T().visit(copy.deepcopy(e))

    def bind(self, st) -> bool:
        if isinstance(st, ast.Assign) and len(st.targets) == 1 and isinstance(st.targets[0], ast.Name):
            self.vars[st.targets[0].id] = self.expr(st.value)
            return True
        if isinstance(st, ast.AnnAssign) and isinstance(st.target, ast.Name) and st.value is not None:
            self.vars[st.target.id] = self.expr(st.value)
            return True
        return False


def _is_attr(e, base: str, attr: str) -> bool:
    return isinstance(e, ast.Attribute) and e.attr == attr and isinstance(e.value, ast.Name) and e.value.id == base


def _registered_cond(e) -> tuple | None:
    """`task.signature in TASKS_WITH_PROVISIONAL_NODES` / `not in`"""
    if isinstance(e, ast.Compare) and len(e.ops) == 1 and _is_attr(e.left, "task", "signature") \
            and isinstance(e.comparators[0], ast.Name) and e.comparators[0].id == "TASKS_WITH_PROVISIONAL_NODES":
        if isinstance(e.ops[0], ast.In):
            return ("registered",)
        if isinstance(e.ops[0], ast.NotIn):
            return ("notRegistered",)
    if isinstance(e, ast.UnaryOp) and isinstance(e.op, ast.Not):
        c = _registered_cond(e.operand)
        if c:
            return ("notRegistered",) if c == ("registered",) else ("registered",)
    return None


def _is_recreate_call(st) -> bool:
    return isinstance(st, ast.Expr) and _callee(st.value) == "recreate_dag" and \
        [_u(a) for a in st.value.args] == ["session", "task"] and not st.value.keywords


def _resolve_attr(value, where) -> str | None:
    """`tree_map_with_path(lambda p, x: collect_provisional_nodes(session, task, x, p), task.<attr>)` -> attr"""
    if _callee(value) != "tree_map_with_path" or len(value.args) != 2:
        return None
    lam, tree = value.args
    if not isinstance(lam, ast.Lambda) or len(lam.args.args) != 2:
        return None
    p, x = (a.arg for a in lam.args.args)
    call = lam.body
    if _callee(call) != "collect_provisional_nodes":
        return None
    if [_u(a) for a in call.args] != ["session", "task", x, p] or call.keywords:
        raise _err(f"{where}: collect_provisional_nodes called with {[_u(a) for a in call.args]}, expected (session, task, <leaf>, <path>)")
    if isinstance(tree, ast.Attribute) and _is_attr(tree, "task", tree.attr) and tree.attr in ("depends_on", "produces"):
        return tree.attr
    raise _err(f"{where}: provisional nodes resolved over {_u(tree)!r}")


def _no_effect(st) -> bool:
    """statement without control transfer, without store to task / session attributes and without a call we track"""
    for n in ast.walk(st):
        if isinstance(n, (ast.Raise, ast.Return, ast.Break, ast.Continue, ast.Try, ast.While, ast.Yield, ast.Global, ast.Nonlocal)):
            return False
        if isinstance(n, ast.Attribute) and isinstance(n.ctx, ast.Store):
            return False
        if isinstance(n, ast.Call) and _callee(n) in ("recreate_dag", "collect_provisional_nodes", "collect_provisional_products",
                                                      "create_dag_from_session", "from_dag_and_sorter", "from_dag", "execute",
                                                      "extend", "add", "update", "discard", "remove", "clear", "pop"):
            return False
    return True


ATTR = {"depends_on": ("dependsOn",), "produces": ("produces",)}


def _hook_steps(fn, where: str, allow_generator_return: bool) -> list:
    """statements of a function that resolves provisional nodes of the task and re-creates the DAG"""
    steps = []
    sub = Subst()
    pending: dict = {}
    for st in _body(fn):
        if isinstance(st, ast.If) and _callee(st.test) == "is_task_generator" and [_u(a) for a in st.test.args] == ["task"] \
                and len(st.body) == 1 and isinstance(st.body[0], ast.Return) and st.body[0].value is None and not st.orelse:
            if not allow_generator_return:
                raise _err(f"{where}: unexpected early return for generators")
            steps.append(("retIfGenerator",))
            continue
        if isinstance(st, ast.Assign) and len(st.targets) == 1 and isinstance(st.targets[0], ast.Attribute):
            tgt = st.targets[0]
            attr = _resolve_attr(sub.expr(st.value), where)
            if attr is None or not _is_attr(tgt, "task", attr):
                raise _err(f"{where}: unrecognised assignment {_u(st)!r}")
            steps.append(("resolve", ATTR[attr]))
            continue
        if _is_recreate_call(st):
            steps.append(("recreate", ("always",)))
            continue
        if isinstance(st, ast.If) and not st.orelse and len(st.body) == 1 and _is_recreate_call(st.body[0]):
            c = _registered_cond(sub.expr(st.test))
            if c is None:
                raise _err(f"{where}: recreate_dag under unrecognised condition {_u(st.test)!r}")
            steps.append(("recreate", c))
            continue
        if _no_effect(st):
            sub.bind(st)
            continue
        if _lazy_bind(sub, st, pending):
            continue
        raise _err(f"{where}: unrecognised statement {_u(st)[:120]!r}")
    _check_consumed(fn, pending, where)
    return steps


def _lazy_bind(sub, st, pending: dict) -> bool:
    """`x = tree_map_with_path(…collect_provisional_nodes…)`: the call is substituted where `x` is used; `x` must then be used
    exactly once, in a recognised statement (checked by `_check_consumed`)."""
    if isinstance(st, ast.Assign) and len(st.targets) == 1 and isinstance(st.targets[0], ast.Name) and \
            _callee(st.value) == "tree_map_with_path":
        sub.bind(st)
        pending[st.targets[0].id] = st
        return True
    return False


def _check_consumed(fn, pending: dict, where: str):
    for name, st in pending.items():
        uses = [n for n in ast.walk(fn) if isinstance(n, ast.Name) and n.id == name and isinstance(n.ctx, ast.Load)]
        if len(uses) != 1:
            raise _err(f"{where}: helper variable {name!r} holding resolved nodes is used {len(uses)} times")


def _node_steps() -> list:
    fn = _top_func("provisional_utils.py", "collect_provisional_nodes")
    ps = _params(fn)
    if ps[:4] != ["session", "task", "node", "path"]:
        raise _err(f"collect_provisional_nodes: parameters {ps}")
    steps = []
    sub = Subst()
    collected_var = None
    for st in _body(fn):
        # if not isinstance(node, PProvisionalNode): return node
        if isinstance(st, ast.If) and not st.orelse and len(st.body) == 1 and isinstance(st.body[0], ast.Return):
            t = st.test
            ok = isinstance(t, ast.UnaryOp) and isinstance(t.op, ast.Not) and _callee(t.operand) == "isinstance" and \
                [_u(a) for a in t.operand.args] == ["node", "PProvisionalNode"] and _u(st.body[0].value) == "node"
            if not ok:
                raise _err(f"collect_provisional_nodes: unrecognised guard {_u(st)[:100]!r}")
            steps.append(("passNonProvisional",))
            continue
        if isinstance(st, ast.Expr) and isinstance(st.value, ast.Call) and _u(st.value.func) == "TASKS_WITH_PROVISIONAL_NODES.add":
            if [_u(a) for a in st.value.args] != ["task.signature"]:
                raise _err(f"collect_provisional_nodes: registers {_u(st.value)!r}")
            steps.append(("register",))
            continue
        if isinstance(st, ast.Assign) and len(st.targets) == 1 and isinstance(st.targets[0], ast.Name) and \
                isinstance(st.value, ast.Call) and _u(st.value.func) == "node.collect" and not st.value.args:
            collected_var = st.targets[0].id
            steps.append(("collect",))
            continue
        if isinstance(st, ast.Return):
            v = st.value
            if _callee(v) == "tree_map_with_path" and len(v.args) == 2 and isinstance(v.args[0], ast.Lambda):
                lam = v.args[0]
                leaf = lam.args.args[1].arg if len(lam.args.args) == 2 else None
                src = _u(v.args[1])
                if src == "node.collect()" and collected_var is None:
                    steps.append(("collect",))
                elif src != collected_var:
                    raise _err(f"collect_provisional_nodes: returns nodes collected from {src!r}")
                body = lam.body
                if _callee(body) != "collect_dependency" or leaf is None or f"value={leaf}" not in _u(body):
                    raise _err("collect_provisional_nodes: collected raw nodes are not passed to collect_dependency as `value`")
                steps.append(("returnCollected",))
                continue
            raise _err(f"collect_provisional_nodes: unrecognised return {_u(st)[:100]!r}")
        if sub.bind(st) and _no_effect(st):
            continue
        if _no_effect(st):
            continue
        raise _err(f"collect_provisional_nodes: unrecognised statement {_u(st)[:120]!r}")
    if not steps or steps[-1] != ("returnCollected",):
        raise _err("collect_provisional_nodes: does not end by returning the collected nodes")
    return steps


def _load_loop(st: ast.For, where: str):
    """`for name, value in task.<attr>.items(): [if name in parameters:] kwargs[name] = tree_map(lambda x: _safe_load(x, task, <b>), value)`"""
    it = _u(st.iter)
    if it not in ("task.depends_on.items()", "task.produces.items()") or st.orelse:
        return None
    body = st.body
    needs_param = False
    if len(body) == 1 and isinstance(body[0], ast.If) and not body[0].orelse:
        t = body[0].test
        if not (isinstance(t, ast.Compare) and isinstance(t.ops[0], ast.In) and _u(t.comparators[0]) == "parameters"):
            raise _err(f"{where}: unrecognised guard in kwargs loop {_u(t)!r}")
        needs_param = True
        body = body[0].body
    if len(body) != 1 or not isinstance(body[0], ast.Assign) or not _u(body[0].targets[0]).startswith("kwargs["):
        raise _err(f"{where}: unrecognised kwargs loop body")
    call = body[0].value
    if _callee(call) != "tree_map" or not isinstance(call.args[0], ast.Lambda) or _callee(call.args[0].body) != "_safe_load":
        raise _err(f"{where}: kwargs are not loaded through tree_map(_safe_load)")
    sl = call.args[0].body
    flag = None
    if len(sl.args) >= 3 and isinstance(sl.args[2], ast.Constant):
        flag = sl.args[2].value
    for kw in sl.keywords:
        if kw.arg == "is_product" and isinstance(kw.value, ast.Constant):
            flag = kw.value.value
    if not isinstance(flag, bool):
        raise _err(f"{where}: is_product flag of _safe_load is not a literal")
    if it.startswith("task.depends_on"):
        if needs_param:
            raise _err(f"{where}: dependencies are loaded under a parameter guard")
        return ("loadDeps", flag)
    return ("loadProds", flag, needs_param)


def _is_raise_on_collect_fail(st: ast.For) -> bool:
    """`for i in new_reports: if i.outcome == CollectionOutcome.FAIL and i.exc_info: raise i.exc_info[1]` (f1fcb9a): the first
    defined task whose collection failed makes the generator raise that error."""
    if st.orelse or not isinstance(st.target, ast.Name) or len(st.body) != 1 or not isinstance(st.body[0], ast.If):
        return False
    i = st.target.id
    cond = st.body[0]
    if cond.orelse or len(cond.body) != 1 or not isinstance(cond.body[0], ast.Raise):
        return False
    tests = [_u(v) for v in cond.test.values] if isinstance(cond.test, ast.BoolOp) and isinstance(cond.test.op, ast.And) else [_u(cond.test)]
    if f"{i}.outcome == CollectionOutcome.FAIL" not in tests or any(t not in (f"{i}.outcome == CollectionOutcome.FAIL", f"{i}.exc_info") for t in tests):
        return False
    exc = cond.body[0].exc
    return exc is not None and _u(exc).startswith(f"{i}.exc_info")


def _is_raise_on_duplicate(st: ast.For, sub) -> bool:
    """6571c4f: `signatures = {t.signature for t in session.tasks}` … `for i in new_reports: if <collected task>: if i.node.signature
    in signatures: raise ValueError(…); signatures.add(i.node.signature)` — a defined task with the signature of a task of the
    session or of an earlier defined task makes the generator raise."""
    if st.orelse or not isinstance(st.target, ast.Name) or len(st.body) != 1 or not isinstance(st.body[0], ast.If):
        return False
    i = st.target.id
    outer = st.body[0]
    if outer.orelse or f"{i}.outcome == CollectionOutcome.SUCCESS" not in _u(outer.test):
        return False
    inner = [x for x in outer.body if isinstance(x, ast.If)]
    adds = [x for x in outer.body if isinstance(x, ast.Expr) and isinstance(x.value, ast.Call) and _u(x.value.func).endswith(".add")]
    if len(inner) != 1 or len(adds) != 1 or len(outer.body) != 2 or outer.body.index(inner[0]) > outer.body.index(adds[0]):
        return False
    t = inner[0].test
    if not (isinstance(t, ast.Compare) and isinstance(t.ops[0], ast.In) and _u(t.left) == f"{i}.node.signature"):
        return False
    setname = _u(t.comparators[0])
    if _u(adds[0].value.func) != f"{setname}.add" or [_u(a) for a in adds[0].value.args] != [f"{i}.node.signature"]:
        return False
    if not any(isinstance(x, ast.Raise) for x in inner[0].body):
        return False
    init = sub.vars.get(setname)
    if init is None or _u(init).replace(" ", "") not in ("{t.signaturefortinsession.tasks}", "{task.signaturefortaskinsession.tasks}"):
        raise _err(f"pytask_execute_task (generators): the set of known signatures starts as {_u(init) if init is not None else None!r}")
    return True


def _gen_steps():
    fn = _top_func("provisional.py", "pytask_execute_task")
    top = [st for st in _body(fn)]
    branches = [st for st in top if isinstance(st, ast.If) and _callee(st.test) == "is_task_generator"]
    if len(branches) != 1 or branches[0].orelse or [_u(a) for a in branches[0].test.args] != ["task"]:
        raise _err("pytask_execute_task: expected exactly one `if is_task_generator(task):` without else")
    br = branches[0]
    rest = [st for st in top if st is not br]
    else_ret = False
    for st in rest:
        if isinstance(st, ast.Return):
            if st.value is None or (isinstance(st.value, ast.Constant) and st.value.value is None):
                else_ret = False
            elif isinstance(st.value, ast.Constant):
                else_ret = bool(st.value.value)
            else:
                raise _err("pytask_execute_task: unrecognised tail return")
        elif not _no_effect(st):
            raise _err(f"pytask_execute_task: unrecognised statement outside the generator branch {_u(st)[:100]!r}")
    where = "pytask_execute_task (generators)"
    steps = []
    sub = Subst()
    for st in br.body:
        if isinstance(st, ast.For):
            ld = _load_loop(st, where)
            if ld is not None:
                steps.append(ld)
                continue
            src = _u(st)
            if "pytask_collect_task_protocol" in src:
                steps.append(("collectEach",))
                continue
            if _is_raise_on_collect_fail(st):
                if ("collectEach",) not in steps or ("extendTasks",) in steps:
                    raise _err(f"{where}: collection errors are raised at an unexpected place")
                steps.append(("raiseOnCollectFail",))
                continue
            if _is_raise_on_duplicate(st, sub):
                if ("collectEach",) not in steps or ("extendTasks",) in steps:
                    raise _err(f"{where}: name clashes are raised at an unexpected place")
                steps.append(("raiseOnDuplicate",))
                continue
            raise _err(f"{where}: unrecognised loop {src[:100]!r}")
        if isinstance(st, ast.Expr) and isinstance(st.value, ast.Call):
            c = st.value
            if _u(c.func) == "task.execute":
                if [_u(a) for a in c.args] or [(k.arg, _u(k.value)) for k in c.keywords] != [(None, "kwargs")]:
                    raise _err(f"{where}: task.execute called as {_u(c)!r}")
                steps.append(("call",))
                continue
            if _u(c.func) == "session.tasks.extend":
                src = _u(c)
                if "CollectionOutcome.SUCCESS" not in src or "new_reports" not in src and "reports" not in src:
                    raise _err(f"{where}: session.tasks.extend does not add the successfully collected tasks")
                steps.append(("extendTasks",))
                continue
            if _is_recreate_call(st):
                steps.append(("recreate", ("always",)))
                continue
            if _u(c.func) in ("session.collection_reports.append",):
                continue
            raise _err(f"{where}: unrecognised call {_u(c)[:100]!r}")
        if isinstance(st, ast.If):
            if len(st.body) == 1 and _is_recreate_call(st.body[0]) and not st.orelse:
                c = _registered_cond(sub.expr(st.test))
                if c is None:
                    raise _err(f"{where}: recreate_dag under unrecognised condition {_u(st.test)!r}")
                steps.append(("recreate", c))
                continue
            src = _u(st)
            if "COLLECTED_TASKS" in src and "parse_collected_tasks_with_task_marker" in src:
                # what the generator defined is TAKEN OUT of COLLECTED_TASKS (`.pop`), so that it is not collected again by
                # the next generator of the module
                branches, node = [], st
                while isinstance(node, ast.If):
                    branches.append(node.body)
                    node = node.orelse[0] if len(node.orelse) == 1 and isinstance(node.orelse[0], ast.If) else None
                for b in branches:
                    if not any(isinstance(x, ast.Assign) and _u(x.value).startswith("COLLECTED_TASKS.pop(") for x in b):
                        raise _err(f"{where}: the defined tasks are not popped from COLLECTED_TASKS")
                # the chain ends in `else: raise RuntimeError(...)` iff a generator that defined nothing fails
                node, raises = st, False
                while True:
                    if not node.orelse:
                        break
                    if len(node.orelse) == 1 and isinstance(node.orelse[0], ast.If):
                        node = node.orelse[0]
                        continue
                    raises = any(isinstance(x, ast.Raise) for x in node.orelse)
                    break
                steps.append(("parseDefined", raises))
                continue
            raise _err(f"{where}: unrecognised if {src[:100]!r}")
        if isinstance(st, ast.Try):
            src = _u(st)
            if "pytask_collect_modify_tasks" in src:
                steps.append(("modifyTasks",))
                continue
            raise _err(f"{where}: unrecognised try {src[:100]!r}")
        if isinstance(st, ast.Return):
            if st.value is None or (isinstance(st.value, ast.Constant) and st.value.value is None):
                steps.append(("ret", False))
            elif isinstance(st.value, ast.Constant):
                steps.append(("ret", bool(st.value.value)))
            else:
                raise _err(f"{where}: unrecognised return value {_u(st.value)!r}")
            continue
        if sub.bind(st) and _no_effect(st):
            continue
        if _no_effect(st):
            continue
        raise _err(f"{where}: unrecognised statement {_u(st)[:120]!r}")
    return steps, else_ret


def _check_renew_skip_marks():
    """`_skip_descendants_of_skipped_tasks` (0574d89, fd3daac): attaches only `skip` marks, and only below tasks that were
    reported SKIP or carry a `skip` / true `skipif` marker. M7 has neither (see the header of Provisional.lean): a no-op there."""
    fn = _top_func("provisional_utils.py", "_skip_descendants_of_skipped_tasks")
    loops = [st for st in _body(fn) if isinstance(st, ast.For)]
    if len(loops) != 1 or any(not _no_effect(st) for st in _body(fn) if st is not loops[0]):
        raise _err("_skip_descendants_of_skipped_tasks: expected one loop")
    lp = loops[0]
    if not isinstance(lp.target, ast.Name):
        raise _err("_skip_descendants_of_skipped_tasks: unrecognised loop target")
    if _u(lp.iter) == "session.execution_reports":
        r = lp.target.id
        first = lp.body[0] if lp.body else None
        ok = isinstance(first, ast.If) and _u(first.test) == f"{r}.outcome != TaskOutcome.SKIP" and len(first.body) == 1 and \
            isinstance(first.body[0], ast.Continue) and not first.orelse
        if not ok:
            raise _err("_skip_descendants_of_skipped_tasks: does not skip reports whose outcome is not SKIP")
    elif _u(lp.iter) == "_skipped_tasks(session)":
        src = _top_func("provisional_utils.py", "_skipped_tasks")

        def guarded(node, guards):
            for ch in ast.iter_child_nodes(node):
                if isinstance(ch, (ast.Yield, ast.YieldFrom)):
                    g = " & ".join(guards)
                    if not ("TaskOutcome.SKIP" in g and "==" in g or "has_mark(task, 'skip')" in g):
                        raise _err(f"_skipped_tasks: yields a task under {g!r}")
                guarded(ch, guards + [_u(ch.test)] if isinstance(ch, ast.If) else guards)
        guarded(src, [])
        if not any(isinstance(n, (ast.Yield, ast.YieldFrom)) for n in ast.walk(src)):
            raise _err("_skipped_tasks: no yield")
    else:
        raise _err(f"_skip_descendants_of_skipped_tasks: loops over {_u(lp.iter)!r}")
    for n in ast.walk(lp):
        if isinstance(n, ast.Attribute) and isinstance(n.ctx, ast.Store):
            raise _err("_skip_descendants_of_skipped_tasks: stores to an attribute")
        if isinstance(n, ast.Call) and _callee(n) == "Mark" and _u(n.args[0]) != "'skip'":
            raise _err(f"_skip_descendants_of_skipped_tasks: attaches the mark {_u(n.args[0])}")


def _check_renew_fail_marks():
    """`_skip_descendants_of_failed_tasks` (fix ee6b73e, finding F37): for every execution report whose outcome is FAIL, every task in
    `descending_tasks(report.task.signature, session.dag)` that has no `skip_ancestor_failed` mark gets one."""
    fn = _top_func("provisional_utils.py", "_skip_descendants_of_failed_tasks")
    loops = [st for st in _body(fn) if isinstance(st, ast.For)]
    if len(loops) != 1 or any(not _no_effect(st) for st in _body(fn) if st is not loops[0]):
        raise _err("_skip_descendants_of_failed_tasks: expected one loop over the execution reports")
    lp = loops[0]
    if _u(lp.iter) != "session.execution_reports" or not isinstance(lp.target, ast.Name):
        raise _err(f"_skip_descendants_of_failed_tasks: loops over {_u(lp.iter)!r}")
    r = lp.target.id
    first = lp.body[0] if lp.body else None
    if not (isinstance(first, ast.If) and len(first.body) == 1 and isinstance(first.body[0], ast.Continue) and not first.orelse):
        raise _err("_skip_descendants_of_failed_tasks: does not start by passing over the other reports")
    # which outcomes are roots: `report.outcome != TaskOutcome.FAIL` (ee6b73e) or `report.outcome not in (TaskOutcome.FAIL,
    # TaskOutcome.SKIP_PREVIOUS_FAILED)` (501f7e1: a task skipped because of a failed ancestor passes the mark on)
    t = first.test
    names = {"TaskOutcome.FAIL": ("fail",), "TaskOutcome.SKIP_PREVIOUS_FAILED": ("skipPrevFailed",)}
    roots = None
    if isinstance(t, ast.Compare) and len(t.ops) == 1 and _u(t.left) == f"{r}.outcome":
        if isinstance(t.ops[0], ast.NotEq) and _u(t.comparators[0]) in names:
            roots = [names[_u(t.comparators[0])]]
        elif isinstance(t.ops[0], ast.NotIn) and isinstance(t.comparators[0], (ast.Tuple, ast.List, ast.Set)) and \
                all(_u(e) in names for e in t.comparators[0].elts):
            roots = [names[_u(e)] for e in t.comparators[0].elts]
    if not roots:
        raise _err(f"_skip_descendants_of_failed_tasks: unrecognised selection of reports {_u(t)!r}")
    inner = [st for st in lp.body[1:] if isinstance(st, ast.For)]
    if len(inner) != 1 or len(lp.body) != 2 or _u(inner[0].iter) != f"descending_tasks({r}.task.signature, session.dag)":
        raise _err("_skip_descendants_of_failed_tasks: expected one loop over descending_tasks(report.task.signature, session.dag)")
    src = _u(inner[0])
    if "has_mark(" not in src or "'skip_ancestor_failed'" not in src:
        raise _err("_skip_descendants_of_failed_tasks: no has_mark(…, 'skip_ancestor_failed') guard")
    marks = [n for n in ast.walk(lp) if isinstance(n, ast.Call) and _callee(n) == "Mark"]
    if len(marks) != 1 or _u(marks[0].args[0]) != "'skip_ancestor_failed'":
        raise _err("_skip_descendants_of_failed_tasks: does not attach exactly the mark 'skip_ancestor_failed'")
    for n in ast.walk(lp):
        if isinstance(n, ast.Attribute) and isinstance(n.ctx, ast.Store):
            raise _err("_skip_descendants_of_failed_tasks: stores to an attribute")
    return roots


def _recreate():
    fn = _top_func("provisional_utils.py", "recreate_dag")
    stmts = _body(fn)
    tries = [st for st in stmts if isinstance(st, ast.Try)]
    if len(tries) != 1 or any(not _no_effect(st) for st in stmts if st is not tries[0]):
        raise _err("recreate_dag: expected one try statement and nothing else with an effect")
    tr = tries[0]
    if tr.orelse or tr.finalbody or len(tr.handlers) != 1:
        raise _err("recreate_dag: unrecognised try shape")
    steps = []
    sub = Subst()
    new_dag_names = {"session.dag"} if False else set()
    for st in tr.body:
        if isinstance(st, ast.Assign) and len(st.targets) == 1:
            tgt, val = _u(st.targets[0]), sub.expr(st.value)
            if tgt == "session.dag":
                if _u(val) != "create_dag_from_session(session)":
                    raise _err(f"recreate_dag: session.dag = {_u(val)!r}")
                steps.append(("setDag",))
                new_dag_names.add("session.dag")
                continue
            if tgt == "session.scheduler":
                if _callee(val) != "from_dag_and_sorter" or len(val.args) != 2:
                    raise _err(f"recreate_dag: session.scheduler = {_u(val)[:80]!r}")
                a0, a1 = _u(val.args[0]), _u(val.args[1])
                if not ((a0 == "session.dag" and "session.dag" in new_dag_names) or
                        (a0 == "create_dag_from_session(session)" and "session.dag" in new_dag_names)):
                    raise _err(f"recreate_dag: the new scheduler is built from {a0!r}, not from the new DAG")
                if a1 != "session.scheduler":
                    raise _err(f"recreate_dag: the new scheduler takes over {a1!r}, not the running scheduler")
                steps.append(("setScheduler",))
                continue
            if isinstance(st.targets[0], ast.Name):
                sub.bind(st)
                continue
        # fix 0574d89 (finding F33): after the new DAG exists, the `skip` marks of the descendants of tasks whose outcome is SKIP
        # are renewed. Recognised: exactly this callee on exactly `session`, after the new DAG was stored, and its body acts
        # only for reports with `outcome == TaskOutcome.SKIP` (`_check_renew_skip_marks`). Emitted as a step of its own; M7 has
        # no skip marks and no SKIP outcome (see the header of PytaskModel/Provisional.lean), so the interpreter passes over it.
        if isinstance(st, ast.Expr) and _callee(st.value) == "_skip_descendants_of_skipped_tasks" and \
                [_u(a) for a in st.value.args] == ["session"] and not st.value.keywords and "session.dag" in new_dag_names:
            _check_renew_skip_marks()
            steps.append(("renewSkipMarks",))
            continue
        # fix ee6b73e (finding F37): likewise the `skip_ancestor_failed` marks below tasks whose outcome is FAIL are renewed in the
        # new DAG. M7 has fail marks: the interpreter adds them (`Sess.renewed`).
        if isinstance(st, ast.Expr) and _callee(st.value) == "_skip_descendants_of_failed_tasks" and \
                [_u(a) for a in st.value.args] == ["session"] and not st.value.keywords and "session.dag" in new_dag_names:
            steps.append(("renewFailMarks", _check_renew_fail_marks()))
            continue
        raise _err(f"recreate_dag: unrecognised statement in try {_u(st)[:100]!r}")
    h = tr.handlers[0]
    if h.type is None:
        catches = ["BaseException"]
    elif isinstance(h.type, ast.Name):
        catches = [h.type.id]
    elif isinstance(h.type, ast.Tuple):
        catches = [e.id for e in h.type.elts]
    else:
        raise _err("recreate_dag: unrecognised handler type")
    hsteps = []
    hsub = Subst()
    for st in h.body:
        src = _u(st)
        if isinstance(st, ast.Expr) and isinstance(st.value, ast.Call) and _u(st.value.func) == "session.execution_reports.append":
            arg = _u(hsub.expr(st.value.args[0]))
            if not arg.startswith("ExecutionReport.from_task_and_exception(task"):
                raise _err(f"recreate_dag: handler appends {arg[:80]!r}")
            hsteps.append(("appendFailReport",))
            continue
        if isinstance(st, ast.Assign) and _u(st.targets[0]) == "session.should_stop":
            if not (isinstance(st.value, ast.Constant) and st.value.value is True):
                raise _err(f"recreate_dag: handler sets should_stop = {_u(st.value)!r}")
            hsteps.append(("setShouldStop",))
            continue
        if hsub.bind(st):
            continue
        if _no_effect(st):
            continue
        raise _err(f"recreate_dag: unrecognised statement in handler {src[:100]!r}")
    return steps, catches, hsteps


def _directory_node():
    mod = _host()._parse("nodes.py")
    cls = [n for n in mod.body if isinstance(n, ast.ClassDef) and n.name == "DirectoryNode"]
    if len(cls) != 1:
        raise _err("nodes.py: class DirectoryNode not found")
    meths = {b.name: b for b in cls[0].body if isinstance(b, ast.FunctionDef)}
    for m in ("collect", "load", "signature"):
        if m not in meths:
            raise _err(f"DirectoryNode.{m} not found")
    # collect: the set of root_dir.glob(pattern), in any order (list / sorted / tuple of it), nothing dropped
    sub = Subst()
    kind = None
    for st in _body(meths["collect"]):
        if isinstance(st, ast.Return):
            v = sub.expr(st.value)
            while isinstance(v, ast.Call) and _callee(v) in ("list", "sorted", "tuple") and len(v.args) == 1 and \
                    all(k.arg in ("reverse", "key") for k in v.keywords):
                v = v.args[0]
            if _u(v) == "self.root_dir.glob(self.pattern)":
                kind = ("rootDirGlob",)
            else:
                raise _err(f"DirectoryNode.collect returns {_u(v)[:80]!r}, not the matches of root_dir.glob(pattern)")
        elif not (sub.bind(st) or _no_effect(st)):
            raise _err(f"DirectoryNode.collect: unrecognised statement {_u(st)[:80]!r}")
    if kind is None:
        raise _err("DirectoryNode.collect: no return")
    # load: root_dir as a product, NotImplementedError as a dependency
    load_prod, dep_raises = None, False
    for st in _body(meths["load"]):
        if isinstance(st, ast.If) and _u(st.test) == "is_product" and len(st.body) == 1 and isinstance(st.body[0], ast.Return):
            v = st.body[0].value
            if isinstance(v, ast.Attribute) and _is_attr(v, "self", v.attr):
                load_prod = v.attr
        elif isinstance(st, ast.Raise):
            dep_raises = True
        elif not (isinstance(st, ast.Assign) and _no_effect(st)):
            raise _err(f"DirectoryNode.load: unrecognised statement {_u(st)[:80]!r}")
    if load_prod is None:
        raise _err("DirectoryNode.load: no `if is_product: return self.<attr>`")
    return kind, load_prod, dep_raises


# ------------------------------------------------------------------------------------------------
# skipif conditions: provisional_utils._is_condition_true against skipping.py
# ------------------------------------------------------------------------------------------------

def _truth(c) -> bool | None:
    if isinstance(c, ast.Constant) and (c.value is None or isinstance(c.value, (bool, int, str))):
        return bool(c.value)
    return None


def _cexpr(e, m: str, env: dict, where: str):
    """expression over `mark.args` / `mark.kwargs` → CExpr (truthiness of the value it denotes)"""
    if isinstance(e, ast.Name) and e.id in env:
        return _cexpr(env[e.id], m, env, where)
    u = _u(e)
    if u == f"{m}.args[0]":
        return ("arg0",)
    if isinstance(e, ast.Call) and _callee(e) == "bool" and len(e.args) == 1 and not e.keywords:
        return _cexpr(e.args[0], m, env, where)
    if isinstance(e, ast.UnaryOp) and isinstance(e.op, ast.Not):
        return ("neg", _cexpr(e.operand, m, env, where))
    if isinstance(e, ast.IfExp):
        t = _u(e.test)
        if t in (f"{m}.args", f"len({m}.args) > 0", f"len({m}.args) >= 1", f"bool({m}.args)"):
            return ("ifArgs", _cexpr(e.body, m, env, where), _cexpr(e.orelse, m, env, where))
        if t in (f"not {m}.args", f"len({m}.args) == 0"):
            return ("ifArgs", _cexpr(e.orelse, m, env, where), _cexpr(e.body, m, env, where))
        raise _err(f"{where}: unrecognised test {t!r}")
    if isinstance(e, ast.Call) and _u(e.func) == f"{m}.kwargs.get" and not e.keywords and len(e.args) in (1, 2) and \
            isinstance(e.args[0], ast.Constant) and isinstance(e.args[0].value, str):
        d = False if len(e.args) == 1 else _truth(e.args[1])
        if d is None:
            raise _err(f"{where}: the default of {u!r} is not a constant")
        return ("kw", Str(e.args[0].value), d)
    if isinstance(e, ast.Subscript) and _u(e.value) == f"{m}.kwargs" and isinstance(e.slice, ast.Constant) and isinstance(e.slice.value, str):
        return ("kw", Str(e.slice.value), False)
    if _truth(e) is not None:
        return ("lit", _truth(e))
    raise _err(f"{where}: cannot read {u[:80]!r} as the condition of a skipif mark")


def _skipif_facts():
    # (a) the re-creation side: `_is_condition_true(mark)` = truthiness of an expression over mark.args / mark.kwargs
    fn = _top_func("provisional_utils.py", "_is_condition_true")
    ps = _params(fn)
    if len(ps) != 1:
        raise _err("_is_condition_true: expected one parameter")
    env, ret = {}, None
    for st in _body(fn):
        if isinstance(st, ast.Assign) and len(st.targets) == 1 and isinstance(st.targets[0], ast.Name) and ret is None:
            env[st.targets[0].id] = st.value
        elif isinstance(st, ast.Return) and st.value is not None and ret is None:
            ret = st.value
        elif not _no_effect(st):
            raise _err(f"_is_condition_true: unrecognised statement {_u(st)[:60]!r}")
    if ret is None:
        raise _err("_is_condition_true: no return")
    recreate = _cexpr(ret, ps[0], env, "_is_condition_true")
    # how `_skipped_tasks` combines the marks of one task
    src = _top_func("provisional_utils.py", "_skipped_tasks")
    combine = None
    for lp in [n for n in ast.walk(src) if isinstance(n, ast.For) and _u(n.iter) == "session.tasks"]:
        t = lp.target.id if isinstance(lp.target, ast.Name) else None
        for iff in [n for n in ast.walk(lp) if isinstance(n, ast.If)]:
            if not any(isinstance(n, (ast.Yield, ast.YieldFrom)) for n in ast.walk(iff)):
                continue
            parts = iff.test.values if isinstance(iff.test, ast.BoolOp) and isinstance(iff.test.op, ast.Or) else [iff.test]
            for part in parts:
                if _u(part) == f"has_mark({t}, 'skip')":
                    continue
                if isinstance(part, ast.Call) and _callee(part) in ("any", "all") and len(part.args) == 1 and \
                        isinstance(part.args[0], (ast.GeneratorExp, ast.ListComp)) and len(part.args[0].generators) == 1:
                    g = part.args[0].generators[0]
                    if isinstance(g.target, ast.Name) and not g.ifs and _u(g.iter) == f"get_marks({t}, 'skipif')" and \
                            _u(part.args[0].elt) == f"_is_condition_true({g.target.id})" and combine is None:
                        combine = _callee(part)
                        continue
                raise _err(f"_skipped_tasks: yields a task under {_u(part)[:80]!r}")
    if combine is None:
        raise _err("_skipped_tasks: no `any(_is_condition_true(mark) for mark in get_marks(task, 'skipif'))`")
    # (b) the regular side: skipping.py calls `skipif(*mark.args, **mark.kwargs)` and looks at one element of what it returns
    sk = _top_func("skipping.py", "skipif")
    a = sk.args
    if a.posonlyargs or a.vararg or a.kwarg or len(a.args) != 1:
        raise _err("skipping.skipif: expected exactly one positional-or-keyword parameter (the condition)")
    param = a.args[0].arg
    rets = [n for n in ast.walk(sk) if isinstance(n, ast.Return)]
    if len(rets) != 1 or not isinstance(rets[0].value, ast.Tuple) or any(not _no_effect(st) for st in _body(sk) if st is not rets[0]):
        raise _err("skipping.skipif: does not just return a tuple of its parameters")
    where = [i for i, e in enumerate(rets[0].value.elts) if isinstance(e, ast.Name) and e.id == param]
    if len(where) != 1:
        raise _err(f"skipping.skipif: the returned tuple does not hold {param!r} exactly once")
    setup = _top_func("skipping.py", "pytask_execute_task_setup")
    marks_var = args_var = None
    read = scombine = None
    for n in ast.walk(setup):
        if isinstance(n, ast.Assign) and len(n.targets) == 1 and isinstance(n.targets[0], ast.Name):
            v = n.value
            if _u(v) == "get_marks(task, 'skipif')":
                marks_var = n.targets[0].id
            elif isinstance(v, (ast.ListComp, ast.GeneratorExp)) and isinstance(v.elt, ast.Call) and _callee(v.elt) == "skipif":
                g = v.generators[0]
                if len(v.generators) != 1 or g.ifs or not isinstance(g.target, ast.Name) or \
                        _u(v.elt) != f"skipif(*{g.target.id}.args, **{g.target.id}.kwargs)" or _u(g.iter) != marks_var:
                    raise _err(f"skipping.pytask_execute_task_setup: unrecognised evaluation of the skipif marks {_u(v)[:80]!r}")
                args_var = n.targets[0].id
    for n in ast.walk(setup):
        if isinstance(n, ast.If) and any(isinstance(r, ast.Raise) and "Skipped(" in _u(r) + "(" and "SkippedAncestorFailed" not in _u(r)
                                         and "SkippedUnchanged" not in _u(r) for r in n.body):
            test = n.test
            if isinstance(test, ast.Name):
                defs = [x.value for x in ast.walk(setup) if isinstance(x, ast.Assign) and len(x.targets) == 1 and _u(x.targets[0]) == test.id]
                if len(defs) != 1:
                    continue
                test = defs[0]
            if isinstance(test, ast.Call) and _callee(test) in ("any", "all") and len(test.args) == 1 and \
                    isinstance(test.args[0], (ast.GeneratorExp, ast.ListComp)) and len(test.args[0].generators) == 1:
                g = test.args[0].generators[0]
                e = test.args[0].elt
                if args_var is not None and _u(g.iter) == args_var and not g.ifs and isinstance(g.target, ast.Name) and \
                        isinstance(e, ast.Subscript) and _u(e.value) == g.target.id and isinstance(e.slice, ast.Constant) and \
                        isinstance(e.slice.value, int) and e.slice.value >= 0:
                    if read is not None:
                        raise _err("skipping.pytask_execute_task_setup: two decisions over the skipif marks")
                    read, scombine = e.slice.value, _callee(test)
    if read is None:
        raise _err("skipping.pytask_execute_task_setup: no `any(arg[i] for arg in [skipif(*mark.args, **mark.kwargs) …])` deciding `raise Skipped`")
    return dict(recreate=recreate, combine=combine, param=param, tuple_index=where[0], read_index=read, setup_combine=scombine)


# ------------------------------------------------------------------------------------------------
# collect.py: the root_dir of a DirectoryNode — joined to the directory of the task module, THEN normalised
# ------------------------------------------------------------------------------------------------

def _root_dir_facts():
    fn = _top_func("collect.py", "pytask_collect_node")
    ps = _params(fn)
    if len(ps) != 3:
        raise _err("collect.pytask_collect_node: parameters")
    path = ps[1]
    blocks = [st for st in _body(fn) if isinstance(st, ast.If) and _u(st.test) == "isinstance(node, DirectoryNode)"]
    if len(blocks) != 1 or blocks[0].orelse:
        raise _err("collect.pytask_collect_node: expected one `if isinstance(node, DirectoryNode):` block")
    for st in _body(fn):
        if st is not blocks[0] and any(isinstance(n, ast.Attribute) and n.attr == "root_dir" and isinstance(n.ctx, ast.Store) for n in ast.walk(st)):
            raise _err("collect.pytask_collect_node: root_dir is assigned outside the DirectoryNode block")
    RD = "node.root_dir"

    env = {}      # helper variables: `joined = path / node.root_dir`

    def expr_steps(e):
        u = _u(e)
        if u == RD:
            return []
        if isinstance(e, ast.Name) and e.id in env:
            return expr_steps(env[e.id])
        if isinstance(e, ast.Call) and _u(e.func) == f"{path}.joinpath" and len(e.args) == 1 and not e.keywords:
            return expr_steps(e.args[0]) + [("joinModuleDir",)]
        if isinstance(e, ast.BinOp) and isinstance(e.op, ast.Div) and _u(e.left) == path:
            return expr_steps(e.right) + [("joinModuleDir",)]
        if isinstance(e, ast.Call) and _u(e.func) in ("os.path.normpath", "normpath") and len(e.args) == 1 and not e.keywords:
            return expr_steps(e.args[0]) + [("normalise",)]
        if isinstance(e, ast.Call) and _u(e.func) == "Path" and len(e.args) == 1 and not e.keywords:
            return expr_steps(e.args[0])
        raise _err(f"collect.pytask_collect_node: unrecognised value for root_dir {u[:80]!r}")

    def stmts(body, rel, ab):
        """append the steps of `body` to the relative / absolute lists (None = this case does not reach the statements)"""
        for st in body:
            if isinstance(st, ast.Assign) and len(st.targets) == 1 and _u(st.targets[0]) == RD:
                steps = expr_steps(st.value)
                for acc in (rel, ab):
                    if acc is not None:
                        acc.extend(steps)
            elif isinstance(st, ast.Assign) and len(st.targets) == 1 and isinstance(st.targets[0], ast.Name) and RD in _u(st.value):
                env[st.targets[0].id] = st.value
            elif isinstance(st, ast.Expr) and isinstance(st.value, ast.Call) and _callee(st.value) == "_raise_error_if_casing_of_path_is_wrong" \
                    and st.value.args and _u(st.value.args[0]) == RD:
                for acc in (rel, ab):
                    if acc is not None:
                        acc.append(("checkCasing",))
            elif isinstance(st, ast.If) and _u(st.test) == f"{RD} is None":
                # a missing root_dir is the directory of the module itself (absolute, already normal)
                if len(st.body) != 1 or st.orelse or _u(st.body[0]) != f"{RD} = {path}":
                    raise _err("collect.pytask_collect_node: unrecognised default of root_dir")
            elif isinstance(st, ast.If) and _u(st.test) == f"not {RD}.is_absolute()":
                stmts(st.body, rel, None)
                stmts(st.orelse, None, ab)
            elif isinstance(st, ast.If) and _u(st.test) == f"{RD}.is_absolute()":
                stmts(st.body, None, ab)
                stmts(st.orelse, rel, None)
            elif isinstance(st, ast.If) and _u(st.test) == f"not isinstance({RD}, UPath)" and not st.orelse:
                stmts(st.body, rel, ab)          # local paths (the model has no remote ones)
            elif any(isinstance(n, ast.Attribute) and n.attr == "root_dir" and isinstance(n.ctx, ast.Store) for n in ast.walk(st)):
                raise _err(f"collect.pytask_collect_node: root_dir is assigned under {_u(st)[:60]!r}")
            # anything else (the name of the node) does not touch root_dir
    rel, ab = [], []
    stmts(blocks[0].body, rel, ab)
    return rel, ab


def _facts():
    setup = _top_func("provisional.py", "pytask_execute_task_setup")
    if _params(setup)[:2] != ["session", "task"]:
        raise _err("provisional.pytask_execute_task_setup: parameters")
    setup_steps = _hook_steps(setup, "provisional.pytask_execute_task_setup", allow_generator_return=False)
    prods = _top_func("provisional_utils.py", "collect_provisional_products")
    prods_steps = _hook_steps(prods, "collect_provisional_products", allow_generator_return=True)
    gsteps, gelse = _gen_steps()
    rtry, rcatch, rhandler = _recreate()
    kind, load_prod, dep_raises = _directory_node()
    rd_rel, rd_abs = _root_dir_facts()
    return dict(skipif=_skipif_facts(), rd_rel=rd_rel, rd_abs=rd_abs, setup=setup_steps, prods=prods_steps, node=_node_steps(), gen=gsteps, gelse=gelse, rtry=rtry, rcatch=rcatch,
                rhandler=rhandler, kind=kind, load_prod=load_prod, dep_raises=dep_raises)


def provgen_section() -> list[str]:
    X = _host()
    try:
        f = _facts()
    except X.ExtractError:
        raise
    except Exception as e:  # noqa: BLE001
        raise _err(f"extractor crashed: {type(e).__name__}: {e}") from None
    strs = lambda xs: X.lean_list(xs, X.lean_str)  # noqa: E731
    L = SCHEMA.rstrip("\n").split("\n")
    L.append("/-- `provisional.pytask_execute_task_setup`, statements with an effect in source order. -/")
    L.append(f"def setupSteps : List HStep := {_lean(f['setup'])}")
    L.append("/-- `provisional_utils.collect_provisional_products`. -/")
    L.append(f"def productsSteps : List HStep := {_lean(f['prods'])}")
    L.append("/-- `provisional_utils.collect_provisional_nodes` on one leaf. -/")
    L.append(f"def nodeSteps : List NStep := {_lean(f['node'])}")
    L.append("/-- the generator branch of `provisional.pytask_execute_task`; what a non-generator gets returned. -/")
    L.append(f"def genSteps : List GStep := {_lean(f['gen'])}")
    L.append(f"def genElseReturns : Bool := {X.lean_bool(f['gelse'])}")
    L.append("/-- `provisional_utils.recreate_dag`: assignments inside the try, caught classes, the handler. -/")
    L.append(f"def recreateTry : List TStep := {_lean(f['rtry'])}")
    L.append(f"def recreateCatches : List String := {strs(f['rcatch'])}")
    L.append(f"def recreateHandler : List XStep := {_lean(f['rhandler'])}")
    L.append("/-- `DirectoryNode.collect` / `.load` (nodes.py). -/")
    L.append(f"def dirCollect : GlobKind := {_lean(f['kind'])}")
    L.append(f"def dirLoadProduct : String := {X.lean_str(f['load_prod'])}")
    L.append(f"def dirLoadDependencyRaises : Bool := {X.lean_bool(f['dep_raises'])}")
    k = f["skipif"]
    L.append("/-- `provisional_utils._is_condition_true(mark)` (truthiness of …) and how `_skipped_tasks` combines the marks of a task. -/")
    L.append(f"def skipifReadRecreate : CExpr := {_lean(k['recreate'])}")
    L.append(f"def skipifCombineRecreate : String := {X.lean_str(k['combine'])}")
    L.append("/-- skipping.py: `skipif(*mark.args, **mark.kwargs)` binds the condition to this parameter, returns it at `skipifTupleIndex`;")
    L.append("    the setup hook skips when `<skipifCombineSetup>(arg[skipifReadIndex] for arg in …)`. -/")
    L.append(f"def skipifParam : String := {X.lean_str(k['param'])}")
    L.append(f"def skipifTupleIndex : Nat := {k['tuple_index']}")
    L.append(f"def skipifReadIndex : Nat := {k['read_index']}")
    L.append(f"def skipifCombineSetup : String := {X.lean_str(k['setup_combine'])}")
    L.append("/-- `collect.pytask_collect_node`, DirectoryNode branch: what happens to a relative / an absolute `root_dir`, in order. -/")
    L.append(f"def rootDirRelative : List RStep := {_lean(f['rd_rel'])}")
    L.append(f"def rootDirAbsolute : List RStep := {_lean(f['rd_abs'])}")
    L.append("end Prv")
    L.append("")
    return L


if __name__ == "__main__":
    print("\n".join(provgen_section()))
